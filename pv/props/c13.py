# -*- coding: utf-8 -*-
"""
C13 - df_slice keeps exactly the rows in the interval; stitching switches at the bounds; df_unslice inverts stitching.

Oracles (all plain python on the model {timestamp: row}):
  slice_dates  row filter with < / <= per bracket on datetime.datetime values
  slice_tod    row filter on t.time(); start > end wraps: (time >=/> start) OR (time </<= end)
  stitch       pairs (bound_i, series_i) ordered by bound; interval i takes its rows from series i .. i+n-1
  unslice      df_unslice(frame, ub) has one series per bound and re-stitching them gives the frame back
"""
import datetime
import os

from hypothesis import strategies as st

from pv.core import Sub, Violation, call, check, short
from pv.codec import D0, mkdt

ASSUMPTIONS = [
    'a timeseries has a non-decreasing DatetimeIndex (is_ts warns about unsorted ones; pandas label slicing, used as fast path, is positional on '
    'unsorted axes), no timezone, microsecond resolution; a third to a half of the single-slice cases (and half of the n = 1 stitching cases) repeat 1-2 stamps 2-3 times: '
    'the statement is a plain row filter, so every row carrying a stamp is in or out together and rows keep their order. n >= 2 stitching and df_unslice keep '
    'duplicate-free series (the column-wise concat of pandas raises on duplicate labels: not well defined there)',
    'KNOWN DEFECT excluded by construction in slice_tod (KNOWN c13.tod_wrap_reorders_duplicate_stamps): a wrapping time-of-day window on an index with a repeated stamp '
    'that keeps more than 16 rows comes back with the rows of equal stamp reordered (unstable sort_index after the concat); PV_C13_INCLUDE_KNOWN=1 puts the class back',
    'single slices: Series (named None / "x" / 0) and DataFrames of 0-3 columns (labels in any order: strings that are prefixes of one another, ints, "index") holding floats (with NaN), '
    'ints or strings; 0-11 rows (0-15 in the thorough tier), one case in 8 with 64/65/100/128/300 rows, one in 8 with a single row; stamps down to microseconds and up to the year 2270',
    'a no-op slice (no bound, or every row kept) may return the operand itself: the statement fixes rows and values, not object identity - only "operand unchanged by the call" is asserted',
    'date bounds are given as datetime / pandas.Timestamp / numpy.datetime64, and as datetime.date or "YYYYMMDD" text when they fall on midnight '
    '(other spellings of dates are the subject of C04); no today-relative bounds',
    'openclose is one of the 4 bracket pairs or their letter forms oc/co/cc/oo (upper or lower case), or omitted (= "(]"); '
    'the undocumented values None / "" and the documented-but-raising " " are not exercised',
    'time-of-day bounds are datetime.time (whole seconds, or 1-2 microseconds past a whole second) without tzinfo; either may be missing',
    'stitching: the list holds pandas Series (DataFrames only for n = 1) - the "list of symbols" form of the docstring is outside the statement; '
    'bounds are datetimes, strictly increasing or strictly decreasing (ties would give empty intervals), a missing (None) bound is allowed at the '
    'unbounded end only (last upper bound / first lower bound) and a decreasing list has at least two real bounds ([None, t] has no direction and is read as increasing); brackets are the half-open pairs "(]" (default, the one in the statement) and "[)", also spelled oc / co / OC / Co '
    '- with "[]" a stamp on a bound would be covered twice by the request itself',
    'bound LISTS (stitching and df_unslice) are written in one spelling per list, every spelling dt() reads: datetime / Timestamp / datetime64 (any position), datetime.date, "YYYYMMDD" text, '
    'day-first "DD-MM-YYYY" text, YYYYMMDD ints (whole days) and year ints (a 1 January); all of them satisfy the oracle on the unmodified library. '
    'CANDIDATE DEFECT excluded by construction (_form_fits): df_slice decides the direction of a bound list by sorting the bounds AS WRITTEN, before dt() reads them; day-first text sorts by day, so '
    'ub=["28-01-2000", "03-02-2000"] is taken for a decreasing list (series and bounds are reversed: the stamp 27 Jan comes from the second series) and three such bounds raise '
    '"needs to be either all increasing or all decreasing". Day-first lists are therefore generated only where text order and time order agree (bounds sharing month and year, or day and month)',
    'stitching with lb= lists: series i covers lb[i] .. lb[i+1] (last one unbounded above), the mirror image of the ub= form',
    'n-column stitching uses Series inputs; values are compared numerically (int inputs become float next to NaN)',
    'df_unslice: frames stitched with n >= 2 from NaN-free float series (df_unslice applies nona; n = 1 gives a Series, which DESIGN 4 lists as not claimed), '
    'bounds passed in increasing order (df_unslice never reorders its bounds; with a decreasing list it returns series that do not re-stitch - recorded '
    'as an observation, the statement describes the inverse of the increasing-upper-bounds stitch)',
    'FIXED in /repo and generated by default (PV_C13_EXCLUDE_FIXED=1 leaves them out again, for runs against older trees): F10 - wrap-around time window whose '
    'brackets differ from "(]" on a bound that coincides with a row time; n >= 2 stitching with an empty series between two non-empty ones',
]

BRACKETS = ['(]', '[)', '[]', '()']
LETTERS = {'(]': ['oc', 'OC'], '[)': ['co', 'Co'], '[]': ['cc', 'CC'], '()': ['oo', 'oO']}
_CANON = {}
for _b, _ls in LETTERS.items():
    _CANON[_b] = _b
    for _l in _ls:
        _CANON[_l] = _b


def _lu(oc):
    """bracket string -> (lower closed?, upper closed?) - written from the docstring, not from _closed"""
    b = _CANON[oc]
    return b[0] == '[', b[1] == ']'


# ----------------------------------------------------------------------------- builders shared by the sub-checks

def _nan():
    return float('nan')


def _cell(ctype, c, r, is_nan):
    if ctype == 'f':
        return _nan() if is_nan else r + 100 * c + 0.25
    if ctype == 'i':
        return r + 100 * c
    return 'v%i_%i' % (c, r)


def _build_ts(kind, name, cols, stamps):
    """returns (pandas object, model rows) - model rows[r] = list of cells of row r"""
    import pandas as pd
    n = len(stamps)
    index = pd.DatetimeIndex(stamps)
    data = []
    for c, col in enumerate(cols):
        nan_at = set(col.get('nan', ()))
        data.append([_cell(col['type'], c, r, r in nan_at) for r in range(n)])
    rows = [[data[c][r] for c in range(len(cols))] for r in range(n)]

    def dtype(t):
        return {'f': 'float64', 'i': 'int64', 's': 'object' if n == 0 else None}[t]
    if kind == 'series':
        obj = pd.Series(data[0], index=index, name=name, dtype=dtype(cols[0]['type']))
    elif not cols:
        obj = pd.DataFrame(index=index)          # rows without columns
    else:
        obj = pd.DataFrame({col['name']: pd.Series(data[c], index=index, dtype=dtype(col['type'])) for c, col in enumerate(cols)}, index=index)
        obj = obj[[col['name'] for col in cols]]
    return obj, rows


def _show(stamps, fmt=str, most=24):
    """stamps for a message; long lists are abbreviated"""
    if len(stamps) <= most:
        return [fmt(t) for t in stamps]
    return [fmt(t) for t in stamps[:3]] + ['... %i stamps ...' % (len(stamps) - 6)] + [fmt(t) for t in stamps[-3:]]


def _tok(x):
    import numpy as np
    if isinstance(x, (float, np.floating)):
        return ('nan',) if x != x else ('f', float(x))
    if isinstance(x, (bool, np.bool_)):
        return ('b', bool(x))
    if isinstance(x, (int, np.integer)):
        return ('i', int(x))
    if isinstance(x, str):
        return ('s', str(x))
    if x is None:
        return ('none',)
    return ('o', type(x).__name__, repr(x))


def _snapshot(obj):
    """plain-python picture of a Series / DataFrame: type, stamps, labels, dtypes, cell tokens"""
    import pandas as pd
    if isinstance(obj, pd.Series):
        return ('series', _stamps(obj.index), obj.name, str(obj.dtype), [[_tok(v)] for v in obj.tolist()])
    if isinstance(obj, pd.DataFrame):
        return ('frame', _stamps(obj.index), list(obj.columns), [str(d) for d in obj.dtypes],
                [[_tok(v) for v in row] for row in obj.values.tolist()] if obj.shape[1] else [[] for _ in range(len(obj))])
    return ('other', type(obj).__name__, repr(obj))


def _stamps(index):
    out = []
    for t in index:
        out.append(t.to_pydatetime() if hasattr(t, 'to_pydatetime') else t)
    return out


def _check_rows(what, res, obj, kind, stamps, rows, keep):
    """res must be obj restricted to the rows numbered `keep` (in that order), everything else untouched"""
    import pandas as pd
    want_type = pd.Series if kind == 'series' else pd.DataFrame
    check(isinstance(res, want_type), '%s returned a %s, not a %s', what, type(res).__name__, want_type.__name__)
    got = _stamps(res.index)
    exp = [stamps[r] for r in keep]
    if got != exp:
        missing = [t for t in exp if t not in got]
        extra = [t for t in got if t not in exp]
        raise Violation('%s: wrong rows. expected stamps %s, got %s (missing %s, extra %s)' % (
            what, short([str(t) for t in exp]), short([str(t) for t in got]), short([str(t) for t in missing]), short([str(t) for t in extra])))
    if kind == 'series':
        check(res.name == obj.name, '%s changed the series name from %s to %s', what, obj.name, res.name)
        vals = [[v] for v in res.tolist()]
        check(str(res.dtype) == str(obj.dtype), '%s changed the dtype from %s to %s', what, str(obj.dtype), str(res.dtype))
    else:
        check(list(res.columns) == list(obj.columns), '%s changed the columns from %s to %s', what, list(obj.columns), list(res.columns))
        bycol = [res.iloc[:, c].tolist() for c in range(res.shape[1])]
        vals = [[col[i] for col in bycol] for i in range(len(res))]
        check([str(d) for d in res.dtypes] == [str(d) for d in obj.dtypes], '%s changed the dtypes from %s to %s', what,
              [str(d) for d in obj.dtypes], [str(d) for d in res.dtypes])
    for i, r in enumerate(keep):
        check([_tok(v) for v in vals[i]] == [_tok(v) for v in rows[r]], '%s: row at %s holds %s, the input row held %s', what, str(stamps[r]), vals[i], rows[r])


# ----------------------------------------------------------------------------- 1. single slice, date bounds

# time axis: stamp(p) = base + p * half seconds; rows sit on even p, bounds on any p (odd = strictly between / outside)
_AXES = [
    dict(name='daily', base=[D0, 0], half=43200),          # rows at midnight, day by day; odd p = noon
    dict(name='2daily', base=[D0, 0], half=86400),         # rows every second day; odd p = a midnight in between
    dict(name='hourly', base=[D0, 79200], half=1800),      # rows on the hour from 22:00, crossing midnight
    dict(name='6h+1s', base=[D0, 1], half=10800),          # rows at hh:00:01
    dict(name='2us', base=[D0, 0], half_us=1),             # rows 2 microseconds apart from midnight: stamp 00:00:00.000002 vs bound 00:00:00.000001
    dict(name='late', base=[datetime.date(2270, 5, 1).toordinal(), 0], half=43200),   # daily, beyond the nanosecond range of pandas (2262)
]
MAXK = 10


def _stamp(axis, p):
    a = _AXES[axis]
    step = datetime.timedelta(seconds=p * a['half']) if 'half' in a else datetime.timedelta(microseconds=p * a['half_us'])
    return mkdt(a['base'][0], a['base'][1]) + step


_col_types = st.sampled_from(['f', 'f', 'i', 's'])


_COL_NAMES = ['a', 'ab', 'b', 'a_b', 0, 1, 'index']     # prefixes of one another, ints as produced by stitching, the word pandas uses for the axis


@st.composite
def _ts_shape(draw, nrows):
    kind = draw(st.sampled_from(['series', 'series', 'frame']))
    ncols = 1 if kind == 'series' else draw(st.sampled_from([1, 2, 2, 3, 3, 3, 0]))
    names = list(draw(st.permutations(_COL_NAMES)))[:ncols] if kind == 'frame' and draw(st.booleans()) else list('abc')[:ncols]
    cols = []
    for c in range(ncols):
        t = draw(_col_types)
        col = dict(name=names[c], type=t)
        if t == 'f' and nrows:
            col['nan'] = sorted(draw(st.sets(st.integers(0, nrows - 1), max_size=2)))
        cols.append(col)
    if kind == 'series' and not cols:
        cols = [dict(name='a', type='f')]
    name = draw(st.sampled_from([None, 'x', 0])) if kind == 'series' else None
    return kind, name, cols


LONG_SIZES = [64, 65, 100, 128, 300]


def _long_run(draw, n, min_gap=0):
    """n non-decreasing grid positions from a short cyclic gap pattern (gap 0 = the stamp repeats: long runs of ties at little generation cost)"""
    pattern = draw(st.lists(st.integers(min_gap, 3), min_size=1, max_size=5))
    if not any(pattern):
        pattern = pattern + [1]
    ks, k = [], draw(st.integers(0, 3))
    for i in range(n):
        ks.append(k)
        k += pattern[i % len(pattern)]
    return ks


def _oc_and_call(draw):
    b = draw(st.sampled_from(BRACKETS))
    style = draw(st.sampled_from(['kw', 'kw', 'pos', 'letters'] + (['default'] if b == '(]' else [])))
    oc = b
    if style == 'letters':
        oc = draw(st.sampled_from(LETTERS[b]))
        style = 'kw'
    return oc, style


def _subset(draw, universe, empty_one_in=12):
    """a subset of `universe` in which every element is kept with probability ~1/2 (hypothesis' sets() are mostly tiny)"""
    # (the all-zero choice sequence, which hypothesis replays often, gives the one-element set: an EMPTY default would let many generated cases collapse into one)
    if empty_one_in and draw(st.integers(1, empty_one_in)) == empty_one_in:
        return []
    mask = draw(st.lists(st.booleans(), min_size=len(universe), max_size=len(universe)))
    return [x for x, keep in zip(universe, mask) if keep] or [universe[0]]


def _with_repeats(draw, items, one_in=3):
    """items (sorted) with 1-2 of them repeated 2-3 times, in one case of `one_in`; -> (items, the repeated ones)"""
    if not items or draw(st.integers(1, one_in)) != one_in:
        return items, []
    which = draw(st.lists(st.integers(0, len(items) - 1), min_size=1, max_size=2, unique=True))
    out = []
    for i, x in enumerate(items):
        out.extend([x] * (1 + (draw(st.integers(1, 2)) if i in which else 0)))
    return out, [items[i] for i in sorted(which)]


@st.composite
def _dates_case(draw, maxk=MAXK):
    oc, style = _oc_and_call(draw)
    size = draw(st.sampled_from(['s'] * 12 + ['long', 'long', 'one', 'one']))
    axis = draw(st.integers(0, len(_AXES) - 1))
    if size == 'long':
        ks = _long_run(draw, draw(st.sampled_from(LONG_SIZES)))
        rep = sorted(set(k for i, k in enumerate(ks) if i and ks[i - 1] == k))[:8]
    elif size == 'one':
        ks, rep = [draw(st.integers(0, maxk))], []
    else:
        ks, rep = _with_repeats(draw, _subset(draw, list(range(maxk + 1)), empty_one_in=7), one_in=2)
    kind, name, cols = draw(_ts_shape(len(ks)))
    hi = 2 * (max(ks) if ks else 3) + 3

    def bound(modes):
        mode = draw(st.sampled_from(modes))
        if mode == 'none':
            return None
        if mode == 'on' and ks:
            return 2 * draw(st.sampled_from(rep if rep and draw(st.booleans()) else ks))
        if mode == 'first' and ks:
            return 2 * ks[0]
        if mode == 'last' and ks:
            return 2 * ks[-1]
        if mode == 'edge':
            return draw(st.sampled_from([-3, -2, -1, hi - 2, hi - 1, hi]))
        return draw(st.integers(-3, hi))
    lb = bound(['none', 'on', 'on', 'any', 'any', 'edge', 'first', 'last'])
    ub = bound(['none', 'on', 'on', 'any', 'any', 'edge', 'first', 'last'] if lb is not None else ['none', 'on', 'on', 'on', 'any', 'any', 'any', 'edge', 'first', 'last'])
    if lb is not None and ub is not None and lb > ub and draw(st.integers(0, 2)):
        lb, ub = ub, lb          # (a window with start after end is empty: kept in a third of the cases where it comes up)

    def form(p):
        if p is None:
            return None
        t = _stamp(axis, p)
        forms = ['dt', 'dt', 'ts', 'dt64']
        if (t.hour, t.minute, t.second, t.microsecond) == (0, 0, 0, 0):
            forms += ['date', 'str']
        return [p, draw(st.sampled_from(forms))]
    return dict(axis=axis, rows=ks, kind=kind, name=name, cols=cols, lb=form(lb), ub=form(ub), oc=oc, call=style)


def _mk_bound(axis, b):
    if b is None:
        return None, None
    import numpy as np
    import pandas as pd
    p, form = b
    t = _stamp(axis, p)
    if form == 'dt':
        return t, t
    if form == 'ts':
        return pd.Timestamp(t), t
    if form == 'dt64':
        return np.datetime64(t, 'us'), t
    if form == 'date':
        return t.date(), t
    if form == 'str':
        return t.strftime('%Y%m%d'), t
    raise ValueError(form)


def _do_slice(what, obj, lb, ub, oc, style):
    from pyg_base import df_slice
    if style == 'default':
        return call(what, df_slice, obj, lb, ub)
    if style == 'pos':
        return call(what, df_slice, obj, lb, ub, oc)
    return call(what, df_slice, obj, lb=lb, ub=ub, openclose=oc)


def _position(t, stamps):
    if t is None:
        return 'none'
    if not stamps:
        return 'empty'
    if t in stamps:
        return 'on'
    if t < stamps[0]:
        return 'before'
    if t > stamps[-1]:
        return 'after'
    return 'between'


def _dup_classes(stamps, bounds, key):
    """class labels for repeated stamps; bounds = [(value, closed?)], key maps a stamp to what the bound is compared with"""
    if len(set(stamps)) == len(stamps):
        return []
    from collections import Counter
    repeated = set(key(t) for t, c in Counter(stamps).items() if c > 1)
    cls = ['duplicate_stamps']
    for b, closed in bounds:
        if b is not None and b in repeated:
            cls.append('duplicate_stamp_on_closed_bound' if closed else 'duplicate_stamp_on_open_bound')
    return sorted(set(cls))


def _shape_classes(spec, stamps, keep):
    """labels shared by the two single-slice sub-checks: sizes, degenerate shapes, column labels"""
    cls = []
    if len(stamps) >= 64:
        cls.append('long')
        if len(set(stamps)) < len(stamps):
            cls.append('long_with_ties')
    if len(stamps) == 1:
        cls.append('one_point')
    if stamps and len(keep) == len(stamps):
        cls.append('keeps_all_rows')
    if stamps and not keep:
        cls.append('keeps_no_rows')
    if spec['kind'] == 'frame':
        names = [c['name'] for c in spec['cols']]
        if not names:
            cls.append('zero_columns')
        if names != sorted(names, key=lambda x: (isinstance(x, str), x)):
            cls.append('columns_not_sorted')
        if any(not isinstance(x, str) for x in names) or any(isinstance(a, str) and isinstance(b, str) and a != b and b.startswith(a) for a in names for b in names):
            cls.append('structured_column_names')
    return cls


def run_slice_dates(spec):
    axis = spec['axis']
    stamps = [_stamp(axis, 2 * k) for k in spec['rows']]
    obj, rows = _build_ts(spec['kind'], spec['name'], spec['cols'], stamps)
    before = _snapshot(obj)
    lb, lbt = _mk_bound(axis, spec['lb'])
    ub, ubt = _mk_bound(axis, spec['ub'])
    oc = spec['oc']
    l, u = _lu(oc)
    what = 'df_slice(%s with stamps %s, lb=%r, ub=%r, openclose=%r)' % (spec['kind'], _show(stamps), lb, ub, oc if spec['call'] != 'default' else '<default>')
    res = _do_slice(what, obj, lb, ub, oc, spec['call'])
    keep = []
    for r, t in enumerate(stamps):
        lo = True if lbt is None else (t >= lbt if l else t > lbt)
        hi = True if ubt is None else (t <= ubt if u else t < ubt)
        if lo and hi:
            keep.append(r)
    _check_rows(what, res, obj, spec['kind'], stamps, rows, keep)
    check(_snapshot(obj) == before, '%s modified its operand', what)
    pl, pu = _position(lbt, stamps), _position(ubt, stamps)
    b = _CANON[oc]
    cls = [b, 'lb_' + pl, 'ub_' + pu, spec['kind'], 'axis=' + _AXES[axis]['name']]
    if pl == 'on':
        cls.append('lb_on' + b)
    if pu == 'on':
        cls.append('ub_on' + b)
    if not stamps:
        cls.append('empty_ts')
    if lbt is not None and ubt is not None:
        cls.append('lb>ub' if lbt > ubt else 'lb==ub' if lbt == ubt else 'lb<ub')
    if oc not in BRACKETS:
        cls.append('letters')
    if spec['call'] == 'default':
        cls.append('default_brackets')
    for bd in (spec['lb'], spec['ub']):
        if bd is not None and bd[1] != 'dt':
            cls.append('form=' + bd[1])
    if 0 < len(keep) < len(stamps):
        cls.append('proper_subset')
    cls.extend(_dup_classes(stamps, [(lbt, l), (ubt, u)], lambda t: t))
    cls.extend(_shape_classes(spec, stamps, keep))
    for side, bt, closed in (('lb', lbt, l), ('ub', ubt, u)):
        if stamps and bt is not None and bt in (stamps[0], stamps[-1]):
            cls.append('%s_on_%s_stamp' % (side, 'first' if bt == stamps[0] else 'last'))
            cls.append('edge_stamp_on_closed_bound' if closed else 'edge_stamp_on_open_bound')
    return dict(nt=(pl == 'on' or pu == 'on'), cls=sorted(set(cls)))


# ----------------------------------------------------------------------------- 2. single slice, time-of-day bounds

# seconds after midnight; a fractional part is microseconds (1e-06 = 00:00:00.000001)
_TOD_GRID = [0, 1e-06, 1, 3600, 18000, 36000, 43200, 43200.000001, 82800, 86399]
_TOD_OFF = [2e-06, 1800, 30000, 50000, 86000]


def _time(sec):
    whole = int(sec)
    return datetime.time(whole // 3600, (whole // 60) % 60, whole % 60, int(round((sec - whole) * 1e6)))


def _tod_oracle(tt, lb, ub, l, u):
    lo = True if lb is None else (tt >= lb if l else tt > lb)
    hi = True if ub is None else (tt <= ub if u else tt < ub)
    if lb is not None and ub is not None and lb > ub:
        return lo or hi        # the window wraps past midnight
    return lo and hi


def _is_known_f10(spec):
    """
    F10: a wrapping time-of-day window (start > end) is evaluated with the default brackets '(]' whatever openclose says.
    The result is wrong exactly when a row's time of day sits on a bound whose requested bracket differs from '(]':
    on the end with an open upper bracket, or on the start with a closed lower bracket.
    """
    lb, ub = spec.get('lb'), spec.get('ub')
    if lb is None or ub is None or not lb > ub:
        return False
    l, u = _lu(spec['oc'])
    secs = set(r[1] for r in spec['rows'])
    return (not u and ub in secs) or (l and lb in secs)


KNOWN = {'c13.tod_wrap_ignores_openclose': _is_known_f10}      # 'c13.stitch_empty_series_inside' is added below

# the two classes that were defects until 9b2ad11 / d6940e4; PV_C13_EXCLUDE_FIXED=1 leaves them out by construction (for runs against older trees)
EXCLUDE_KNOWN_BY_CONSTRUCTION = os.environ.get('PV_C13_EXCLUDE_FIXED', '') == '1'   # both classes were fixed in /repo; they are generated by default now


@st.composite
def _tod_case(draw):
    shape = draw(st.sampled_from(['wrap', 'wrap', 'window', 'window', 'lb_only', 'ub_only']))
    oc, style = _oc_and_call(draw)
    size = draw(st.sampled_from(['s'] * 12 + ['big', 'big', 'long', 'long']))
    if size == 'long':
        # 64-300 rows over many days, each stamp 1-3 times in a cyclic pattern (long runs of ties)
        n = draw(st.sampled_from(LONG_SIZES))
        mult = draw(st.lists(st.integers(1, 3), min_size=1, max_size=4))
        grid = sorted(_subset(draw, _TOD_GRID, empty_one_in=0))
        cells = [(d, s) for d in range(n) for s in grid]
        rows = []
        for i, c in enumerate(cells):
            rows.extend([list(c)] * mult[i % len(mult)])
            if len(rows) >= n:
                break
        rows = rows[:n]
        rep = [r for i, r in enumerate(rows) if i and rows[i - 1] == r][:8]
    else:
        if size == 'big':
            days, grid = [0, 1, 2, 4], list(_TOD_GRID)       # 26-40 rows: sorting more than 16 rows is where an unstable sort shows
        else:
            days = _subset(draw, [0, 1, 2, 4], empty_one_in=0) or [0]
            grid = _subset(draw, _TOD_GRID, empty_one_in=0) or [43200]
        cells = sorted((d, s) for d in days for s in grid)
        drop = draw(st.sets(st.integers(0, len(cells) - 1), max_size=len(cells) // 3))
        rows = [list(c) for i, c in enumerate(cells) if i not in drop]
        if draw(st.integers(1, 15)) == 15:
            rows = []
        rows, rep = _with_repeats(draw, rows)
    kind, name, cols = draw(_ts_shape(len(rows)))
    secs = sorted(set(r[1] for r in rows))
    rep_secs = sorted(set(r[1] for r in rep))

    def bound(exclude=None):
        on = [t for t in secs if t != exclude]
        pref = [t for t in rep_secs if t != exclude]
        if on and draw(st.integers(0, 3)):
            return draw(st.sampled_from(pref if pref and draw(st.booleans()) else on))
        return draw(st.sampled_from([t for t in _TOD_GRID + _TOD_OFF if t != exclude]))
    x = bound()
    y = bound(exclude=x if shape == 'wrap' else None)
    if shape == 'wrap':
        lb, ub = max(x, y), min(x, y)
    elif shape == 'window':
        lb, ub = min(x, y), max(x, y)
    elif shape == 'lb_only':
        lb, ub = x, None
    else:
        lb, ub = None, y
    return dict(rows=rows, kind=kind, name=name, cols=cols, lb=lb, ub=ub, oc=oc, call=style)


def _is_known_wrap_dup(spec):
    """
    a wrapping time-of-day window (start > end) on an index in which a stamp occurs more than once, keeping more than 16 rows:
    the two halves are concatenated and put back in order with an UNSTABLE sort_index(), so rows of equal stamp change places
    (numpy's quicksort is an insertion sort - stable - up to 16 elements).
    """
    lb, ub = spec.get('lb'), spec.get('ub')
    if lb is None or ub is None or not lb > ub:
        return False
    rows = [tuple(r) for r in spec['rows']]
    if len(set(rows)) == len(rows):
        return False
    l, u = _lu(spec['oc'])
    kept = [r for r in rows if (r[1] >= lb if l else r[1] > lb) or (r[1] <= ub if u else r[1] < ub)]
    return len(kept) > 16


KNOWN['c13.tod_wrap_reorders_duplicate_stamps'] = _is_known_wrap_dup
EXCLUDE_WRAP_DUP = os.environ.get('PV_C13_EXCLUDE_FIXED', '') == '1'     # fixed in /repo (stable sort_index): generated by default


def _tod_strategy(tier):
    s = _tod_case()
    if EXCLUDE_WRAP_DUP:
        def dedupe(spec):
            if _is_known_wrap_dup(spec):
                # construction, not filtering: the same window on the same stamps, each stamp once
                rows = []
                for r in spec['rows']:
                    if r not in rows:
                        rows.append(r)
                cols = [dict(c, nan=[i for i in c['nan'] if i < len(rows)]) if 'nan' in c else c for c in spec['cols']]
                spec = dict(spec, rows=rows, cols=cols)
            return spec
        s = s.map(dedupe)
    if EXCLUDE_KNOWN_BY_CONSTRUCTION:
        def repair(spec):
            if _is_known_f10(spec):
                # construction, not filtering: the same wrapping window is asked for with the brackets the code applies anyway
                spec = dict(spec, oc='(]')
            return spec
        s = s.map(repair)
    return s


def run_slice_tod(spec):
    stamps = [mkdt(D0 + d, s) for d, s in spec['rows']]
    obj, rows = _build_ts(spec['kind'], spec['name'], spec['cols'], stamps)
    before = _snapshot(obj)
    lb = None if spec['lb'] is None else _time(spec['lb'])
    ub = None if spec['ub'] is None else _time(spec['ub'])
    oc = spec['oc']
    l, u = _lu(oc)
    what = 'df_slice(%s with stamps %s, lb=%r, ub=%r, openclose=%r)' % (spec['kind'], _show(stamps), lb, ub, oc if spec['call'] != 'default' else '<default>')
    res = _do_slice(what, obj, lb, ub, oc, spec['call'])
    keep = [r for r, t in enumerate(stamps) if _tod_oracle(t.time(), lb, ub, l, u)]
    _check_rows(what, res, obj, spec['kind'], stamps, rows, keep)
    check(_snapshot(obj) == before, '%s modified its operand', what)
    secs = set(r[1] for r in spec['rows'])
    b = _CANON[oc]
    wrap = lb is not None and ub is not None and lb > ub
    lb_on, ub_on = spec['lb'] in secs, spec['ub'] in secs
    cls = [b, spec['kind'], 'wrap' if wrap else 'one_sided' if (lb is None or ub is None) else 'window']
    if lb_on:
        cls.append('lb_on' + b)
    if ub_on:
        cls.append('ub_on' + b)
    if wrap and (lb_on or ub_on):
        cls.append('wrap_on_bound')
        cls.append('wrap_on_bound' + b)
    if wrap and b != '(]':
        cls.append('wrap_other_brackets')
    if not stamps:
        cls.append('empty_ts')
    if len(set(r[0] for r in spec['rows'])) > 1:
        cls.append('several_days')
    if 0 < len(keep) < len(stamps):
        cls.append('proper_subset')
    if oc not in BRACKETS:
        cls.append('letters')
    if spec['call'] == 'default':
        cls.append('default_brackets')
    dup = _dup_classes(stamps, [(lb, l), (ub, u)], lambda t: t.time())
    cls.extend(dup)
    if dup and wrap:
        cls.append('duplicate_stamps_wrap')
    cls.extend(_shape_classes(spec, stamps, keep))
    if 'long' in cls and wrap:
        cls.append('long_wrap')
    if any(b is not None and b.microsecond for b in (lb, ub)):
        cls.append('microsecond_bound')
        if any(t.microsecond == 0 and b is not None and (t.hour, t.minute, t.second) == (b.hour, b.minute, b.second) for t in stamps for b in (lb, ub) if b is not None and b.microsecond):
            cls.append('row_one_microsecond_before_bound')
    return dict(nt=(lb_on or ub_on), cls=sorted(set(cls)))


# ----------------------------------------------------------------------------- 3. stitching

_ST_BASE = mkdt(D0, 0)
_ST_HALF = 43200   # rows at midnight on even p; bounds on any p (odd = noon, strictly between rows)


_ST_YEAR0 = {'years': 2000, 'future': 2095}       # yearly axes: even p = 1 January, odd p = 1 July; 'future' lies after any "now"


def _st_stamp(p, axis='days'):
    if axis == 'days':
        return _ST_BASE + datetime.timedelta(seconds=p * _ST_HALF)
    return datetime.datetime(_ST_YEAR0[axis] + p // 2, 7 if p % 2 else 1, 1)


# spellings of one bound (an instant t); those that cannot carry a time of day need t at midnight, 'year' needs a 1 January
BOUND_FORMS = ['dt', 'ts', 'dt64', 'date', 'text', 'dayfirst', 'int', 'year']


def _spell(t, form):
    import numpy as np
    import pandas as pd
    if t is None or form == 'dt':
        return t
    if form == 'ts':
        return pd.Timestamp(t)
    if form == 'dt64':
        return np.datetime64(t, 'us')
    assert (t.hour, t.minute, t.second, t.microsecond) == (0, 0, 0, 0), (t, form)
    if form == 'date':
        return t.date()
    if form == 'text':
        return t.strftime('%Y%m%d')
    if form == 'dayfirst':
        return t.strftime('%d-%m-%Y')        # dt() reads text day first: '03-01-2000' is 3 January (pandas would say 1 March)
    if form == 'int':
        return int(t.strftime('%Y%m%d'))
    if form == 'year':
        assert (t.month, t.day) == (1, 1), (t, form)
        return t.year                        # dt(2001) is 1 January 2001 (pandas would say 2001 ns after the epoch)
    raise ValueError(form)


def _form_fits(form, stamps):
    """can every bound of the list be written in this spelling - and does the list then still sort chronologically as written?"""
    real = [t for t in stamps if t is not None]
    if form in ('dt', 'ts', 'dt64'):
        return True
    if any((t.hour, t.minute, t.second) != (0, 0, 0) for t in real):
        return False
    if form == 'year':
        return all((t.month, t.day) == (1, 1) for t in real)
    if form == 'dayfirst':
        # df_slice decides the direction of a bound list on the spelling as given: 'dd-mm-yyyy' text sorts by day first, which agrees with time
        # only while day and month, or month and year, are shared (see ASSUMPTIONS: candidate defect, excluded by construction)
        return len(set((t.month, t.year) for t in real)) <= 1 or len(set((t.day, t.month) for t in real)) <= 1
    return True


def _pick_form(draw, stamps, exclude=None):
    fits = [f for f in BOUND_FORMS if f != exclude and _form_fits(f, stamps)]
    rare = [f for f in fits if f not in ('dt', 'ts', 'dt64')]
    rare = rare + [f for f in rare if f in ('dayfirst', 'year')] * 2         # the two spellings pandas itself would read differently
    return draw(st.sampled_from(rare if rare and draw(st.integers(0, 3)) else fits))


STITCH_LETTERS = ['oc', 'co', 'OC', 'Co']      # letter spellings of the two half-open pairs
NAME_STYLES = ['x', 'range', 'reversed', 'prefixes']


def _series_names(style, m):
    if style == 'x':
        return ['x'] * m                                      # all alike
    if style == 'range':
        return list(range(m))                                 # the very labels stitching gives its columns
    if style == 'reversed':
        return [m - 1 - i for i in range(m)]                  # ... in the opposite order
    return (['a', 'ab', 'a_b', 'b'] * m)[:m]                  # prefixes of one another, repeating


@st.composite
def _stitch_case(draw, unslice=False, max_series=5, maxk=12):
    # the choices that define the classes come first (hypothesis varies the head of the choice sequence best)
    size = draw(st.sampled_from(['s'] * 10 + ['many', 'many', 'long', 'long', 'same', 'ends', 'ends']))
    if size == 'many':
        m = draw(st.integers(8, 12))
    else:
        m = draw(st.sampled_from(([2, 3, 4] if unslice else [1, 2, 2, 3, 3, 4, 4]) + list(range(5, max_series + 1))))
    if size in ('same', 'ends'):
        m = max(m, 2)
    axis = draw(st.sampled_from(['days', 'days', 'days', 'years', 'future', 'future']))
    if unslice:
        n = draw(st.sampled_from([2, 2, 3, m, m])) if size == 'many' else draw(st.integers(2, m))
        n = min(n, m)
        form, order, oc, open_end, vtype, kind, names = 'ub', 'inc', None, False, 'f', 'series', None
    else:
        n = max(1, min(m, draw(st.sampled_from([1, 1, 2, 2, 3, 4, 5, m]))))
        form = draw(st.sampled_from(['ub', 'ub', 'lb']))
        order = draw(st.sampled_from(['inc', 'dec']))
        oc = draw(st.sampled_from([None, None, '(]', '(]', '[)', '[)'] + STITCH_LETTERS[:2])) if draw(st.integers(0, 5)) else draw(st.sampled_from(STITCH_LETTERS))
        open_end = draw(st.integers(1, 6)) == 6 or (axis == 'future' and draw(st.booleans()))     # data dated after any "now" behind an explicit None bound
        vtype = draw(st.sampled_from(['f', 'f', 'i']))
        kind = 'frame' if n == 1 and draw(st.integers(1, 4)) == 4 else 'series'
        names = draw(st.sampled_from(NAME_STYLES)) if kind == 'series' and draw(st.integers(1, 3)) == 3 else None
    spelled = draw(st.sampled_from([False, True, True]))         # bounds written in another spelling than datetime
    midnight = spelled and draw(st.sampled_from([False, True, True]))    # ... which wants whole days (even positions) for most spellings
    dups = not unslice and n == 1 and draw(st.sampled_from([False, True]))
    series = []
    if size == 'long':
        # one or all series are long (64-300 rows): few draws, cyclic gap pattern without ties
        length = draw(st.sampled_from(LONG_SIZES))
        which = draw(st.integers(0, m))            # m = every series is long
        for i in range(m):
            if which == m or which == i:
                series.append(dict(rows=_long_run(draw, length, min_gap=1)))
            else:
                series.append(dict(rows=_subset(draw, list(range(maxk + 1)), empty_one_in=6)))
    elif size == 'same':
        # every series on the same stamps: a cheap "already aligned" test is right here ...
        ks = _subset(draw, list(range(maxk + 1)), empty_one_in=0)
        series = [dict(rows=list(ks)) for i in range(m)]
    elif size == 'ends':
        # ... and wrong here: same length, same first and last stamp, different stamps in between
        first, c = draw(st.integers(0, 3)), draw(st.integers(1, 5))
        last = first + c + draw(st.integers(2, 5))
        for i in range(m):
            mid = sorted(draw(st.sets(st.integers(first + 1, last - 1), min_size=c, max_size=c)))
            series.append(dict(rows=[first] + mid + [last]))
    else:
        for i in range(m):
            style = draw(st.sampled_from(['sparse', 'sparse', 'dense', 'sparse', 'dense', 'empty', 'one']))
            if style == 'dense':
                lo = draw(st.integers(0, maxk))
                ks = list(range(lo, draw(st.integers(lo, maxk)) + 1))
            elif style == 'sparse':
                ks = _subset(draw, list(range(maxk + 1)), empty_one_in=0)
            elif style == 'one':
                ks = [draw(st.integers(0, maxk))]
            else:
                ks = []
            series.append(dict(rows=ks))
    top = max([k for ser in series for k in ser['rows']] + [maxk])
    for ser in series:
        ks = ser['rows']
        if not unslice and ks and draw(st.integers(1, 6)) == 6:
            ser['nan'] = sorted(draw(st.sets(st.sampled_from(ks), max_size=2)))
        if ks and draw(st.integers(1, 6)) == 6:
            ser['zero'] = sorted(draw(st.sets(st.sampled_from(ks), min_size=1, max_size=2)))      # the value 0.0: falsy, but a value
    # bounds: strictly increasing positions, mostly on row positions (even), with a liking for the first / last stamp of a series
    ends = sorted(set(2 * ser['rows'][j] for ser in series if ser['rows'] for j in (0, -1)))
    if midnight:
        bpos = st.one_of(st.integers(0, top).map(lambda k: 2 * k), st.sampled_from(ends or [0]))
    else:
        bpos = st.one_of(st.integers(0, top).map(lambda k: 2 * k), st.integers(0, top).map(lambda k: 2 * k), st.integers(-1, 2 * top + 1), st.sampled_from(ends or [0]))
    bounds = sorted(draw(st.sets(bpos, min_size=m, max_size=m)))
    stamps = [_st_stamp(p, axis) for p in bounds]
    bform = _pick_form(draw, stamps) if spelled else 'dt'
    if unslice:
        # the spelling handed to df_unslice: the same as for stitching, or another spelling of the same instants
        uform = bform if draw(st.sampled_from([True, True, False])) else _pick_form(draw, stamps, exclude=bform)
        spec = dict(series=series, bounds=bounds, n=n)
        if axis != 'days':
            spec['axis'] = axis
        if bform != 'dt':
            spec['bform'] = bform
        if uform != 'dt':
            spec['uform'] = uform
        return spec
    if dups:
        # repeated stamps (well defined for n = 1 only), preferably on a bound
        forced = ([i for i, ser in enumerate(series) if ser['rows']] or [None])[0]
        for i, ser in enumerate(series):
            ks = ser['rows']
            if ks and (i == forced or draw(st.booleans())):
                cand = [k for k in ks if 2 * k in bounds]
                k = draw(st.sampled_from(cand if cand and draw(st.integers(0, 2)) else ks))
                ser['rows'] = sorted(ks + [k] * draw(st.integers(1, 2)))
    if open_end:
        if form == 'ub':
            bounds[-1] = None
        else:
            bounds[0] = None
    if order == 'dec' and len([b for b in bounds if b is not None]) >= 2:
        # (with fewer than two real bounds a direction does not exist: [None, t] reads as increasing)
        bounds = bounds[::-1]
        series = series[::-1]
    spec = dict(series=series, bounds=bounds, n=n, form=form, oc=oc, vtype=vtype, kind=kind)
    if names:
        spec['names'] = names
    if axis != 'days':
        spec['axis'] = axis
    if bform != 'dt':
        spec['bform'] = bform
    return spec


def _bound_order(bounds, form):
    """positions of the series in increasing order of their bound (missing = the unbounded end)"""
    big = 10 ** 9
    key = [(big if form == 'ub' else -big) if b is None else b for b in bounds]
    return sorted(range(len(bounds)), key=lambda i: key[i])


def _is_known_empty_inside(spec):
    """
    n >= 2 stitching where, for some interval, pandas' column-wise concat of the n series of that interval comes back with an UNSORTED time axis.
    pandas 3 does that when an empty series sits between two non-empty ones; df_slice then slices that frame as if it were a sorted timeseries.
    """
    order = _bound_order(spec['bounds'], spec.get('form', 'ub'))
    return _unsorted_window([[_st_stamp(2 * k) for k in spec['series'][i]['rows']] for i in order], spec['n'])


def _unsorted_window(stamp_lists, n):
    """stamp_lists in increasing order of the bounds"""
    if n < 2:
        return False
    for i in range(len(stamp_lists)):
        w = stamp_lists[i: i + n]
        ne = [j for j, r in enumerate(w) if r]
        if not any((not r) and ne and ne[0] < j < ne[-1] for j, r in enumerate(w)):
            continue
        import pandas as pd
        c = pd.concat([pd.Series(0.0, index=pd.DatetimeIndex(r)) for r in w], axis=1)
        if not c.index.is_monotonic_increasing:
            return True
    return False


def _repair_empty_inside(spec):
    """construction, not filtering: every empty series lying between two non-empty ones (in bound order) receives the first row of its non-empty predecessor"""
    if not _is_known_empty_inside(spec):
        return spec
    order = _bound_order(spec['bounds'], spec.get('form', 'ub'))
    series = [dict(s) for s in spec['series']]
    ne = [j for j, i in enumerate(order) if series[i]['rows']]
    prev = None
    for j, i in enumerate(order):
        if series[i]['rows']:
            prev = series[i]['rows'][0]
        elif ne and ne[0] < j < ne[-1]:
            series[i] = dict(rows=[prev])
    return dict(spec, series=series)


def _stitch_strategy(tier, unslice=False):
    s = _stitch_case(unslice=unslice, max_series=6 if tier == 'thorough' else 5, maxk=16 if tier == 'thorough' else 12)
    if EXCLUDE_KNOWN_BY_CONSTRUCTION:
        s = s.map(_repair_empty_inside)
    return s


class _Model(dict):
    """{stamp: value} of one series; .pairs keeps every row [(stamp, value)] in order (stamps may repeat when n = 1)"""
    pairs = None


def _st_build(series, vtype='f', kind='series', names=None, axis='days'):
    """-> (list of pandas objects as passed to df_slice, list of models {stamp: value})"""
    import pandas as pd
    objs, models = [], []
    labels = _series_names(names, len(series)) if names else [None] * len(series)
    for i, s in enumerate(series):
        ks = s['rows']
        nan_at = set(s.get('nan', ()))
        zero_at = set(s.get('zero', ()))
        stamps = [_st_stamp(2 * k, axis) for k in ks]
        occ, seen = [], {}
        for k in ks:                                           # 0 for the first row on a stamp, 1 for its first repetition ...
            occ.append(seen.get(k, 0))
            seen[k] = occ[-1] + 1
        if vtype == 'i' and not nan_at:
            vals = [0 if (k in zero_at and not o) else 1000 * (i + 1) + k + 100000 * o for k, o in zip(ks, occ)]
            dtype = 'int64'
        else:
            vals = [_nan() if k in nan_at else 0.0 if (k in zero_at and not o) else 1000.0 * (i + 1) + k + 0.5 + 0.01 * o for k, o in zip(ks, occ)]
            dtype = 'float64'
        ser = pd.Series(vals, index=pd.DatetimeIndex(stamps), dtype=dtype, name=labels[i])
        objs.append(ser if kind == 'series' else pd.DataFrame({'a': ser}))
        mdl = _Model(zip(stamps, vals))
        mdl.pairs = list(zip(stamps, vals))
        models.append(mdl)
    return objs, models


def _stitch_model(models, bounds, form, oc, n):
    """
    expected rows [(stamp, [n cells])] of the stitched result, written from the statement.
    pairs (bound_i, series_i) are put in increasing order of the bound; the ub form gives series i the stamps from bound i-1 to bound i,
    the lb form from bound i to bound i+1; the missing neighbour is unbounded.
    """
    l, u = _lu(oc or '(]')
    NEG, POS = datetime.datetime.min, datetime.datetime.max
    if form == 'ub':
        pairs = sorted(zip([POS if b is None else b for b in bounds], range(len(models))))
        his = [p[0] for p in pairs]
        los = [NEG] + his[:-1]
    else:
        pairs = sorted(zip([NEG if b is None else b for b in bounds], range(len(models))))
        los = [p[0] for p in pairs]
        his = los[1:] + [POS]
    order = [p[1] for p in pairs]
    out = []
    for i in range(len(order)):
        lo, hi = los[i], his[i]
        members = [models[k] for k in order[i: i + n]]

        def inside(t):
            return (lo is NEG or (t >= lo if l else t > lo)) and (hi is POS or (t <= hi if u else t < hi))
        if n == 1 and getattr(members[0], 'pairs', None) is not None:
            # one series per interval: its rows, one by one (a stamp may occur several times)
            out.extend((t, [v]) for t, v in members[0].pairs if inside(t))
            continue
        stamps = sorted(set(t for mdl in members for t in mdl))
        for t in stamps:
            if inside(t):
                out.append((t, [members[j].get(t, _nan()) if j < len(members) else _nan() for j in range(n)]))
    return out, order


def _num_eq(a, b):
    a_nan = a is None or a != a
    b_nan = b is None or b != b
    if a_nan or b_nan:
        return a_nan and b_nan
    return float(a) == float(b)


def _check_stitched(what, res, exp, n, kind='series'):
    import pandas as pd
    if n == 1 and kind == 'series':
        check(isinstance(res, pd.Series), '%s returned a %s, not a Series', what, type(res).__name__)
        got_rows = [[v] for v in res.tolist()]
    else:
        check(isinstance(res, pd.DataFrame), '%s returned a %s, not a DataFrame', what, type(res).__name__)
        if kind == 'series':
            check(list(res.columns) == list(range(n)), '%s has columns %s, expected %s', what, list(res.columns), list(range(n)))
        else:
            check(list(res.columns) == ['a'], '%s has columns %s, expected the input column', what, list(res.columns))
        bycol = [res.iloc[:, c].tolist() for c in range(res.shape[1])]
        got_rows = [[col[i] for col in bycol] for i in range(len(res))]
    got = _stamps(res.index)
    want = [t for t, _ in exp]
    if got != want:
        dup = sorted(set(str(t) for t in got if got.count(t) > 1))
        raise Violation('%s: wrong stamps. expected %s, got %s (missing %s, extra %s, repeated %s)' % (
            what, short([str(t) for t in want]), short([str(t) for t in got]), short([str(t) for t in want if t not in got]),
            short([str(t) for t in got if t not in want]), dup))
    for (t, cells), row in zip(exp, got_rows):
        check(len(row) == len(cells) and all(_num_eq(a, b) for a, b in zip(row, cells)), '%s: row at %s is %s, expected %s', what, str(t), row, cells)


def _day(t):
    """short label of a stamp on the stitching axes: day number since 2000-01-01 (long series read unambiguously), or the date on the yearly axes"""
    if t.year >= 2090 or (t.month, t.day) in ((1, 1), (7, 1)) and t.year > 2000:
        return t.strftime('%Y-%m-%d')
    return '%02i' % ((t - datetime.datetime(2000, 1, 1)).days + 1)


def _stitch_shape_classes(spec, models, real_bounds, n):
    cls = []
    m = len(models)
    if m >= 8:
        cls.append('m>=8')
        if n >= 2:
            cls.append('m>=8_n>=2')
    if n == m and m >= 2:
        cls.append('n=m')
    if any(len(mdl.pairs) >= 64 for mdl in models):
        cls.append('long')
        if n >= 2:
            cls.append('long_n>=2')
    if any(len(mdl.pairs) == 1 for mdl in models):
        cls.append('one_point_series')
    if any(v == 0 for mdl in models for _, v in mdl.pairs):
        cls.append('zero_value')
    keys = [sorted(mdl) for mdl in models]
    if m >= 2 and all(k and k == keys[0] for k in keys):
        cls.append('same_index')
    elif m >= 2 and all(len(k) >= 3 and len(k) == len(keys[0]) and k[0] == keys[0][0] and k[-1] == keys[0][-1] for k in keys):
        cls.append('same_ends_different_middle')
        if n >= 2:
            cls.append('same_ends_different_middle_n>=2')
    firsts = set(k[0] for k in keys if k)
    lasts = set(k[-1] for k in keys if k)
    if any(b in firsts for b in real_bounds):
        cls.append('bound_on_first_stamp')
    if any(b in lasts for b in real_bounds):
        cls.append('bound_on_last_stamp')
    return cls


def run_stitch(spec):
    from pyg_base import df_slice
    import pandas as pd
    axis, bform = spec.get('axis', 'days'), spec.get('bform', 'dt')
    objs, models = _st_build(spec['series'], spec['vtype'], spec['kind'], spec.get('names'), axis)
    before = [_snapshot(o) for o in objs]
    bounds = [None if p is None else _st_stamp(p, axis) for p in spec['bounds']]
    form, oc, n = spec['form'], spec['oc'], spec['n']
    given = [_spell(b, bform) for b in bounds]       # the list handed to df_slice
    bounds_before = list(given)
    kw = {form: given}
    if oc is not None:
        kw['openclose'] = oc
    if n != 1 or len(objs) % 2:
        kw['n'] = n
    lst = list(objs)
    what = 'df_slice(%i series with stamps %s, %s=%s%s, n=%s)' % (
        len(objs), [_show(sorted(mdl), _day, 14) for mdl in models], form, [None if b is None else _day(b) + b.strftime('.%Hh') for b in bounds] if bform == 'dt' else given,
        '' if oc is None else ', openclose=%r' % oc, n)
    res = call(what, lambda: df_slice(lst, **kw))
    exp, order = _stitch_model(models, bounds, form, oc, n)
    _check_stitched(what, res, exp, n, spec['kind'])
    check(len(lst) == len(objs) and all(a is b for a, b in zip(lst, objs)), '%s modified the list of series it was given', what)
    check(len(given) == len(bounds_before) and all(a is b for a, b in zip(given, bounds_before)), '%s modified the list of bounds it was given', what)
    check([_snapshot(o) for o in objs] == before, '%s modified a series it was given', what)
    # classes
    real = [b for b in bounds if b is not None]
    dec = len(real) >= 2 and real[0] > real[-1]
    allstamps = set(t for mdl in models for t in mdl)
    on = any(b in allstamps for b in real)
    gaps = any(len(set(mdl)) < len(allstamps) for mdl in models)
    cls = ['form=' + form, 'n=%i' % min(n, 4), 'oc=%s' % (_CANON[oc] if oc else 'default'), 'm=%i' % min(len(objs), 8), 'dec' if dec else 'inc']
    cls.extend(_stitch_shape_classes(spec, models, real, n))
    if oc and oc not in BRACKETS:
        cls.append('letters')
    if spec.get('names'):
        cls.append('named_series')
    cls.append('bounds=' + bform)
    if bform != 'dt':
        cls.append('bounds_not_datetime')
    cls.append('axis=' + axis)
    if any(b is None for b in bounds) and axis == 'future' and any(mdl for mdl in models):
        cls.append('open_end_future_data')
    if on:
        cls.append('bound_on_stamp')
    if n >= 2 and gaps:
        cls.append('n>=2_gaps')
    if n >= 2 and any(any(c != c for c in cells[:min(n, len(objs))]) for _, cells in exp):
        cls.append('nan_cell_from_gap')
    if any(b is None for b in bounds):
        cls.append('open_end')
    if any(not mdl for mdl in models):
        cls.append('empty_series')
    if not exp:
        cls.append('empty_result')
    if spec['kind'] == 'frame':
        cls.append('frames')
    repeated = set(t for mdl in models if len(mdl.pairs) > len(mdl) for t, _ in mdl.pairs if [p[0] for p in mdl.pairs].count(t) > 1)
    if repeated:
        cls.append('duplicate_stamps')
        if any(b in repeated for b in real):
            cls.append('duplicate_stamp_on_bound')
    if len(set(min((i for i in range(len(order)) if t in models[order[i]]), default=-1) for t, _ in exp)) >= 2:
        cls.append('several_sources')
    nt = len(objs) >= 2 and len(exp) >= 2 and (on or dec or (n >= 2 and gaps))
    return dict(nt=nt, cls=sorted(set(cls)))


KNOWN['c13.stitch_empty_series_inside'] = _is_known_empty_inside


# ----------------------------------------------------------------------------- 4. unslice

def run_unslice(spec):
    import pandas as pd
    from pyg_base import df_slice, df_unslice
    axis, bform, uform = spec.get('axis', 'days'), spec.get('bform', 'dt'), spec.get('uform', 'dt')
    objs, models = _st_build(spec['series'], axis=axis)
    bounds = [_st_stamp(p, axis) for p in spec['bounds']]
    sb = [_spell(b, bform) for b in bounds]          # the bounds as spelled for stitching
    n = spec['n']
    desc = 'series with stamps %s, ub=%s, n=%i' % ([_show(sorted(mdl), _day, 14) for mdl in models], [_day(b) + b.strftime('.%Hh') for b in bounds] if bform == 'dt' else sb, n)
    frame = call('df_slice(%s)' % desc, lambda: df_slice(list(objs), ub=list(sb), n=n))
    exp, _ = _stitch_model(models, bounds, 'ub', None, n)
    _check_stitched('df_slice(%s)' % desc, frame, exp, n)
    before = _snapshot(frame)
    ub = [_spell(b, uform) for b in bounds]          # ... and as spelled for df_unslice (the same instants)
    ub_before = list(ub)
    what = 'df_unslice(df_slice(%s), ub%s)' % (desc, '' if uform == bform else '=%s' % (ub,))
    res = call(what, df_unslice, frame, ub)
    check(isinstance(res, dict), '%s returned a %s, not a dict', what, type(res).__name__)
    keys = list(res.keys())
    check(len(keys) == len(ub) and all(any(type(k) is type(b) and k == b for k in keys) for b in ub), '%s has keys %s, expected one per bound %s', what, keys, ub)
    for k in keys:
        check(isinstance(res[k], pd.Series), '%s: value for bound %s is a %s, not a single series', what, str(k), type(res[k]).__name__)
    check(len(ub) == len(ub_before) and all(a is b for a, b in zip(ub, ub_before)), '%s modified the list of bounds', what)
    check(_snapshot(frame) == before, '%s modified the frame it was given', what)
    back = [res[b] for b in ub]
    # "stitching those again reproduces the frame": first with the reference model of stitching ...
    rec_models = [dict(zip(_stamps(r.index), r.tolist())) for r in back]
    exp2, _ = _stitch_model(rec_models, bounds, 'ub', None, n)
    same = [t for t, _ in exp2] == [t for t, _ in exp] and all(all(_num_eq(a, b) for a, b in zip(c2, c1)) for (_, c2), (_, c1) in zip(exp2, exp))
    if not same:
        raise Violation('%s = %s: stitching these per bound gives rows %s, the frame has rows %s' % (
            what, short([(str(b), dict((str(t), v) for t, v in m.items())) for b, m in zip(bounds, rec_models)], 1500),
            short([(str(t), c) for t, c in exp2], 600), short([(str(t), c) for t, c in exp], 600)))
    # ... then with df_slice itself, unless the recovered list falls into the known stitching defect (empty series between non-empty ones)
    restitch = not (EXCLUDE_KNOWN_BY_CONSTRUCTION and _unsorted_window([sorted(m) for m in rec_models], n))
    if restitch:
        what2 = 'df_slice(values of %s, ub=ub, n=%i)' % (what, n)
        again = call(what2, lambda: df_slice(back, ub=list(sb), n=n))
        _check_stitched(what2 + ' [must reproduce the frame]', again, exp, n)
    allstamps = set(t for mdl in models for t in mdl)
    on = any(b in allstamps for b in bounds)
    gaps = any(len(set(mdl)) < len(allstamps) for mdl in models)
    cls = ['n=%i' % min(n, 4), 'm=%i' % min(len(objs), 8), 'axis=' + axis, 'stitch_bounds=' + bform, 'unslice_bounds=' + uform]
    if uform != 'dt':
        cls.append('unslice_bounds_not_datetime')
    if uform != bform:
        cls.append('unslice_spelling_differs_from_stitch')
    if uform in ('dayfirst', 'year') or bform in ('dayfirst', 'year'):
        cls.append('spelling_pandas_reads_differently')
    cls.extend(_stitch_shape_classes(spec, models, bounds, n))
    if on:
        cls.append('bound_on_stamp')
    if gaps:
        cls.append('gaps')
    if any(cells[0] != cells[0] for _, cells in exp):
        cls.append('first_column_nan')
    if any(len(r) == 0 for r in back):
        cls.append('empty_recovered_series')
    if not exp:
        cls.append('empty_frame')
    if n == len(objs):
        cls.append('n=all')
    cls.append('restitched_by_df_slice' if restitch else 'restitched_by_model_only')
    return dict(nt=len(exp) >= 3 and gaps, cls=sorted(set(cls)))


# ----------------------------------------------------------------------------- registration

_ON = dict(('%s_on%s' % (side, b), 0.015) for side in ('lb', 'ub') for b in BRACKETS)

SUBS = [
    Sub('slice_dates', lambda tier: _dates_case(maxk=14 if tier == 'thorough' else MAXK), run_slice_dates, quick=4000, thorough=7000,
        rule='Series/DataFrames of 0-11 rows (one case in 8: 64/65/100/128/300 rows from a cyclic gap pattern with runs of equal stamps; one in 8: a single row) on 6 time axes '
             '(daily, every 2nd day, hourly across midnight, 6-hourly at hh:00:01, 2-microsecond steps, daily in the year 2270), frames of 0-3 columns whose labels come in any order '
             '(strings that are prefixes of one another, ints), bounds missing / on an index point / on the first or last stamp / between / before / after, as datetime, Timestamp, '
             'datetime64, date or text; 4 bracket pairs, letter forms, default; oracle: row filter with < / <= on datetimes, rows, labels, dtypes and cells untouched, operand untouched. '
             'non-trivial = a bound coincides with an index point. Half of the short cases repeat 1-2 stamps 2-3 times (non-decreasing index), preferably under a bound',
        floor=0.3, class_floors=dict(_ON, empty_ts=0.03, proper_subset=0.2, letters=0.05, duplicate_stamp_on_open_bound=0.012, duplicate_stamp_on_closed_bound=0.012,
                                     long=0.05, long_with_ties=0.02, one_point=0.03, zero_columns=0.01, columns_not_sorted=0.03, edge_stamp_on_open_bound=0.05,
                                     edge_stamp_on_closed_bound=0.05, keeps_all_rows=0.05, **{'lb>ub': 0.02, 'axis=2us': 0.03, 'axis=late': 0.03})),
    Sub('slice_tod', _tod_strategy, run_slice_tod, quick=3200, thorough=7000,
        rule='intraday Series/DataFrames over 1-4 days (0-40 rows; one case in 8 has 26-40 rows, one in 8 has 64/65/100/128/300 rows with every stamp 1-3 times), times of day incl. '
             '00:00:00.000001, datetime.time bounds (missing / on a row time / off, incl. one microsecond after a row), start <= end and start > end (wrap past midnight), '
             '4 bracket pairs, letter forms, default; oracle: filter on t.time(), wrap = (time after start) OR (time before end) with the given brackets. '
             'non-trivial = a bound coincides with the time of day of a row. A third of the short cases repeat 1-2 stamps 2-3 times',
        floor=0.3, class_floors=dict(_ON, wrap=0.15, wrap_on_bound=0.08, window=0.15, one_sided=0.1, duplicate_stamp_on_open_bound=0.015, duplicate_stamps_wrap=0.015,
                                     long=0.04, long_wrap=0.008, microsecond_bound=0.1, row_one_microsecond_before_bound=0.03)),
    Sub('stitch', _stitch_strategy, run_stitch, quick=2400, thorough=4500,
        rule='1-5 (thorough: 1-6; one case in 8: 8-12) series (dense, sparse, empty, one-point; one case in 8 with one or all series of 64-300 rows; all on the same stamps; same length, first and '
             'last stamp but different stamps in between; floats with NaN and 0.0, or ints; optionally named alike / 0..m-1 / m-1..0 / prefixes) on a daily axis, strictly monotonic bound '
             'lists given as ub= or lb= (one spelling per list: datetime, Timestamp, datetime64, date, yyyymmdd text, day-first dd-mm-yyyy text, yyyymmdd int, year int) on a daily axis in January 2000 or on yearly axes from 2000 / from 2095 (data after any "now", half of them behind an explicit None bound), increasing or decreasing, optionally open at the unbounded end, preferably on the first / last stamp of a series, n from 1 to the number of series, '
             'brackets default / "(]" / "[)" / their letter forms; oracle: per-timestamp dictionary model - stamps of interval i come from series i..i+n-1, '
             'column j = series i+j or NaN, each stamp once, increasing; inputs untouched. non-trivial = >= 2 series, >= 2 result rows and (bound on a stamp, decreasing list, or n >= 2 with gaps)',
        floor=0.3, class_floors={'dec': 0.2, 'n>=2_gaps': 0.2, 'bound_on_stamp': 0.2, 'form=lb': 0.1, 'nan_cell_from_gap': 0.1, 'several_sources': 0.2, 'duplicate_stamp_on_bound': 0.01,
                                 'm>=8_n>=2': 0.03, 'long_n>=2': 0.03, 'same_index': 0.03, 'same_ends_different_middle_n>=2': 0.008, 'named_series': 0.1, 'zero_value': 0.1,
                                 'bounds=ts': 0.02, 'bounds=dayfirst': 0.04, 'bounds=year': 0.02, 'bounds=text': 0.03, 'bounds=int': 0.015, 'bounds=date': 0.03, 'bounds_not_datetime': 0.2, 'open_end_future_data': 0.05, 'letters': 0.1, 'n=m': 0.1, 'one_point_series': 0.1, 'bound_on_first_stamp': 0.2, 'bound_on_last_stamp': 0.2}),
    Sub('unslice', lambda tier: _stitch_strategy(tier, unslice=True), run_unslice, quick=800, thorough=2500,
        rule='frames stitched by df_slice(series, ub=increasing bounds, n >= 2) from 2-5 (one case in 8: 8-12) NaN-free float series with gaps (one case in 8 with 64-300 rows; values include 0.0); '
             'the bounds are handed to the stitching call and to df_unslice in one of 8 spellings each (the same, or two spellings of the same instants; incl. day-first text and year ints, which pandas alone would read differently from dt()); '
             'oracle: df_unslice gives a dict with one Series per bound (keyed by the bounds as given), and '
             'stitching [res[b] for b in ub] with the same ub and n reproduces the frame (stamps, columns, cells, NaN positions); frame and bounds untouched. '
             'non-trivial = frame of >= 3 rows from series with gaps',
        floor=0.3, class_floors={'first_column_nan': 0.1, 'bound_on_stamp': 0.2, 'm>=8': 0.04, 'long': 0.05, 'zero_value': 0.1, 'same_ends_different_middle': 0.01,
                                 'unslice_bounds=dayfirst': 0.04, 'unslice_bounds=year': 0.015, 'unslice_bounds=text': 0.03, 'unslice_bounds=int': 0.02, 'unslice_bounds=date': 0.03,
                                 'unslice_bounds=ts': 0.015, 'unslice_bounds=dt64': 0.015, 'unslice_spelling_differs_from_stitch': 0.05, 'spelling_pandas_reads_differently': 0.08}),
]
