# -*- coding: utf-8 -*-
"""
C16 - ulist, dictattr and Dict implement ordered set / key algebra without side effects.

sub-checks
    ulist_ops     ulist construction and chains of + | - & against an ordered-set model
    ulist_long    the same oracle on raw lists / operands of 30-200 entries over 5-40 distinct elements (size thresholds)
    mapping_long  the mapping oracle on mappings with 20-80 keys and selections of up to 120 keys
    mapping_ops   dictattr / Dict / local subclasses / dictable:  - & [list] [k1,k2] + relabel attribute access
    call_graph    Dict.__call__ on generated dependency graphs (<= 6 derived keys), sampled keyword orders
                  (thorough: part of the cases loop over ALL keyword orders inside run)
    call_perms    complete enumeration: every digraph without self-loops on <= 4 derived keys and a fixed family of
                  5- and 6-key graphs, each in EVERY keyword order, with and without shadowed old values
"""
import itertools
import os

from hypothesis import strategies as st

from pv.core import Sub, EnumSub, HarnessError, call, call_or, must_raise, check, short, fuel
from pv.codec import build, Env, token

ASSUMPTIONS = [
    'ulist: only the operators named in the statement (+ | - &) and the constructor are claimed; the in-place list mutators inherited '
    'from list (append/extend/insert/__setitem__/+=) and the trusted constructor flag unique=True are outside the claim',
    'ulist: the result is never one of the operand objects (the code returns self.copy() in every no-op case; "without side effects" is read as '
    '"a later in-place change of the result cannot reach an operand")',
    'ulist: "duplicate" means what python containers mean by it (a is b or a == b), so 1, 1.0 and True are one element and a NaN object '
    'is a duplicate of itself only; right-hand operands are a single hashable non-list element, a list or a ulist',
    'mapping keys are non-empty strings without "." (dictattr reads a dotted key as a tree path - that is C15); mappings are built from a dict, never through '
    'keywords. Keys named like constructor parameters / methods (columns, data, self, key, index, axis, copy, keys) take part in - & [list] [k1,k2] + and relabel '
    'for all five classes, but NOT in the attribute-access check (d.keys / d.copy are the methods, not the items); all other keys are never the name of an attribute',
    'attribute SET / DELETE is claimed only for keys without a leading "_" (dictattr stores those as real attributes on purpose); attribute GET and all operators include such keys',
    'relabel(**{old: new}) cannot rename a key called "self" or "keys" (python binds those keywords to relabel\'s own parameters: TypeError "multiple values"); '
    'such renames are made with the dict spelling relabel({old: new})',
    'KNOWN F26, left out by construction: dictable.relabel whose result keeps or gets a column named columns / data / self (relabel still builds its result through '
    '**keywords); PV_C16_INCLUDE_F26=1 generates it',
    'mapping values are flat: None, bools, ints, floats, strings, lists and tuples of them (no dict values: Dict + dict is the deep merge of C15)',
    'key selections are a single string or a list of strings (a tuple operand of "-" is a tree path, C15)',
    'd[list] and d[k1, k2] with an absent key may raise KeyError; nothing else is asserted about them',
    'dictable takes part in -, &, [non-empty list of columns] and relabel only (dictable + x is row concatenation, dictable[k1, k2] zips rows, '
    'dictable[[]] is the empty ROW selection)',
    'd + other: `other` is a dict, dictattr, Dict, a local subclass of dictattr or of Dict, or an OrderedDict, with flat values; d + d (the same object on both '
    'sides) is generated for every class',
    'relabel: the RESULTING key list is duplicate-free (colliding renames have no defined result) - new labels may well be other existing keys (swaps, rotations, permutation lists, prefix chains are generated); the "full list of new keys" form is used only '
    'on mappings with >= 2 keys (a one-element list is indistinguishable from a single prefix/suffix/ignored string in the *args idiom)',
    'Dict.__call__: every parameter of a callable value names a key of the mapping after the non-callable keywords were applied, or another '
    'callable keyword; no self-loops (d(a = lambda a: ...) is the documented update-from-old-value idiom); a callable takes a parameter named `key` only when the mapping has a member named "key" (a base key, a plain keyword or a derived key) - then the member wins; without such a member apply() passes the NAME of the key being defined, documented behaviour that is kept out; names are never "self"',
]

# ----------------------------------------------------------------------------- shared helpers


def _same(a, b):
    """python container equality: identity or =="""
    return a is b or a == b


def _in(x, xs):
    for o in xs:
        if _same(o, x):
            return True
    return False


def _dedup(xs):
    out = []
    for x in xs:
        if not _in(x, out):
            out.append(x)
    return out


def _seq_same(a, b):
    return len(a) == len(b) and all(_same(x, y) for x, y in zip(a, b))


def _ident(a, b):
    return len(a) == len(b) and all(x is y for x, y in zip(a, b))


# ----------------------------------------------------------------------------- ulist

_U_INT = st.integers(-1, 4)
_U_STR = st.sampled_from(['a', 'b', '', 'ab'])
_U_TUP = st.sampled_from([['tuple', [1, 2]], ['tuple', []], ['tuple', ['a']], ['tuple', [1]], ['tuple', [1, ['tuple', [2]]]], ['tuple', [None, 'a']], ['tuple', ['a', 'b']]])
_U_ALIAS = st.sampled_from([1.0, True, 0.0, False, 2.0, 2.5])
_U_NAN = st.integers(0, 1).map(lambda k: ['nan', k])
_U_ELEM = st.one_of(_U_INT, _U_INT, _U_STR, st.none(), _U_TUP, _U_ALIAS, _U_NAN)

_U_OPS = ['+', '|', '-', '&']
_U_FINGERPRINTS = ['self', 'copy', 'ucopy', 'reversed', 'rotated', 'same_ends']


@st.composite
def _ulist_case(draw):
    npool = draw(st.integers(2, 8))
    pool = draw(st.lists(_U_ELEM, min_size=npool, max_size=npool))
    # the initial list draws from the first m pool entries, so that elements outside it exist as well
    m = draw(st.integers(max(1, npool - 4), npool))
    tuple_of_members = draw(st.sampled_from([False] * 8 + [True]))
    if tuple_of_members:
        # a member that is a tuple OF other members: u - (a, b) must remove that one member, never a and b
        scalars = [v for v in pool[:m] if not isinstance(v, list)]
        if len(scalars) >= 1:
            pool = [['tuple', [scalars[0], scalars[-1]]]] + pool
            npool, m = npool + 1, m + 1
        else:
            tuple_of_members = False
    inside = st.integers(0, m - 1)
    anywhere = st.integers(0, npool - 1)
    init = [draw(inside) for _ in range(draw(st.sampled_from([0, 1, 2, 3, 4, 4, 5, 6, 7, 9])))]
    ctor = draw(st.sampled_from(['list', 'list', 'tuple', 'ulist'])) if init else draw(st.sampled_from(['list', 'noarg', 'tuple']))
    ops = []
    for k in range(draw(st.sampled_from([1, 1, 2, 3]))):
        op = draw(st.sampled_from(_U_OPS))
        if tuple_of_members and k == 0:
            ops.append([op, 'elem', 0])
            continue
        kind = draw(st.sampled_from(['elem', 'elem', 'list', 'list', 'list', 'ulist', 'ulist', 'fingerprint']))
        if kind == 'elem':
            ops.append([op, kind, draw(st.one_of(inside, anywhere))])
        elif kind == 'fingerprint':
            # operands that look like the left operand to a cheap test: the object itself, an equal copy, the same elements in another order,
            # same length / first / last element with a different middle
            ops.append([op, draw(st.sampled_from(_U_FINGERPRINTS)), draw(st.integers(0, 7))])
        else:
            # some members, some strangers, repeats allowed, any order
            xs = [draw(inside) for _ in range(draw(st.sampled_from([0, 1, 1, 2, 2, 3, 4])))] + [draw(anywhere) for _ in range(draw(st.sampled_from([0, 0, 1, 1, 2, 3])))]
            ops.append([op, kind, list(draw(st.permutations(xs)))])
    return dict(pool=pool, init=init, ctor=ctor, ops=ops)


# long inputs: size thresholds inside the implementation (fast paths for "big" lists) are crossed only by raw lists of tens to hundreds of entries
_UL_UNIVERSE = (list(range(-5, 31)) + ['s%i' % i for i in range(12)] + [['tuple', [i, i + 1]] for i in range(6)]
                + [None, '', 2.5, -0.5, 1.0, True, ['tuple', []], ['nan', 0]])


@st.composite
def _ulist_long_case(draw):
    pool = draw(st.lists(st.sampled_from(_UL_UNIVERSE), min_size=5, max_size=40, unique_by=repr))
    idx = st.integers(0, len(pool) - 1)

    def long_list():
        lo, hi = draw(st.sampled_from([(30, 63), (64, 127), (64, 127), (128, 200), (128, 200)]))
        n = draw(st.sampled_from([lo, hi]) if draw(st.integers(0, 3)) == 0 else st.integers(lo, hi))
        if draw(st.booleans()):
            return draw(st.lists(idx, min_size=n, max_size=n))
        # 1-3 elements make their first appearance only in the last few positions (a scan that stops early misses them)
        late = list(draw(st.permutations(list(range(len(pool)))))[:draw(st.integers(1, 3))])
        early = [i for i in range(len(pool)) if i not in late]
        tail = list(draw(st.permutations(late + [draw(st.sampled_from(early)) for _ in range(draw(st.integers(0, 2)))])))
        return draw(st.lists(st.sampled_from(early), min_size=n - len(tail), max_size=n - len(tail))) + tail

    def short_list():
        return draw(st.lists(idx, max_size=8))
    shape = draw(st.sampled_from(['long_left', 'long_left', 'long_right', 'both', 'both']))
    init = short_list() if shape == 'long_right' else long_list()
    ctor = draw(st.sampled_from(['list', 'list', 'tuple', 'ulist']))
    ops = []
    for k in range(draw(st.sampled_from([1, 1, 2]))):
        op = draw(st.sampled_from(_U_OPS))
        if shape != 'long_right' and draw(st.sampled_from([False] * 7 + [True])):
            kind = draw(st.sampled_from(_U_FINGERPRINTS))
            operand = draw(st.integers(0, 7))
        elif shape == 'long_left' or k > 0:
            kind = draw(st.sampled_from(['elem', 'list', 'list', 'ulist']))
            operand = draw(idx) if kind == 'elem' else (long_list() if draw(st.integers(0, 3)) == 0 else short_list())
        else:
            kind = draw(st.sampled_from(['list', 'list', 'ulist']))
            operand = long_list()
        ops.append([op, kind, operand])
    return dict(pool=pool, init=init, ctor=ctor, ops=ops)


def _first_diff(got, exp):
    for i in range(min(len(got), len(exp))):
        if not _same(got[i], exp[i]):
            return 'first difference at position %i: %r instead of %r' % (i, got[i], exp[i])
    return 'lengths %i and %i' % (len(got), len(exp))


def _len_classes(prefix, n, cls):
    for t in (30, 64, 128):
        if n >= t:
            cls.append('%s>=%i' % (prefix, t))


def run_ulist_ops(spec):
    from pyg_base import ulist
    env = Env()
    pool = [build(v, env) for v in spec['pool']]
    init = [pool[i] for i in spec['init']]
    ctor = spec['ctor']
    if ctor == 'noarg':
        if init:
            raise HarnessError('noarg constructor with elements')
        u = call('ulist()', ulist)
    elif ctor == 'tuple':
        u = call('ulist(%s)' % short(tuple(init), 120), ulist, tuple(init))
    elif ctor == 'ulist':
        u = call('ulist(ulist(%s))' % short(init, 120), lambda: ulist(ulist(list(init))))
    else:
        src = list(init)
        u = call('ulist(%s)' % short(init, 120), ulist, src)
        check(_ident(src, init), 'ulist(x) modified the list x it was built from: %s', src)
    model = _dedup(init)
    check(type(u) is ulist, 'ulist(...) is a %s', type(u).__name__)
    check(_seq_same(list(u), model), 'ulist(%s) = %s, first-occurrence order without duplicates is %s (%s)', init, list(u), model, _first_diff(list(u), model))

    cls = ['ctor=' + ctor]
    _len_classes('raw_len', len(init), cls)
    _len_classes('ctor_raw_len', len(init), cls)
    last_first = _dedup(init[::-1])[::-1]
    if not _seq_same(last_first, model):
        cls.append('first_and_last_occurrence_order_differ')
    nt = False
    dup_init = len(model) < len(init)
    if dup_init:
        cls.append('dup_in_init')
    if any(isinstance(v, list) and v[0] == 'nan' for v in spec['pool']):
        cls.append('nan_in_pool')
    for op, kind, operand in spec['ops']:
        before = list(u)
        if kind == 'elem':
            x = pool[operand]
            xs = [x]
            arg = x
            arg_before = None
        elif kind in _U_FINGERPRINTS:
            r = operand
            if kind in ('self', 'copy', 'ucopy'):
                xs = list(before)
            elif kind == 'reversed':
                xs = before[::-1]
            elif kind == 'rotated':
                k0 = (1 + r) % len(before) if before else 0
                xs = before[k0:] + before[:k0]
            else:
                # same length, same first and last element; one middle element is replaced by a stranger (or two are swapped)
                xs = list(before)
                if len(xs) >= 3:
                    i = 1 + r % (len(xs) - 2)
                    strangers = [e for e in pool if not _in(e, before)]
                    if strangers:
                        xs[i] = strangers[r % len(strangers)]
                    elif len(xs) >= 4:
                        j = 1 + (r + 1) % (len(xs) - 2)
                        xs[i], xs[j] = xs[j], xs[i]
            arg = u if kind == 'self' else call('ulist(%s)' % short(xs, 120), ulist, list(xs)) if kind == 'ucopy' else list(xs)
            arg_before = list(arg)
            cls.append('fingerprint=' + kind)
            cls.append('fingerprint_operand')
            kind = 'ulist' if kind in ('self', 'ucopy') else 'list'
        else:
            xs = [pool[i] for i in operand]
            arg = list(xs)
            arg_before = list(xs)
            if kind == 'ulist':
                arg = call('ulist(%s)' % short(xs, 120), ulist, list(xs))
                arg_before = list(arg)
                check(_seq_same(arg_before, _dedup(xs)), 'ulist(%s) = %s, first-occurrence order without duplicates is %s (%s)', xs, arg_before, _dedup(xs),
                      _first_diff(arg_before, _dedup(xs)))
                _len_classes('raw_len', len(xs), cls)
        what = 'ulist(%s) %s %s%s' % (short(before, 100), op, 'ulist' if kind == 'ulist' else '', short(arg_before if arg_before is not None else arg, 100))
        if arg is u:
            what += ' [the same object on both sides]'
        if op == '+':
            res = call(what, lambda: u + arg)
            exp = _dedup(before + xs)
        elif op == '|':
            res = call(what, lambda: u | arg)
            exp = _dedup(before + xs)
        elif op == '-':
            res = call(what, lambda: u - arg)
            exp = [o for o in before if not _in(o, xs)]
        elif op == '&':
            res = call(what, lambda: u & arg)
            exp = [o for o in before if _in(o, xs)]
        else:
            raise HarnessError('unknown op %r' % op)
        check(isinstance(res, ulist), '%s returned a %s, not a ulist', what, type(res).__name__)
        got = list(res)
        check(all(not _same(got[i], got[j]) for i in range(len(got)) for j in range(i)), '%s = %s contains a duplicate', what, got)
        check(_seq_same(got, exp), '%s = %s, the ordered-set model says %s (%s)', what, got, exp, _first_diff(got, exp))
        check(_ident(list(u), before), '%s changed its left operand to %s', what, list(u))
        # without side effects: a result that IS one of the operands turns every later in-place change of the result into a change of the operand
        check(res is not u, '%s returned its left operand itself (no-op result aliases the operand)', what)
        check(arg_before is None or res is not arg, '%s returned its right operand itself', what)
        if _seq_same(got, before):
            cls.append('noop_result_equals_left_operand')
        if not got:
            cls.append('result_empty')
        if kind == 'elem' and not x and x is not None or kind == 'elem' and x is None:
            cls.append('falsy_elem_operand')
        if arg_before is not None:
            check(_ident(list(arg), arg_before), '%s changed its right operand to %s', what, list(arg))
        # classes
        n_in = sum(1 for o in before if _in(o, xs))
        overlap = 'disjoint' if n_in == 0 else 'total' if n_in == len(before) else 'partial'
        cls.append('op' + op)
        cls.append('kind=' + kind)
        if kind != 'elem':
            _len_classes('operand_len', len(xs), cls)
            # a member of the left operand whose first occurrence in the right operand is far down the list
            firsts = [min(i for i, x in enumerate(xs) if _same(o, x)) for o in before if _in(o, xs)]
            if firsts:
                _len_classes('member_first_seen_at', max(firsts), cls)
            if op in '+|':
                _len_classes('raw_len', len(before) + len(xs), cls)
                _len_classes('union_raw_len', len(before) + len(xs), cls)
        cls.append('overlap=' + overlap)
        if kind == 'elem':
            cls.append('elem_present' if n_in else 'elem_absent')
            if x is None:
                cls.append('none_elem_operand_present' if n_in else 'none_elem_operand_absent')
            if isinstance(x, tuple):
                # a tuple is ONE element: only the member equal to the tuple is concerned, never the members listed inside it
                cls.append('tuple_elem_operand')
                if any(_in(i, before) for i in x):
                    cls.append('tuple_elem_operand_whose_items_are_members')
        else:
            if not xs:
                cls.append('empty_operand')
            if len(_dedup(xs)) < len(xs):
                cls.append('dup_in_operand')
            if overlap == 'partial' and (len(_dedup(xs)) < len(xs) or dup_init):
                nt = True
        if any(_same(a, b) and type(a) is not type(b) for a in before for b in xs):
            cls.append('equal_across_types')
        u = res
    return dict(nt=nt, cls=sorted(set(cls)))


# ----------------------------------------------------------------------------- mappings

_KEYS = ['a', 'b', 'c', 'd', 'e', 'A', 'ab', 'x_a', 'a_x', 'k1', '_h', 'a b', '1']
_ABSENT_EXTRA = ['zz', 'q']
_NEW = ['N1', 'N2', 'N3', 'N4']
_FLAT_SCALAR = st.one_of(st.integers(-3, 6), st.sampled_from(['', 'a', 'b', 'A']), st.none(), st.sampled_from([0.0, 1.5]), st.booleans())
_FLAT = st.one_of(_FLAT_SCALAR, _FLAT_SCALAR,
                  st.lists(_FLAT_SCALAR, max_size=3).map(lambda v: ['list', v]),
                  st.lists(_FLAT_SCALAR, max_size=2).map(lambda v: ['tuple', v]))
_MAP_CLASSES = ['dictattr', 'Dict', 'AttrSub', 'DictSub', 'dictable']
# keys named like constructor parameters / methods (F25): mappings are always built from a dict, never through keywords
_SPECIAL = ['columns', 'data', 'self', 'key', 'index', 'axis', 'copy', 'keys']
# F26: dictable.relabel still builds its result through **keywords, so a column that keeps / gets one of these names is swallowed by the
# constructor (columns, data) or raises TypeError (self). Left out by construction for dictable relabel; PV_C16_INCLUDE_F26=1 puts it back.
_F26_NAMES = ('columns', 'data', 'self')
EXCLUDE_F26_BY_CONSTRUCTION = os.environ.get('PV_C16_INCLUDE_F26', '') != '1'


def _special_pool(cls, opname):
    if opname == 'attr':
        return []            # attribute access is not expected to mirror item access where the name is a real attribute / method
    if cls == 'dictable' and opname == 'relabel' and EXCLUDE_F26_BY_CONSTRUCTION:
        return [n for n in _SPECIAL if n not in _F26_NAMES]
    return list(_SPECIAL)


def _is_known_f26(spec):
    """dictable.relabel whose result keeps or gets a column named columns / data / self"""
    op = spec['op']
    if spec['cls'] != 'dictable' or op['name'] != 'relabel':
        return False
    keys = [kv[0] for kv in spec['items']]
    if any(k in _F26_NAMES for k in keys):
        return True
    news = [n for _, n in op.get('map', [])] + list(op.get('new', [])) + [n for _, n in op.get('table', [])]
    return any(n in _F26_NAMES for n in news)
_DICT_FAMILY = ('Dict', 'DictSub')
# right operands of d + other: any mapping class (F21: Dict + <dict subclass other than dict/dictattr/Dict> used to raise)
_OTHER_CLASSES = ['dict', 'dictattr', 'Dict', 'AttrSub', 'DictSub', 'OrderedDict']
_CLS = {}

_RELABEL_FN = {
    'upper': lambda k: k.upper(),
    'double': lambda k: k + k,
    'wrap': lambda k: 'f_' + k + '_g',
}


def _classes():
    if not _CLS:
        from pyg_base import dictattr, Dict, dictable

        class AttrSub(dictattr):
            pass

        class DictSub(Dict):
            pass
        from collections import OrderedDict
        _CLS.update(dict=dict, dictattr=dictattr, Dict=Dict, AttrSub=AttrSub, DictSub=DictSub, dictable=dictable, OrderedDict=OrderedDict)
        for name in _MAP_CLASSES:
            for k in _KEYS + _ABSENT_EXTRA + _NEW + _B_NAMES + _D_NAMES + _LONG_KEYS + _FILLER:
                if k in dir(_CLS[name]):
                    raise HarnessError('key %r is an attribute of %s' % (k, name))
    return _CLS


def _final_names(keys, mapping):
    return [mapping.get(k, k) for k in keys]


def _relabel_op(draw, keys, absent, long=False):
    """
    a relabel operation on a mapping with the given keys. Besides renames onto fresh names this generates renames whose new label is
    ANOTHER EXISTING key: swaps, rotations, permutation lists, permuting callables, prefix / suffix chains (a -> x_a while x_a exists).
    The resulting key list is always duplicate-free.
    """
    op = dict(name='relabel')
    forms = ['kw', 'dict', 'prefix', 'suffix', 'callable', 'identity', 'callable_kw', 'prefix_kw']
    if len(keys) >= 2:
        forms += ['list', 'args', 'swap', 'swap', 'rotate', 'rotate', 'perm_list', 'perm_list', 'perm_args', 'table', 'table']
    if long:
        forms = ['prefix', 'suffix', 'swap', 'rotate', 'perm_list', 'table', 'kw', 'callable']
    form = draw(st.sampled_from(forms))

    def some_keys(lo, hi):
        n = draw(st.integers(lo, min(hi, len(keys))))
        if long:
            # keys are in drawn order already: a slice is a random subset (keeps big cases inside hypothesis' entropy budget)
            start = draw(st.integers(0, len(keys) - n))
            return keys[start:start + n]
        return list(draw(st.permutations(keys))[:n])

    if form in ('swap', 'rotate', 'table'):
        cyc = some_keys(2, 2) if form == 'swap' else some_keys(2, 5 if not long else 40)
        mapping = {cyc[i]: cyc[(i + 1) % len(cyc)] for i in range(len(cyc))}
        if form != 'table' and absent and draw(st.integers(0, 3)) == 0:
            mapping[absent[0]] = 'N1'                       # a rename of an absent key rides along
        pairs = [[o, mapping[o]] for o in (sorted(mapping) if long else draw(st.permutations(sorted(mapping))))]
        if form == 'table':
            op.update(form='callable', fn='table', table=pairs)
        else:
            op.update(form=draw(st.sampled_from(['kw', 'dict'])), map=pairs)
    elif form in ('perm_list', 'perm_args'):
        if long:
            r = draw(st.integers(1, len(keys) - 1))
            new = draw(st.sampled_from([keys[r:] + keys[:r], keys[::-1]]))
        else:
            new = list(draw(st.permutations(keys)))
        op.update(form='list' if form == 'perm_list' else 'args', new=new)
    elif form == 'identity':
        ks = some_keys(0, 3)
        op.update(form=draw(st.sampled_from(['kw', 'dict'])), map=[[k, k] for k in ks])
    elif form in ('kw', 'dict'):
        olds = some_keys(0, 3) + list(draw(st.permutations(absent[:4]))[:draw(st.integers(0, 2))])
        olds = list(draw(st.permutations(olds)))
        targets = list(draw(st.permutations(_NEW + keys[:4] + absent[:2]))[:len(olds)])
        mapping = dict(zip(olds, targets))
        # no colliding final names, by construction: a colliding target is replaced by a fresh name
        fresh = iter('F%i' % i for i in range(10))
        for o in olds:
            final = _final_names(keys, mapping)
            if o in keys and final.count(mapping[o]) > 1:
                mapping[o] = next(fresh)
        op.update(form=form, map=[[o, mapping[o]] for o in olds])
    elif form in ('prefix', 'suffix', 'prefix_kw'):
        f = 'suffix' if form == 'suffix' else 'prefix'
        op.update(form=f, arg=draw(st.sampled_from(['x_', 'pre_', 'A_'] if f == 'prefix' else ['_x', '_suf', '_1'])))
        if form == 'prefix_kw' and keys:
            op['map'] = [[k, n] for k, n in zip(some_keys(1, 2), draw(st.permutations(_NEW)))]
    elif form in ('callable', 'callable_kw'):
        fn = draw(st.sampled_from(['upper', 'double', 'wrap']))
        if len(set(_RELABEL_FN[fn](k) for k in keys)) < len(keys) or any(_RELABEL_FN[fn](k) in keys and _RELABEL_FN[fn](k) != k for k in keys):
            fn = 'wrap'
        op.update(form='callable', fn=fn)
        if form == 'callable_kw' and keys:
            op['map'] = [[k, n] for k, n in zip(some_keys(1, 2), draw(st.permutations(_NEW)))]
    else:
        op.update(form=form, new=list(draw(st.permutations(_NEW + _KEYS))[:len(keys)]))
    # python cannot pass the names of relabel's own parameters (self, keys) as keywords: those renames use the dict spelling
    if op.get('form') == 'kw' and any(o in ('self', 'keys') for o, _ in op['map']):
        op['form'] = 'dict'
    elif op.get('form') not in ('kw', 'dict') and 'map' in op:
        op['map'] = [[o, n] for o, n in op['map'] if o not in ('self', 'keys')]
    return op


@st.composite
def _mapping_case(draw):
    cls = draw(st.sampled_from(_MAP_CLASSES))
    nk = draw(st.integers(0, 5))
    keys = list(draw(st.permutations(_KEYS))[:nk])
    if cls == 'dictable':
        opname = draw(st.sampled_from(['sub1', 'subl', 'and1', 'andl', 'getl', 'relabel', 'relabel', 'relabel']))
    else:
        opname = draw(st.sampled_from(['sub1', 'subl', 'and1', 'andl', 'getl', 'gett', 'add', 'add', 'relabel', 'relabel', 'relabel', 'attr']))
    chain = None
    if opname == 'relabel' and draw(st.integers(0, 5)) == 0:
        # names with structure: the mapping holds both k and the label that prefixing / suffixing k produces
        chain = draw(st.sampled_from([('prefix', 'x_', ['a', 'x_a']), ('suffix', '_x', ['a', 'a_x']), ('prefix', 'x_', ['a', 'x_a', 'a_x'])]))
        keys = list(draw(st.permutations(keys + [k for k in chain[2] if k not in keys])))
    special = _special_pool(cls, opname)
    absent_special = []
    if special and draw(st.sampled_from([True, False, False, False])):
        sp = list(draw(st.permutations(special)))
        keys = list(draw(st.permutations(keys + sp[:draw(st.integers(1, 2))])))
        absent_special = sp[2:3]
    absent = absent_special + [k for k in _KEYS if k not in keys][:3] + _ABSENT_EXTRA
    if cls == 'dictable':
        nrows = draw(st.integers(0, 3))
        items = [[k, draw(st.lists(_FLAT_SCALAR, min_size=nrows, max_size=nrows))] for k in keys]
    else:
        nrows = None
        items = [[k, draw(_FLAT)] for k in keys]

    def selection(lo=0, unique=False):
        """keys chosen by construction: some present, some absent, in any order, optionally with a repeat"""
        mode = draw(st.sampled_from(['present', 'present', 'mixed', 'mixed', 'mixed', 'absent', 'any', 'all', 'all_reversed', 'all_permuted']))
        if mode.startswith('all') and len(keys) >= lo:
            # looks like "everything / nothing to do" to a cheap test (same length, same key set), possibly in another order
            return list(keys) if mode == 'all' else keys[::-1] if mode == 'all_reversed' else list(draw(st.permutations(keys)))
        mode = 'mixed' if mode.startswith('all') else mode
        n_in = 0 if mode == 'absent' else draw(st.integers(0 if mode == 'any' else 1, 3))
        n_out = 0 if mode == 'present' else draw(st.integers(0 if mode == 'any' else 1, 2))
        sel = list(draw(st.permutations(keys))[:n_in]) + list(draw(st.permutations(absent))[:n_out])
        if sel and not unique and draw(st.integers(0, 4)) == 0:
            sel.append(sel[draw(st.integers(0, len(sel) - 1))])
        sel = list(draw(st.permutations(sel)))
        if len(sel) < lo:
            sel = sel + list(draw(st.permutations(keys + absent))[:lo - len(sel)])
        return sel

    def onekey(public=False):
        ins = [k for k in keys if not (public and k.startswith('_'))]
        outs = [k for k in absent if not (public and k.startswith('_'))]
        return draw(st.sampled_from(ins)) if ins and draw(st.booleans()) else draw(st.sampled_from(outs))

    op = dict(name=opname)
    if opname in ('sub1', 'and1'):
        op['key'] = onekey()
    elif opname in ('subl', 'andl', 'getl', 'gett'):
        op['keys'] = selection(lo=1 if opname in ('gett', 'getl') else 0)
    elif opname == 'add':
        how = draw(st.sampled_from(['keys', 'keys', 'keys', 'keys', 'self', 'same_keys_reordered']))
        if how == 'self':
            op['other_self'] = True
            op['other'] = []
            op['other_cls'] = cls
        else:
            okeys = keys[::-1] if how == 'same_keys_reordered' else selection(unique=True)
            op['other'] = [[k, draw(_FLAT)] for k in okeys]
            op['other_cls'] = draw(st.sampled_from(_OTHER_CLASSES))
    elif opname == 'attr':
        op['probe'] = selection(lo=1, unique=True)
        op['set'] = [onekey(public=True), draw(_FLAT)]
        op['del'] = onekey(public=True)
    elif opname == 'relabel':
        if chain:
            op.update(form=chain[0], arg=chain[1])
        else:
            op = _relabel_op(draw, keys, absent)
    return dict(cls=cls, items=items, nrows=nrows, op=op)


_LONG_KEYS = ['k%02i' % i for i in range(100)]


@st.composite
def _mapping_long_case(draw):
    """20-80 keys (dictattr.keys() is a ulist) and long selections for -, & and [list]"""
    cls = draw(st.sampled_from(_MAP_CLASSES))
    nk = draw(st.one_of(st.integers(20, 80), st.sampled_from([31, 32, 33, 63, 64, 65, 80])))
    keys = list(draw(st.permutations(_LONG_KEYS))[:nk])
    absent = [k for k in _LONG_KEYS if k not in keys]
    with_special = draw(st.sampled_from([True, False, False]))
    if cls == 'dictable':
        nrows = draw(st.integers(0, 2))
        items = [[k, [i * 10 + r for r in range(nrows)]] for i, k in enumerate(keys)]
    else:
        nrows = None
        items = [[k, i] for i, k in enumerate(keys)]
    opname = draw(st.sampled_from(['relabel', 'relabel', 'relabel', 'add', 'add', 'subl', 'andl', 'getl', 'subl', 'andl', 'getl', 'sub1', 'and1', 'gett']))
    op = dict(name=opname)
    if cls == 'dictable' and opname in ('gett', 'add'):
        opname = op['name'] = 'getl'
    if with_special:
        # 1-3 keys named like constructor parameters / methods, somewhere among the many
        sp = list(draw(st.permutations(_special_pool(cls, opname))))[:draw(st.integers(1, 3))]
        for n in sp:
            keys.insert(draw(st.integers(0, len(keys))), n)
        nk = len(keys)
        if cls == 'dictable':
            items = [[k, [i * 10 + r for r in range(nrows)]] for i, k in enumerate(keys)]
        else:
            items = [[k, i] for i, k in enumerate(keys)]
    if opname == 'relabel':
        op = _relabel_op(draw, keys, absent[:3], long=True)
    elif opname == 'add':
        a = draw(st.integers(0, nk))
        okeys = keys[a:draw(st.integers(a, nk))] + absent[:draw(st.integers(0, len(absent)))]
        okeys = draw(st.sampled_from([okeys, okeys[::-1], okeys[1::2] + okeys[::2]]))
        op['other'] = [[k, -1 - i] for i, k in enumerate(okeys)]
        op['other_cls'] = draw(st.sampled_from(_OTHER_CLASSES))
    elif opname in ('sub1', 'and1'):
        op['key'] = draw(st.sampled_from(keys)) if draw(st.integers(0, 3)) else draw(st.sampled_from(absent))
    else:
        mode = draw(st.sampled_from(['present', 'present', 'mixed'] if opname in ('getl', 'gett') else ['present', 'mixed', 'mixed']))
        n_in = draw(st.integers(1, min(100, 2 * nk)))
        src = st.sampled_from(keys)
        sel = draw(st.lists(src, min_size=n_in, max_size=n_in))                 # repeats, any order
        if with_special:
            sel = sel + [k for k in keys if k in _SPECIAL][:draw(st.integers(0, 3))]
        if mode == 'mixed':
            sel = sel + draw(st.lists(st.sampled_from(absent), min_size=1, max_size=20))
            sel = list(draw(st.permutations(sel)))
        op['keys'] = sel
    return dict(cls=cls, items=items, nrows=nrows, op=op)


def _build_mapping(cname, items, env):
    C = _classes()
    data = {}
    for k, v in items:
        data[k] = [build(c, env) for c in v] if cname == 'dictable' else build(v, env)
    if cname == 'dictable':
        return C[cname](dict(data)), data
    return C[cname](dict(data)), data


def _snapshot(d):
    """key order + type-strict deep token of the values, read through the plain dict interface"""
    return [(k, token(dict.__getitem__(d, k))) for k in dict.keys(d)]


def _check_mapping(what, res, exp, d, ordered):
    """res must be a new mapping of d's class holding exactly exp (plain dict of built values)"""
    check(type(res) is type(d), '%s returned a %s, not a %s', what, type(res).__name__, type(d).__name__)
    check(res is not d, '%s returned the operand itself, not a new mapping', what)
    got_keys = list(dict.keys(res))
    if ordered:
        check(got_keys == list(exp), '%s has keys %s, expected %s', what, got_keys, list(exp))
    else:
        check(sorted(got_keys) == sorted(exp) and len(got_keys) == len(exp), '%s has keys %s, expected %s', what, got_keys, list(exp))
    for k in exp:
        got = dict.__getitem__(res, k)
        check(token(got) == token(exp[k]), '%s: value of %s is %s, expected the untouched %s', what, k, got, exp[k])


def _is_known_and(spec):
    """dictable & keys where no selected key is a column (and there are columns): returns ALL columns with zero rows"""
    op = spec['op']
    if spec['cls'] != 'dictable' or op['name'] not in ('and1', 'andl') or not spec['items']:
        return False
    sel = [op['key']] if op['name'] == 'and1' else op['keys']
    present = [kv[0] for kv in spec['items']]
    return not any(k in present for k in sel)


# F13 (found here and independently by C01): fixed in /repo by fb35268, so the class is generated again. The predicate stays available as
# a signature for known_findings.json, and PV_C16_EXCLUDE_F13=1 leaves the class out by construction (for runs against a tree without the fix).
KNOWN = {'c16.dictable_and_no_overlap': _is_known_and, 'c16.dictable_relabel_ctor_parameter_name': _is_known_f26}
EXCLUDE_F13_BY_CONSTRUCTION = os.environ.get('PV_C16_EXCLUDE_F13', '') == '1'


def _mapping_strategy(tier, long=False):
    s = _mapping_long_case() if long else _mapping_case()
    if EXCLUDE_F13_BY_CONSTRUCTION:
        def repair(spec):
            if _is_known_and(spec):
                # construction, not filtering: the selection gets the first column appended
                op = dict(spec['op'])
                first = spec['items'][0][0]
                if op['name'] == 'and1':
                    op['key'] = first
                else:
                    op['keys'] = list(op['keys']) + [first]
                spec = dict(spec, op=op)
            return spec
        s = s.map(repair)
    return s


def run_mapping_ops(spec):
    env = Env()
    cname = spec['cls']
    d, data = _build_mapping(cname, spec['items'], env)
    keys = list(data)
    op = spec['op']
    name = op['name']
    snap = _snapshot(d)
    cls = ['cls=' + cname, 'op=' + name, 'nkeys=%i' % min(len(keys), 3)]
    _len_classes('nkeys', len(keys), cls)
    if 'keys' in op:
        _len_classes('sel_len', len(op['keys']), cls)
    nt = False
    rep = '%s(%s)' % (cname, short(data, 150))
    sp_keys = [k for k in keys if k in _SPECIAL]
    if sp_keys:
        cls.append('key_named_like_ctor_parameter')
        for k in sp_keys:
            cls.append('special_key=' + k)
        if cname == 'dictable' and any(k in _F26_NAMES for k in sp_keys):
            cls.append('dictable_column_named_columns_data_or_self')
        touched = list(op.get('keys', [])) + [op.get('key')] + [kv[0] for kv in op.get('other', [])] + [o for o, _ in op.get('map', [])] + [o for o, _ in op.get('table', [])]
        if any(k in touched for k in sp_keys) or (name == 'relabel' and op.get('form') in ('prefix', 'suffix', 'callable', 'list', 'args')):
            cls.append('special_key_touched_by_the_operation')

    def sel_class(sel):
        n_in = sum(1 for k in sel if k in data)
        c = 'sel=empty' if not sel else 'sel=present' if n_in == len(sel) else 'sel=absent' if n_in == 0 else 'sel=mixed'
        cls.append(c)
        if len(set(sel)) < len(sel):
            cls.append('sel_has_duplicates')
        if keys and len(sel) == len(keys) and set(sel) == set(keys):
            cls.append('sel=all_keys_same_order' if list(sel) == keys else 'sel=all_keys_other_order')
        if any(k in data and not data[k] for k in sel):
            cls.append('falsy_value_selected')
        return c

    if name in ('sub1', 'subl'):
        sel = [op['key']] if name == 'sub1' else list(op['keys'])
        arg = op['key'] if name == 'sub1' else list(sel)
        what = '%s - %r' % (rep, arg)
        res = call(what, lambda: d - arg)
        exp = {k: data[k] for k in keys if k not in sel}
        _check_mapping(what, res, exp, d, ordered=True)
        # the literal form of the statement
        lhs = call('(%s).keys()' % what, lambda: res.keys())
        rhs = call('d.keys() - %r' % (arg,), lambda: d.keys() - arg)
        check(lhs == rhs, '(d - k).keys() = %s but d.keys() - k = %s for d = %s, k = %s', lhs, rhs, rep, arg)
        check(list(rhs) == list(exp), 'd.keys() - %s = %s, expected %s', arg, rhs, list(exp))
        if name == 'subl':
            check(arg == sel, '%s changed the key list to %s', what, arg)
        c = sel_class(sel)
        nt = len(keys) >= 2 and (c == 'sel=mixed' or (c == 'sel=present' and len(exp) > 0))
    elif name in ('and1', 'andl'):
        sel = [op['key']] if name == 'and1' else list(op['keys'])
        arg = op['key'] if name == 'and1' else list(sel)
        what = '%s & %r' % (rep, arg)
        res = call(what, lambda: d & arg)
        exp = {k: data[k] for k in keys if k in sel}
        _check_mapping(what, res, exp, d, ordered=True)
        if name == 'andl':
            check(arg == sel, '%s changed the key list to %s', what, arg)
        c = sel_class(sel)
        nt = len(keys) >= 2 and (c == 'sel=mixed' or (c == 'sel=present' and len(exp) < len(keys)))
    elif name == 'getl':
        sel = list(op['keys'])
        arg = list(sel)
        what = '%s[%r]' % (rep, arg)
        c = sel_class(sel)
        if all(k in data for k in sel):
            res = call(what, lambda: d[arg])
            exp = {k: data[k] for k in sel}
            _check_mapping(what, res, exp, d, ordered=False)
            nt = len(keys) >= 2 and len(exp) < len(keys)
        else:
            call_or(what, (KeyError,), lambda: d[arg])
        check(arg == sel, '%s changed the key list to %s', what, arg)
    elif name == 'gett':
        sel = tuple(op['keys'])
        what = '%s[%s]' % (rep, ', '.join(repr(k) for k in sel) + (',' if len(sel) == 1 else ''))
        c = sel_class(list(sel))
        if all(k in data for k in sel):
            res = call(what, lambda: d[sel])
            check(type(res) is list, '%s returned a %s, not a list', what, type(res).__name__)
            exp = [data[k] for k in sel]
            check(len(res) == len(exp) and all(token(a) == token(b) for a, b in zip(res, exp)), '%s = %s, expected the list of values %s', what, res, exp)
            nt = len(sel) >= 2 and len(keys) >= 2
        else:
            call_or(what, (KeyError,), lambda: d[sel])
    elif name == 'add':
        C = _classes()
        odata = {k: build(v, env) for k, v in op['other']}
        other = C[op['other_cls']](dict(odata))
        if op.get('other_self'):
            odata, other = dict(data), d
            cls.append('other_is_the_mapping_itself')
        elif keys and list(odata) != keys and sorted(odata) == sorted(keys):
            cls.append('other_has_same_keys_in_another_order')
        osnap = _snapshot(other)
        what = '%s + %s(%s)' % (rep, op['other_cls'], short(odata, 120))
        res = call(what, lambda: d + other)
        exp = dict(data)
        exp.update(odata)
        _check_mapping(what, res, exp, d, ordered=False)
        check(res == {**data, **odata}, '%s = %s is not equal to {**d, **o} = %s', what, res, exp)
        check(_snapshot(other) == osnap and (other is d or type(other) is C[op['other_cls']]), '%s changed its right operand to %s', what, other)
        n_over = sum(1 for k in odata if k in data)
        cls.append('other=' + op['other_cls'])
        if cname in _DICT_FAMILY and type(other) not in (dict, C['dictattr'], C['Dict']):
            cls.append('Dict_plus_other_mapping_class')
        cls.append('add_overlap=' + ('none' if n_over == 0 else 'all' if n_over == len(odata) else 'some'))
        nt = len(keys) >= 1 and 0 < n_over < len(odata)
    elif name == 'relabel':
        form = op['form']
        cls.append('relabel=' + form)
        if form in ('kw', 'dict'):
            mapping = {o: n for o, n in op['map']}
            arg = dict(mapping)
            if form == 'kw':
                what = '%s.relabel(**%r)' % (rep, arg)
                res = call(what, lambda: d.relabel(**arg))
            else:
                what = '%s.relabel(%r)' % (rep, arg)
                res = call(what, lambda: d.relabel(arg))
                check(arg == mapping, '%s changed the relabel dict to %s', what, arg)
            final = _final_names(keys, mapping)
            n_hit = sum(1 for o in mapping if o in data)
            cls.append('relabel_hits=' + ('none' if n_hit == 0 else 'all' if n_hit == len(mapping) else 'some'))
            if any(n in data for o, n in mapping.items() if o in data):
                cls.append('relabel_onto_existing_name')
            nt = n_hit >= 1 and len(keys) >= 2
        elif form in ('prefix', 'suffix', 'callable'):
            # positional rule, optionally combined with individual keywords (which win, see the docstring of relabel)
            kwmap = {o: n for o, n in op.get('map', [])}
            if form == 'callable':
                if op['fn'] == 'table':
                    table = {o: n for o, n in op['table']}
                    a = lambda k: table.get(k, k)
                    what = '%s.relabel(lambda k: %r.get(k, k)%s)' % (rep, table, ''.join(', %s=%r' % kv for kv in kwmap.items()))
                else:
                    a = _RELABEL_FN[op['fn']]
                    what = '%s.relabel(<%s>%s)' % (rep, op['fn'], ''.join(', %s=%r' % kv for kv in kwmap.items()))
                rule = a
            else:
                a = op['arg']
                what = '%s.relabel(%r%s)' % (rep, a, ''.join(', %s=%r' % kv for kv in kwmap.items()))
                rule = (lambda k: a + k) if form == 'prefix' else (lambda k: k + a)
            res = call(what, lambda: d.relabel(a, **kwmap))
            final = [kwmap[k] if k in kwmap else rule(k) for k in keys]
            if kwmap:
                cls.append('relabel_rule_plus_keywords')
            nt = len(keys) >= 2
        else:
            new = list(op['new'])
            if len(new) != len(keys) or len(keys) < 2:
                raise HarnessError('full-list relabel needs one new name per key and >= 2 keys')
            if form == 'list':
                arg = list(new)
                what = '%s.relabel(%r)' % (rep, arg)
                res = call(what, lambda: d.relabel(arg))
                check(arg == new, '%s changed the list of new names to %s', what, arg)
            else:
                what = '%s.relabel(*%r)' % (rep, new)
                res = call(what, lambda: d.relabel(*new))
            final = new
            nt = True
        if len(set(final)) < len(final):
            raise HarnessError('generator produced a colliding relabel %s -> %s' % (keys, final))
        # renames whose new label is another existing key (collision-free in the result, but not for a one-key-at-a-time implementation)
        moved = {k: f for k, f in zip(keys, final) if k != f}
        if not moved:
            cls.append('relabel_changes_nothing')
        if any(f in data for f in moved.values()):
            cls.append('relabel_new_label_is_an_existing_key')
            cls.append('relabel_new_label_is_an_existing_key/' + ('prefix_suffix' if form in ('prefix', 'suffix') else 'callable' if form == 'callable' else
                                                                 'list' if form in ('list', 'args') else 'keywords'))
        if moved and set(moved.values()) == set(moved):
            cls.append('relabel_permutes_existing_keys')
            cls.append('relabel_swap' if any(moved.get(f) == k for k, f in moved.items()) else 'relabel_rotation')
            if any(moved.get(f) != k for k, f in moved.items()):
                cls.append('relabel_cycle>=3')
        exp = {f: data[k] for k, f in zip(keys, final)}
        _check_mapping(what, res, exp, d, ordered=False)
    elif name == 'attr':
        for k in op['probe']:
            if k in data:
                got = call('getattr(%s, %r)' % (rep, k), getattr, d, k)
                item = call('%s[%r]' % (rep, k), lambda: d[k])
                check(got is item or token(got) == token(item), 'd.%s = %s but d[%r] = %s for d = %s', k, got, k, item, rep)
                check(token(item) == token(data[k]), '%s[%r] = %s, expected %s', rep, k, item, data[k])
            else:
                must_raise('getattr(%s, %r) for an absent key' % (rep, k), AttributeError, getattr, d, k)
                must_raise('%s[%r] for an absent key' % (rep, k), KeyError, lambda: d[k])
        check(_snapshot(d) == snap, 'attribute / item reads changed %s to %s', rep, dict(d))
        # set / delete mirror item assignment / deletion (on a second, separately built object)
        sk, sv = op['set']
        e, edata = _build_mapping(cname, spec['items'], env)
        v = build(sv, env)
        call('setattr(%s, %r, %s)' % (rep, sk, short(v, 60)), setattr, e, sk, v)
        exp = dict(edata)
        exp[sk] = v
        check(_snapshot(e) == [(k, token(x)) for k, x in exp.items()], 'after d.%s = %s the mapping %s is %s, expected %s', sk, v, rep, dict(e), exp)
        dk = op['del']
        if dk in exp:
            call('delattr(d, %r) on %s' % (dk, short(exp, 120)), delattr, e, dk)
            del exp[dk]
        else:
            must_raise('delattr(d, %r) for an absent key on %s' % (dk, short(exp, 120)), AttributeError, delattr, e, dk)
        check(_snapshot(e) == [(k, token(x)) for k, x in exp.items()], 'after del d.%s the mapping is %s, expected %s', dk, dict(e), exp)
        n_in = sum(1 for k in op['probe'] if k in data)
        cls.append('probe=' + ('present' if n_in == len(op['probe']) else 'absent' if n_in == 0 else 'mixed'))
        nt = 0 < n_in
    else:
        raise HarnessError('unknown op %r' % name)
    if cname == 'dictable' and spec['nrows'] == 0 and keys:
        cls.append('dictable_zero_rows_with_columns')
    if name not in ('attr', 'gett') and 'res' in dir() and len(dict.keys(res)) == 0 and keys:
        cls.append('result_has_no_keys')
    check(_snapshot(d) == snap and type(d) is _classes()[cname], '%s changed the mapping it was applied to: now %s', name if name == 'attr' else what, dict(d))
    return dict(nt=nt, cls=cls)


# ----------------------------------------------------------------------------- Dict.__call__

# names with structure: prefixes / suffixes / concatenations of one another
_B_NAMES = ['x', 'y', 'xy', 'yx']
_D_NAMES = ['p', 'q', 'pq', 'qp', 'p_q', 'r']
_FILLER = ['k%02i' % i for i in range(70)]
_FN_CACHE = {}


def _make_fn(name, args, ret=None):
    """lambda <args>: (name, <args>)  - the value records the whole evaluation tree; ret = 'none' / 'zero' makes the callable return a falsy value"""
    k = (name, tuple(args), ret)
    if k not in _FN_CACHE:
        body = 'None' if ret == 'none' else '0' if ret == 'zero' else '(%r,%s)' % (name, ''.join(' %s,' % a for a in args))
        _FN_CACHE[k] = 'lambda %s: %s' % (', '.join(args), body)
    return eval(_FN_CACHE[k], {})   # a fresh function object per case


def _graph_info(kw):
    """kw: list of [name, {'f': [args]} | {'v': value}] -> (derived deps dict, cyclic?, depth)"""
    deps = {n: [a for a in e['f']] for n, e in kw if 'f' in e}
    derived = set(deps)
    state = {}
    cyclic = [False]
    depth = {}

    def visit(n):
        if state.get(n) == 1:
            cyclic[0] = True
            return 0
        if state.get(n) == 2:
            return depth[n]
        state[n] = 1
        dd = 1
        for a in deps[n]:
            if a in derived:
                dd = max(dd, 1 + visit(a))
        state[n] = 2
        depth[n] = dd
        return dd
    for n in deps:
        visit(n)
    return deps, cyclic[0], (max(depth.values()) if depth else 0)


def _reference(base, kw):
    """independent evaluator: plain values first, then every derived key by recursion on its parameters"""
    env = dict(base)
    fdef = {}
    ret = {}
    for n, e in kw:
        if 'f' in e:
            fdef[n] = e['f']
            ret[n] = e.get('r')
        else:
            env[n] = e['v']
    done = {}

    def value(n):
        if n in fdef:
            if n not in done:
                v = (n,) + tuple(value(a) for a in fdef[n])
                done[n] = None if ret[n] == 'none' else 0 if ret[n] == 'zero' else v
            return done[n]
        if n not in env:
            raise HarnessError('parameter %r names nothing' % n)
        return env[n]
    for n in fdef:
        env[n] = value(n)
    return env


def _one_call(cname, base, kw, label):
    C = _classes()
    d = C[cname](dict(base))
    snap = _snapshot(d)
    kwargs = {}
    for n, e in kw:
        kwargs[n] = _make_fn(n, e['f'], e.get('r')) if 'f' in e else e['v']
    if list(kwargs) != [n for n, _ in kw]:
        raise HarnessError('duplicate keyword in %s' % kw)
    deps, cyclic, depth = _graph_info(kw)
    what = '%s(%s)(%s)' % (cname, short(dict(base), 100), ', '.join('%s=%s' % (n, ('lambda %s: %s' % (','.join(e['f']), {'none': 'None', 'zero': '0'}.get(e.get('r'), '..'))) if 'f' in e else repr(e['v'])) for n, e in kw))
    # termination is decided by fuel: a correct run on 6 callables makes < 2 000 calls (n rounds of n signature inspections)
    limit = 2000 * (len(kw) + 2) ** 2

    def go():
        with fuel(limit):
            return d(**kwargs)
    if cyclic:
        must_raise(what + ' [circular]', ValueError, go)
    else:
        res = call(what, go)
        exp = _reference(base, kw)
        check(type(res) is type(d), '%s returned a %s, not a %s', what, type(res).__name__, type(d).__name__)
        check(res is not d, '%s returned the mapping itself', what)
        got_keys = sorted(dict.keys(res))
        check(got_keys == sorted(exp), '%s has keys %s, expected %s', what, got_keys, sorted(exp))
        for k in exp:
            got = dict.__getitem__(res, k)
            check(type(got) is type(exp[k]) and got == exp[k], '%s: %s = %s, evaluation in dependency order gives %s', what, k, got, exp[k])
    check(_snapshot(d) == snap, '%s changed the mapping it was called on: now %s', what, dict(d))
    return deps, cyclic, depth


def _is_topological(order, deps):
    seen = set()
    for n in order:
        if n in deps:
            if any(a in deps and a not in seen for a in deps[n]):
                return False
        seen.add(n)
    return True


def run_call(spec):
    cname = spec['cls']
    base = [(k, v) for k, v in spec['base']]
    kw = spec['kw']
    names = [n for n, _ in kw]
    if spec.get('perms') == 'all':
        if len(kw) > 6:
            raise HarnessError('all-permutations mode is bounded to 6 keywords')
        orders = list(itertools.permutations(range(len(kw))))
    else:
        orders = [tuple(range(len(kw)))] + [tuple(o) for o in spec.get('orders', [])]
    n_nontopo = 0
    bd = dict(base)
    redefined_dependent_first = False
    for o in orders:
        kwo = [kw[i] for i in o]
        deps, cyclic, depth = _one_call(cname, base, kwo, o)
        on = [names[i] for i in o]
        if not _is_topological(on, deps):
            n_nontopo += 1
        # a callable RE-DEFINES a key that is already in the mapping, and a callable that depends on it comes first in keyword order
        if any(n in bd and any(n in deps[m] and on.index(m) < on.index(n) for m in deps) for n in deps):
            redefined_dependent_first = True
    nd = len(deps)
    shadow = any(n in bd for n in deps)
    reach = {n: set(a for a in deps[n] if a in deps) for n in deps}
    for _ in range(len(deps)):
        for n in reach:
            for a in list(reach[n]):
                reach[n] |= reach[a]
    on_cycle = [n for n in deps if n in reach[n]]
    cls = ['cls=' + cname, 'derived=%i' % nd, 'cyclic' if cyclic else 'acyclic', 'depth=%i' % min(depth, 4)]
    if not cyclic:
        cls.append('some_order_not_topological' if n_nontopo else 'all_orders_topological')
    if shadow:
        cls.append('derived_key_shadows_old_value')
    if redefined_dependent_first:
        cls.append('existing_key_redefined_and_its_dependent_comes_first')
    if on_cycle and all(n in bd for n in on_cycle):
        cls.append('cycle_among_existing_keys')
    if any(n in bd and not bd[n] for n in deps):
        cls.append('falsy_old_value_under_derived_key')
    if any(e.get('r') for _, e in kw):
        cls.append('callable_returns_falsy')
    if nd == 0:
        cls.append('no_callables')
    member_key = 'key' in bd or 'key' in names
    takes_key = [n for n in deps if 'key' in deps[n]]
    if member_key:
        cls.append('member_named_key')
        cls.append('member_named_key=' + ('derived' if 'key' in deps else 'plain_keyword' if 'key' in names else 'base'))
        if 'key' in deps and 'key' in bd:
            cls.append('member_named_key_redefined')
        if takes_key:
            cls.append('callable_takes_member_named_key')
            if len(takes_key) < len([n for n in deps if n != 'key']):
                cls.append('callables_with_and_without_key_argument')
    elif takes_key:
        raise HarnessError("a callable takes `key` but the mapping has no member 'key' (outside the domain, see ASSUMPTIONS)")
    if len(bd) >= 64:
        cls.append('base_keys>=64')
    if any('v' in e for _, e in kw):
        cls.append('plain_keywords')
    if spec.get('perms') == 'all':
        cls.append('all_%i_orders' % len(orders) if len(orders) < 720 else 'all_720_orders')
    nt = cyclic or (depth >= 2 and n_nontopo > 0)
    if depth >= 2 and n_nontopo > 0 and not cyclic:
        cls.append('deep_and_out_of_order')
    return dict(nt=nt, cls=cls)


@st.composite
def _call_case(draw, tier):
    cname = draw(st.sampled_from(['Dict', 'Dict', 'DictSub']))
    nd = draw(st.sampled_from([1, 2, 3, 3, 4, 4, 5, 5, 6, 6, 6, 0]))
    derived = list(draw(st.permutations(_D_NAMES))[:nd])          # also the hidden rank order
    nb = draw(st.integers(0, 4))
    bnames = list(draw(st.permutations(_B_NAMES))[:nb])
    base = [[b, draw(st.one_of(st.integers(0, 9), st.integers(0, 9), st.none()))] for b in bnames]
    allperm = tier == 'thorough' and draw(st.integers(0, 9)) == 0
    nplain = draw(st.integers(0, 0 if (allperm and nd == 6) else min(2, 6 - nd) if allperm else 2))
    plain = [[n, draw(st.integers(10, 19))] for n in list(draw(st.permutations(_B_NAMES))[:nplain])]
    avail = sorted(set(bnames) | set(n for n, _ in plain))
    # old values under some of the derived names: out-of-order evaluation then yields a wrong value rather than an exception
    for n in derived:
        if draw(st.integers(0, 2)) == 0:
            base.append([n, draw(st.sampled_from([-1 - _D_NAMES.index(n), -1 - _D_NAMES.index(n), 0, None]))])
    if draw(st.sampled_from([False] * 7 + [True])):
        base = base + [[k, i] for i, k in enumerate(_FILLER)]      # a big mapping under the same few derived keys
    dense = draw(st.sampled_from([0.3, 0.5, 0.8]))
    fdef = {}
    for i, n in enumerate(derived):
        args = []
        for m in derived[:i]:
            if draw(st.floats(0, 1)) < dense:
                args.append(m)
        for b in avail:
            if draw(st.integers(0, 2)) == 0:
                args.append(b)
        fdef[n] = list(draw(st.permutations(args)))
    if nd >= 2 and draw(st.integers(0, 3)) == 0:
        # close a cycle of length >= 2: an earlier key takes a later one as parameter (which reaches it, or not)
        for _ in range(draw(st.integers(1, 2))):
            i = draw(st.integers(0, nd - 2))
            j = draw(st.integers(i + 1, nd - 1))
            if derived[j] not in fdef[derived[i]]:
                fdef[derived[i]] = fdef[derived[i]] + [derived[j]]
    # a member literally named 'key': Dict.__call__ hands key=<name being defined> to apply as a DEFAULT parameter, which the mapping's own member must trump
    keymode = draw(st.sampled_from([None, None, None, 'base', 'plain', 'derived', 'derived_over_old']))
    if keymode in ('derived', 'derived_over_old') and nd:
        old = derived[draw(st.integers(0, nd - 1))]
        derived = ['key' if n == old else n for n in derived]
        fdef = {('key' if n == old else n): ['key' if a == old else a for a in args] for n, args in fdef.items()}
        base = [[('key' if k == old else k), v] for k, v in base]
        if keymode == 'derived_over_old' and 'key' not in dict(base):
            base.append(['key', draw(st.sampled_from([-9, 0, None]))])
        i = derived.index('key')
        for m in derived[i + 1:]:
            if 'key' not in fdef[m] and draw(st.booleans()):
                fdef[m] = fdef[m] + ['key']
    elif keymode in ('base', 'plain') or (keymode and not nd):
        if keymode == 'plain' and len(plain) < 2 and not (allperm and nd + len(plain) >= 6):
            plain.append(['key', draw(st.integers(20, 29))])
        else:
            base.append(['key', draw(st.sampled_from([7, 8, 0, None]))])
        for m in derived:
            if draw(st.booleans()):
                fdef[m] = list(draw(st.permutations(fdef[m] + ['key'])))
    kw = [[n, dict({'f': fdef[n]}, **({'r': draw(st.sampled_from(['none', 'zero']))} if draw(st.integers(0, 7)) == 0 else {}))] for n in derived]
    kw = kw + [[n, {'v': v}] for n, v in plain]
    kw = list(draw(st.permutations(kw)))
    spec = dict(cls=cname, base=base, kw=kw)
    if allperm:
        spec['perms'] = 'all'
    else:
        k = len(kw)
        spec['orders'] = [list(draw(st.permutations(list(range(k))))) for _ in range(2)] + [list(range(k - 1, -1, -1))]
    return spec


# ---- the complete enumeration

def _pairs(n):
    return [(i, j) for i in range(n) for j in range(n) if i != j]   # (i, j): key i takes key j as parameter


def _family(n):
    """a fixed family of graphs on n = 5 or 6 keys, as sets of (i, j) = 'i takes j as parameter'"""
    fam = []
    rng = list(range(n))
    fam.append([])                                                     # independent
    fam.append([(i, i - 1) for i in rng[1:]])                          # chain, labels ascending
    fam.append([(i - 1, i) for i in rng[1:]])                          # chain, labels descending
    fam.append([(i, 0) for i in rng[1:]])                              # all on one
    fam.append([(0, i) for i in rng[1:]])                              # one on all
    fam.append([(i, j) for i in rng for j in rng if j < i])            # complete dag
    fam.append([(i, (i - 1) // 2) for i in rng[1:]])                   # binary tree
    fam.append([(i, i - 2) for i in rng[2:]])                          # two interleaved chains
    fam.append([(1, 0), (2, 0), (3, 1), (3, 2)] + [(i, i - 1) for i in rng[4:]])       # diamond + tail
    fam.append([(i, i - 1) for i in rng[1:]] + [(n - 1, 0)])           # chain + shortcut
    fam.append([(2, 4), (4, 1), (1, 3), (3, 0)])                       # scrambled chain, one key independent
    fam.append([(0, n - 1), (n - 1, 1), (1, n - 2), (n - 2, 2)])       # zig-zag chain
    fam.append([(i, j) for i in rng for j in rng if j > i and (i + j) % 2])            # bipartite-ish dag, descending
    fam.append([(i, j) for i in rng for j in rng if j < i and (i * j) % 3 != 1])
    fam.append([(3, 1), (3, 2), (4, 3), (0, 4)])
    # cyclic ones
    fam.append([(0, 1), (1, 0)])                                       # 2-cycle, rest independent
    fam.append([(i, i - 1) for i in rng[1:]] + [(0, n - 1)])           # one cycle through all
    fam.append([(i, i - 1) for i in rng[1:]] + [(n - 2, n - 1)])       # 2-cycle at the end of a chain
    fam.append([(i, i - 1) for i in rng[1:]] + [(0, 1)])               # 2-cycle at the start of a chain
    fam.append([(0, 1), (1, 2), (2, 0)] + [(i, i - 1) for i in rng[4:]])               # 3-cycle + separate chain
    fam.append([(0, 1), (1, 2), (2, 0), (3, 0), (4, 3)])               # keys hanging off a cycle
    fam.append([(1, 0), (2, 1), (3, 2), (1, 3), (4, 0)])               # cycle reached from an acyclic prefix
    return [sorted(set(g)) for g in fam]


def _all_graphs():
    out = []
    for n in range(1, 5):
        pr = _pairs(n)
        for mask in range(1 << len(pr)):
            out.append((n, [pr[b] for b in range(len(pr)) if mask >> b & 1]))
    for n in (5, 6):
        for g in _family(n):
            out.append((n, g))
    return out


_GRAPHS = []


def _graphs():
    if not _GRAPHS:
        _GRAPHS.extend(_all_graphs())
    return _GRAPHS


def _enum_spec(gi, shadow, order):
    n, edges = _graphs()[gi]
    names = _D_NAMES[:n]
    base = [['x', 1], ['y', 2]]
    bx = 'x'
    if shadow == 3:
        names = ['key'] + names[1:]             # derived key 0 is literally named 'key' (and re-defines an old member 'key')
        base += [[m, -1 - i] for i, m in enumerate(names)]
    elif shadow == 4:
        bx = 'key'                              # the base key read by every even derived key is literally named 'key'
        base = [['key', 1], ['y', 2]]
    if shadow == 1:
        base += [[m, -1 - i] for i, m in enumerate(names)]
    elif shadow == 2:
        base += [[m, None if i % 2 else 0] for i, m in enumerate(names)]    # old values that are falsy
    kw = []
    for i in range(n):
        args = [names[j] for (a, j) in edges if a == i]
        if i % 2 == 0:
            args = args + [bx]
        if i % 3 == 0:
            args = ['y'] + args
        kw.append([names[i], {'f': args}])
    return dict(cls='Dict', base=base, kw=[kw[i] for i in order])


def enum_call_perms(tier):
    graphs = _graphs()
    total = sum(5 * len(list(itertools.permutations(range(n)))) for n, _ in graphs)

    def chunker(i, nchunks):
        for gi in range(i, len(graphs), nchunks):
            n = graphs[gi][0]
            for order in itertools.permutations(range(n)):
                for shadow in (0, 1, 2, 3, 4):
                    yield _enum_spec(gi, shadow, list(order))
    return total, chunker


@st.composite
def _enum_sample(draw):
    graphs = _graphs()
    # sizes are drawn first so that the 4 096 four-key graphs do not crowd out the 5- and 6-key family
    n = draw(st.sampled_from([2, 3, 3, 4, 4, 5, 5, 6, 6]))
    cand = [gi for gi, g in enumerate(graphs) if g[0] == n]
    gi = cand[draw(st.integers(0, len(cand) - 1))]
    order = list(draw(st.permutations(list(range(n)))))
    return _enum_spec(gi, draw(st.sampled_from([0, 1, 1, 2, 3, 4])), order)


# ----------------------------------------------------------------------------- registry

SUBS = [
    Sub('ulist_ops', lambda tier: _ulist_case(), run_ulist_ops, quick=6000, thorough=30000,
        rule='a pool of 1-7 hashable elements (ints, strings, None, tuples, 1/1.0/True aliases, NaN objects); ulist built from a list/tuple/ulist of <= 9 '
             'pool elements, then a chain of 1-3 operations + | - & with a single pool element, a list (<= 7, repeats allowed), a ulist, or a "fingerprint" operand (the left operand itself, an equal copy, its elements reversed / rotated, same length and ends with another middle); after every step: result is not one of the operand objects, '
             'result is a ulist, duplicate-free, equal to the ordered-set model (first-occurrence order), both operands untouched. '
             'non-trivial = some list/ulist operand overlaps the current ulist partially and (operand or initial list) has repeated elements',
        floor=0.12, class_floors={'dup_in_operand': 0.2, 'overlap=partial': 0.2, 'elem_present': 0.1, 'elem_absent': 0.05,
                                  'op&': 0.15, 'op-': 0.15, 'op+': 0.15, 'op|': 0.15, 'kind=ulist': 0.1, 'equal_across_types': 0.005,
                                  'tuple_elem_operand': 0.03, 'tuple_elem_operand_whose_items_are_members': 0.03, 'none_elem_operand_present': 0.005,
                                  'fingerprint_operand': 0.05, 'fingerprint=self': 0.005, 'fingerprint=same_ends': 0.005, 'fingerprint=reversed': 0.005,
                                  'noop_result_equals_left_operand': 0.2, 'falsy_elem_operand': 0.05, 'result_empty': 0.05}),
    Sub('ulist_long', lambda tier: _ulist_long_case(), run_ulist_ops, quick=1500, thorough=6000,
        rule='long inputs (size thresholds / fast paths): a pool of 5-40 distinct hashables; raw lists of 30-200 pool entries with many repeats in drawn order '
             '(so first- and last-occurrence order differ; in half of them 1-3 elements first appear only in the last positions) as constructor argument (list / tuple / ulist) and / or as right operand (list or ulist) of + | - &, '
             'the other side short or long, 1-2 operations; same ordered-set oracle as ulist_ops. non-trivial as in ulist_ops',
        floor=0.1, class_floors={'raw_len>=64': 0.5, 'raw_len>=128': 0.25, 'ctor_raw_len>=64': 0.3, 'ctor_raw_len>=128': 0.12, 'union_raw_len>=64': 0.08,
                                 'union_raw_len>=128': 0.04, 'operand_len>=64': 0.2, 'operand_len>=128': 0.08, 'member_first_seen_at>=64': 0.05, 'member_first_seen_at>=128': 0.02, 'first_and_last_occurrence_order_differ': 0.5, 'fingerprint_operand': 0.03,
                                 'op&': 0.1, 'op-': 0.1, 'op+': 0.1, 'op|': 0.1}),
    Sub('mapping_ops', _mapping_strategy, run_mapping_ops, quick=6000, thorough=30000,
        rule='mapping of class dictattr / Dict / local subclass of each / dictable with 0-5 string keys and flat values; one operation: d - key, d - [keys], '
             'd & key, d & [keys], d[[keys]], d[k1, k2], d + other, relabel (keyword, dict, prefix, suffix, callable, full list, *names, rule + keywords; incl. swaps, rotations, permutation lists, permuting callables and prefix / suffix chains, i.e. new labels that are OTHER EXISTING keys), attribute get/set/del; '
             'selections present / absent / mixed / all keys in the same or another order; d + d and d + same-keys-reordered; oracle: plain dict model, type(result) is type(d), result is not d, exact keys (ordered for - and &), '
             'type-strict equal values, d and the right operand unchanged. non-trivial = >= 2 keys and a selection / update / relabel that hits some but not all keys',
        floor=0.25, class_floors={'cls=dictable': 0.1, 'cls=AttrSub': 0.1, 'cls=DictSub': 0.1, 'sel=mixed': 0.06, 'sel=absent': 0.05, 'op=add': 0.06,
                                  'add_overlap=some': 0.015, 'op=relabel': 0.08, 'relabel=list': 0.004, 'relabel=callable': 0.008, 'op=gett': 0.04,
                                  'op=attr': 0.02,
                                  'relabel_new_label_is_an_existing_key': 0.05, 'relabel_permutes_existing_keys': 0.03, 'relabel_swap': 0.02, 'relabel_cycle>=3': 0.005,
                                  'relabel_new_label_is_an_existing_key/prefix_suffix': 0.015, 'relabel_new_label_is_an_existing_key/callable': 0.004,
                                  'relabel_new_label_is_an_existing_key/list': 0.006, 'relabel_rule_plus_keywords': 0.01, 'relabel_changes_nothing': 0.01,
                                  'sel=all_keys_other_order': 0.015, 'sel=all_keys_same_order': 0.015, 'other_is_the_mapping_itself': 0.004, 'Dict_plus_other_mapping_class': 0.01, 'other=OrderedDict': 0.005,
                                  'other_has_same_keys_in_another_order': 0.01, 'falsy_value_selected': 0.05, 'dictable_zero_rows_with_columns': 0.01,
                                  'result_has_no_keys': 0.03, 'key_named_like_ctor_parameter': 0.1, 'special_key_touched_by_the_operation': 0.04,
                                  'dictable_column_named_columns_data_or_self': 0.01, 'special_key=columns': 0.01, 'special_key=data': 0.01, 'special_key=self': 0.01,
                                  'special_key=key': 0.01, 'special_key=index': 0.01, 'special_key=axis': 0.01, 'special_key=copy': 0.01, 'special_key=keys': 0.01}),
    Sub('mapping_long', lambda tier: _mapping_strategy(tier, long=True), run_mapping_ops, quick=1200, thorough=5000,
        rule='same classes and oracle as mapping_ops on mappings with 20-80 keys (dictattr.keys() is a ulist; sizes around 32 and 64 over-sampled): d - [keys], d & [keys], '
             'd[[keys]], d[k1, .., kn] with selections of up to 120 keys (repeats, any order, present or mixed with absent keys), d - key, d & key, d + other (up to 100 keys) and relabel (prefix, suffix, swap, rotation of up to 40 keys, rotated / reversed full list, permuting callable). '
             'non-trivial as in mapping_ops',
        floor=0.3, class_floors={'nkeys>=30': 0.6, 'nkeys>=64': 0.15, 'sel_len>=30': 0.2, 'sel_len>=64': 0.05, 'sel=mixed': 0.12, 'cls=dictable': 0.1,
                                 'op=subl': 0.08, 'op=andl': 0.08, 'op=getl': 0.08, 'op=relabel': 0.08, 'op=add': 0.06,
                                 'relabel_permutes_existing_keys': 0.03, 'key_named_like_ctor_parameter': 0.15, 'special_key_touched_by_the_operation': 0.05,
                                 'dictable_column_named_columns_data_or_self': 0.01}),
    Sub('call_graph', lambda tier: _call_case(tier), run_call, quick=2000, thorough=3000,
        rule='Dict / subclass with 0-4 base keys; keywords = 1-6 callable (derived) keys whose parameters name base keys, plain keywords or other derived keys '
             '(random dag over a hidden rank order; 1 in 4 gets 1-2 back edges, no self-loops; 1 in 3 derived names RE-DEFINES a key of d whose old value is an int, 0 or None; 1 callable in 8 returns None / 0; 1 case in 8 has 70 more base keys; names are prefixes / concatenations of one another; in 4 cases of 7 the mapping has a member literally named "key" - base key, plain keyword or derived key, also re-defining an old one - and about half of the callables take `key` as a parameter) plus 0-2 plain keywords; '
             'called in the drawn order, 2 more drawn orders and the reverse (thorough: about 1 case in 5 is called in ALL orders of its <= 6 keywords, <= 720); oracle: recursive evaluator on the '
             'parameter names, ValueError iff a cycle exists, result class, d unchanged. non-trivial = cyclic, or depth >= 2 with an order that is not topological',
        floor=0.3, class_floors={'cyclic': 0.06, 'deep_and_out_of_order': 0.3, 'derived=6': 0.1, 'derived_key_shadows_old_value': 0.2,
                                 'existing_key_redefined_and_its_dependent_comes_first': 0.25, 'cycle_among_existing_keys': 0.004,
                                 'falsy_old_value_under_derived_key': 0.15, 'callable_returns_falsy': 0.15, 'base_keys>=64': 0.04, 'no_callables': 0.02,
                                 'member_named_key': 0.15, 'callable_takes_member_named_key': 0.1, 'member_named_key=base': 0.03, 'member_named_key=derived': 0.03,
                                 'member_named_key=plain_keyword': 0.01, 'callables_with_and_without_key_argument': 0.04}),
    EnumSub('call_perms', enum_call_perms, run_call, strategy=lambda tier: _enum_sample(), quick=3000, chunks=64,
            rule='every digraph without self-loops on 1-4 derived keys (1 + 4 + 64 + 4 096) and a fixed family of 22 graphs each on 5 and 6 keys '
                 '(chains in both label orders, stars, complete dag, tree, diamonds, 2-/3-/n-cycles with tails), every key also reading base keys; each graph in EVERY '
                 'keyword order (n!) in 5 variants: without old values, with old values, with FALSY old values (0 / None) under the derived names, with derived key 0 literally named "key", with the shared base key literally named "key"; same oracle as call_graph. quick tier samples this domain',
            floor=0.3),
]
