# -*- coding: utf-8 -*-
"""
C05 - Calendar business-day arithmetic agrees with day-by-day counting.

Reference model: ordinals (days since 0001-01-01) walked one day at a time, weekday and month read off
datetime.date.fromordinal. Nothing in the oracle touches pyg_base, dateutil or pandas.

Sub-checks
  day_laws   generated calendar configuration + up to 40 (t, n, adj-override) points in the interior of the range:
             is_bday / is_holiday / adjust f,p,m / add / bdays / inverse / 2-step-vs-table / dt_bump('nb') route
  drange_1b  generated configuration + up to 25 (t, u) pairs, t <= u: Calendar.drange(t, u, '1b')
  all_days   generated configuration, EVERY day between the first and last business day of the range x EVERY n in
             [-40, 40] whose walk stays inside the range (90-200 day ranges in the quick tier, 1-2.2 years in thorough)
  session    2-3 calendars over one range and under one key (other weekend / a few other holidays / other adj / equal / a copy), built at
             different moments of one history of questions about the same few date objects; argument lists shared between constructors;
             every answer judged by the model of the calendar that was asked (state carried between calls, appendix classes 11, 12, 14)
  registry   state machine on calendar(key, ...): register / re-register / fetch / populate, compared with the
             last registration after every step

Every date goes into the library through _tval / _hval (raw type of the value: datetime, pd.Timestamp, datetime.date, with a time of day);
the model only ever sees the ordinal of the day.
"""
import datetime
import os

from hypothesis import strategies as st

from pv.core import Sub, MachineSub, HarnessError, call, call_fuel, check

ASSUMPTIONS = [
    'holidays are datetime.datetime or pd.Timestamp at midnight, also both kinds in one list (the form of the class docstring, `.do(dt, "date")`), passed as a list, a tuple, '
    'dict keys, a bare datetime (one holiday) or None (no holiday) - every container as_list() unpacks; they may be unsorted, hold duplicates, weekend days and days '
    'outside [t0, t1]. A dict or a set of holidays raises TypeError in the constructor (its docstring asks for a list): not generated',
    'holidays given as datetime.date or numpy.datetime64 are silently ignored by the library (Calendar.__init__ keeps the entries as dict keys and is_bday looks '
    'ymd(date), a datetime, up): reported as a defect against "for any holiday set", generated only with PV_C05_INCLUDE_DATE_HOLIDAYS=1. Strings, ints and datetimes '
    'with a time of day are ignored in the same way; they are not generated at all (the docstring example converts its strings with dt first)',
    't ("every day t") is passed as datetime.datetime, pd.Timestamp or datetime.date at midnight, and - a fifth of the points - as datetime / Timestamp with a time of day '
    '(00:00:00.000001, 06:30, 12:00, 23:59:59.999999): every law is then about the DAY of t, answers must be datetimes at midnight, and the inverse law demands '
    'add(add(t, n), -n) == the day of t. numpy.datetime64 is not generated for t (is_bday, and adjust under "m", raise AttributeError on it; the docstrings ask for a datetime)',
    'n is a python int or the same number as numpy.int64; dt_bump gets "nb", "nB", and "+nb" for n > 0 ("+0b" / "-0b" have a meaning of their own in the code - adjust '
    'forward / backward first - that the statement does not mention: not generated)',
    't0, t1 are passed as datetime.datetime, datetime.date or pd.Timestamp at midnight. A t0 with a time of day makes the lookup tables start at that time, so that every add(|n|>1) / '
    'bdays / drange raises KeyError: reported, generated only with PV_C05_INCLUDE_RANGE_TOD=1 (the quantifier does not list the range among the configuration choices)',
    'add/bdays/inverse/2-step laws are demanded only where the whole reference walk (start adjust(t), |n| business days, and the walk back) '
    'stays between the first and the last business day of [t0, t1] (these two days included: n is clipped so that the walk just fits); outside it '
    'the statement defines no value',
    'is_bday/is_holiday/adjust are demanded for every day between the first and the last business day of the range (all_days) so that '
    'adjust never has to leave the range',
    'drange(t, u, "1b") is demanded for t <= u only (for t > u the statement does not say whether the answer is empty or descending); the endpoints come in the raw types of t, '
    'with times of day such that t <= u holds for the instants as well (12:00 to 00:00 two days later, 23:59 to 06:30 of the next day, one object for both)',
    'the explicit adj= argument of add/bdays/dt_bump is treated as a second spelling of the configuration adj; dt_bump(t, "nb") is only a route into add; '
    'adj is spelt f/F/following, p/P/previous, m/M/modified/"modified following"/MF (what the constructor docstring and adjust() accept); '
    'adjust([t1, t2, ..], adj) and adjust({k: t}, adj) are treated as the same function applied date by date (0, 1 or up to 40 dates; a tuple may come back as tuple or list; '
    'the same container object is passed to two calls and both are judged by what the caller put into it). add(<timeseries>, n) re-indexes and aggregates VALUES, which the '
    'statement (about a day t) does not describe: not checked',
    'session: Calendar(cal) is taken to be a calendar of the same configuration as cal; calendars of one session share key and range on purpose and are built directly '
    '(Calendar(key, ...)), not through the registry - what calendar(key) returns is the business of the registry sub-check',
    'drange is called with the bump "1b" exactly as in the statement (with "1B" Calendar.drange falls through to the plain weekday drange and ignores '
    'the holidays - reported as an observation, not checked)',
    'registry: the table path (add(+4), bdays) is compared only for registrations that passed a small explicit t0/t1 (the default 1900-2300 table costs seconds to build); registrations without t0/t1 are compared on is_bday/is_holiday/adjust/add(+-1); a re-registration that '
    'omits weekend= may keep the old weekend or fall back to the default [5, 6] - either is accepted, the holidays must be the new ones; '
    'calendar(<Calendar object>, holidays=h) is called with non-empty h only (the code spells "not given" as falsy); fetching a key that was never registered '
    'is modelled as registering a calendar without holidays and with the default weekend (what calendar(key) documents: "construct a new one")',
    'weekend is one of [5,6], [4,5], [6], [] as in the quantifier, spelt as list, tuple, reversed list, list with a repeated entry, list of numpy ints, '
    'range, or a bare int for [6] (a set is wrapped by as_list into [set] and silently means "no weekend": not generated); runs of holidays are 1-40 days or '
    'one whole calendar month +-3 days, random density up to ~63% of all days; ranges are 500-1095 days, one in ten 2400-3650 days',
]

WEEKENDS = [[5, 6], [4, 5], [6], []]
# spellings of the adjustment convention that Calendar documents / accepts ('f'ollowing, 'p'revious, 'm'odified following)
ADJ_SPELL = {'f': ['f', 'f', 'F', 'following', 'Following'], 'p': ['p', 'p', 'P', 'previous', 'Previous'],
             'm': ['m', 'm', 'M', 'modified', 'modified following', 'MF']}


def _letter(a):
    return a[0].lower()
BASE = datetime.date(1996, 1, 1).toordinal()
NMAX = 40

# input classes that are generated only on request (the library does not handle them today; see ASSUMPTIONS and the report)
INCLUDE_DATE_HOLIDAYS = os.environ.get('PV_C05_INCLUDE_DATE_HOLIDAYS', '') == '1'     # holidays given as datetime.date / numpy datetime64
INCLUDE_RANGE_TOD = os.environ.get('PV_C05_INCLUDE_RANGE_TOD', '') == '1'             # calendar range starting at a time of day (t0 = day 12:00)

# times of day (h, m, s, microsecond) in increasing order: one microsecond after midnight, the morning, noon, the last microsecond of the day
TODS = [[0, 0, 0, 1], [6, 30, 0, 0], [12, 0, 0, 0], [23, 59, 59, 999999]]
T_FORMS = ['dt', 'ts', 'date', 'tod', 'ts_tod']


def _tval(o, form='dt', tod=2):
    """the day with ordinal o in one of the raw types a caller may hold it in (midnight unless the form carries a time of day)"""
    if form == 'dt' or form is None:
        return datetime.datetime.fromordinal(o)
    if form == 'date':
        return datetime.date.fromordinal(o)
    h, m, s_, us = TODS[tod]
    if form == 'tod':
        return datetime.datetime.fromordinal(o).replace(hour=h, minute=m, second=s_, microsecond=us)
    import pandas as pd
    if form == 'ts':
        return pd.Timestamp(datetime.datetime.fromordinal(o))
    if form == 'ts_tod':
        return pd.Timestamp(datetime.datetime.fromordinal(o).replace(hour=h, minute=m, second=s_, microsecond=us))
    raise HarnessError('bad date form %r' % (form,))


def _choices(**lists):
    """one integer draw that stands for an independent, uniform choice from each of the lists (five draws per point would eat hypothesis' entropy budget for the case)"""
    names = sorted(lists)
    total = 1
    for k in names:
        total *= len(lists[k])

    def decode(i):
        res = {}
        for k in names:
            res[k] = lists[k][i % len(lists[k])]
            i //= len(lists[k])
        return res
    return st.integers(0, total - 1).map(decode)


def _tform_txt(form, tod=2):
    if form in (None, 'dt'):
        return ''
    return {'ts': ' as pd.Timestamp', 'date': ' as datetime.date', 'tod': ' at %02i:%02i:%02i.%06i' % tuple(TODS[tod]),
            'ts_tod': ' as pd.Timestamp at %02i:%02i:%02i.%06i' % tuple(TODS[tod])}[form]


def _hval(o, j, htype):
    """the j-th entry of the holiday list, for the day with ordinal o"""
    if htype == 'dt' or htype is None:
        return datetime.datetime.fromordinal(o)
    if htype == 'ts' or (htype == 'mixed' and j % 2 == 1):
        import pandas as pd
        return pd.Timestamp(datetime.datetime.fromordinal(o))
    if htype == 'mixed':
        return datetime.datetime.fromordinal(o)
    if htype in ('date', 'np64', 'mixed_date'):          # INCLUDE_DATE_HOLIDAYS only
        k = {'date': 1, 'np64': 2, 'mixed_date': j % 3}[htype]
        if k == 0:
            return datetime.datetime.fromordinal(o)
        if k == 1:
            return datetime.date.fromordinal(o)
        import numpy as np
        return np.datetime64(datetime.date.fromordinal(o).isoformat(), 'D')
    raise HarnessError('bad holiday type %r' % (htype,))


# calendar boundary days (appendix class 19): as first / last day of the range and as start values t
BKINDS = ['1jan', '31dec', '29feb', '28feb_nonleap', '30th', '31st']


def _bkinds(o):
    d = datetime.date.fromordinal(o)
    k = []
    if (d.month, d.day) == (1, 1):
        k.append('1jan')
    if (d.month, d.day) == (12, 31):
        k.append('31dec')
    if (d.month, d.day) == (2, 29):
        k.append('29feb')
    if (d.month, d.day) == (2, 28) and datetime.date.fromordinal(o + 1).month == 3:
        k.append('28feb_nonleap')
    if d.day == 30:
        k.append('30th')
    if d.day == 31:
        k.append('31st')
    return k


_BK = {}


def _days_of_kind(kind, lo, hi):
    res = []
    for o in range(lo, hi + 1):
        k = _BK.get(o)
        if k is None:
            k = _BK[o] = _bkinds(o)
        if kind in k:
            res.append(o)
    return res


# ----------------------------------------------------------------------------- reference model (plain python)

def _wd(o):
    return datetime.date.fromordinal(o).weekday()


def _month(o):
    return datetime.date.fromordinal(o).month


def _mk(o):
    return datetime.datetime.fromordinal(o)


class Ref(object):
    """day-by-day model of a calendar; every date is an ordinal"""

    def __init__(self, t0, t1, weekend, hols):
        self.t0, self.t1 = t0, t1
        self.weekend = set(weekend)
        self.hol = set(hols)
        # the business days of the range, found by visiting every day once
        self.B = []
        o = t0
        while o <= t1:
            if self.isb(o):
                self.B.append(o)
            o += 1
        self.idx = {o: i for i, o in enumerate(self.B)}

    def isb(self, o):
        return _wd(o) not in self.weekend and o not in self.hol

    def adj(self, o, a):
        if a == 'f':
            while not self.isb(o):
                o += 1
            return o
        if a == 'p':
            while not self.isb(o):
                o -= 1
            return o
        if a == 'm':
            f = self.adj(o, 'f')
            if _month(f) != _month(o):
                return self.adj(o, 'p')
            return f
        raise HarnessError('bad adj %r' % (a,))

    def add(self, o, n, a):
        """walk |n| business days from adj(o), one day at a time"""
        o = self.adj(o, a)
        step = 1 if n > 0 else -1
        for _ in range(abs(n)):
            o += step
            while not self.isb(o):
                o += step
                if o < self.t0 - 400 or o > self.t1 + 400:
                    raise HarnessError('reference walk left the range: the generator must keep walks inside')
        return o

    def between(self, a, b):
        res = []
        o = a
        while o <= b:
            if self.isb(o):
                res.append(o)
            o += 1
        return res

    def hol_run2_between(self, a, b):
        """is there a pair of consecutive holiday-set days strictly between a and b"""
        lo, hi = min(a, b), max(a, b)
        o = lo + 1
        while o + 1 < hi:
            if o in self.hol and o + 1 in self.hol:
                return True
            o += 1
        return False


def _expand(cfg):
    hols = list(cfg['hols'])
    for s, l in cfg['runs']:
        hols.extend(range(s, s + l))
    return hols


def _ref(cfg):
    return Ref(cfg['t0'], cfg['t1'], cfg['weekend'], _expand(cfg))


def _hols_list(cfg):
    htype = cfg.get('htype', 'dt')
    return [_hval(o, j, htype) for j, o in enumerate(_expand(cfg))]


def _range_args(cfg):
    rform = cfg.get('rform', 'dt')
    t0, t1 = _tval(cfg['t0'], rform), _tval(cfg['t1'], rform)
    if cfg.get('t0_tod') is not None:                # INCLUDE_RANGE_TOD only
        t0 = _tval(cfg['t0'], 'tod', cfg['t0_tod'])
    return t0, t1


def _cal(cfg, key=None, hols=None, weekend=None):
    """builds the Calendar of a configuration; hols / weekend: ready-made argument objects to pass instead of fresh ones (session)"""
    from pyg_base import Calendar
    hform = cfg.get('hform', 'list')
    if hols is not None:
        hform = 'list'
    else:
        hols = _hols_list(cfg)
    if hform == 'tuple':
        hols = tuple(hols)
    elif hform == 'keys':
        hols = dict.fromkeys(hols, 'a holiday').keys()
    elif hform == 'auto':                      # None for no holidays, a bare datetime for a single one
        hols = None if len(hols) == 0 else hols[0] if len(hols) == 1 else hols
    wform = cfg.get('wform', 'list')
    w = list(cfg['weekend'])
    if weekend is not None:
        pass
    elif wform == 'tuple':
        weekend = tuple(w)
    elif wform == 'int':
        weekend = w[0]
    elif wform == 'rev':
        weekend = w[::-1]
    elif wform == 'dup':
        weekend = w + w[-1:]
    elif wform == 'np':
        import numpy as np
        weekend = [np.int64(i) for i in w]
    elif wform == 'range':
        weekend = range(w[0], w[-1] + 1)
    else:
        weekend = w
    adj = cfg.get('adj_spelling', cfg['adj'])
    t0, t1 = _range_args(cfg)
    if adj is None:          # adj left out: the documented default is 'm'
        if cfg['adj'] != 'm':
            raise HarnessError('adj can only be omitted for a modified-following configuration')
        return call('Calendar(%r, holidays as %s of %s, weekend=%r, t0, t1 as %s) without adj' % (key, hform, cfg.get('htype', 'dt'), weekend, cfg.get('rform', 'dt')),
                    Calendar, key, hols, weekend, t0, t1)
    return call('Calendar(%r, holidays as %s of %s, weekend=%r, t0, t1 as %s, adj=%r)' % (key, hform, cfg.get('htype', 'dt'), weekend, cfg.get('rform', 'dt'), adj),
                Calendar, key, hols, weekend, t0, t1, adj)


FUEL = 2000000      # function calls granted to one add / dt_bump where a wrong start day would make the library's "skip the holidays" loop spin for ever


def _call0(what, n, f, *args, **kwargs):
    """add(t, 0) steps by 0 days "until it is on a business day": it never returns when adjust() handed it a non-business day, so n == 0 runs under the fuel guard"""
    if n == 0:
        return call_fuel(what, FUEL, f, *args, **kwargs)
    return call(what, f, *args, **kwargs)


def _is_dt(x, o):
    return isinstance(x, datetime.datetime) and x == _mk(o)


def _d(o):
    return datetime.date.fromordinal(o).isoformat() + ['Mo', 'Tu', 'We', 'Th', 'Fr', 'Sa', 'Su'][_wd(o)]


def _show(x):
    if isinstance(x, datetime.datetime):
        return x.strftime('%Y-%m-%d') + ['Mo', 'Tu', 'We', 'Th', 'Fr', 'Sa', 'Su'][x.weekday()] + ('' if x == datetime.datetime(x.year, x.month, x.day) else x.strftime('T%H:%M:%S'))
    return repr(x)[:120]


def _cfg_txt(cfg):
    return 'weekend=%s adj=%s range=%s..%s holidays=%i' % (cfg['weekend'], cfg['adj'], _d(cfg['t0']), _d(cfg['t1']), len(set(_expand(cfg))))


# ----------------------------------------------------------------------------- generator of configurations

def _month_ends(t0, t1):
    res = []
    d = datetime.date.fromordinal(t0)
    y, m = d.year, d.month
    while True:
        y2, m2 = (y, m + 1) if m < 12 else (y + 1, 1)
        e = datetime.date(y2, m2, 1).toordinal() - 1
        if e > t1:
            break
        if e >= t0:
            res.append(e)
        y, m = y2, m2
    return res


@st.composite
def _cfg(draw, lo_days, hi_days, max_runs=4, min_runs=0, long_ranges=False):
    t0 = BASE + draw(st.integers(0, 3000))
    # two in five ranges start on a calendar boundary day (1 Jan, 31 Dec, 29 Feb, 28 Feb of a non-leap year, a 30th, a 31st) ...
    snap0 = draw(st.sampled_from([None] * 9 + BKINDS))
    if snap0 is not None:
        t0 = draw(st.sampled_from(_days_of_kind(snap0, BASE, BASE + 3000)))
    long_range = long_ranges and draw(st.integers(0, 9)) == 9      # a share of 7-10 year ranges (large lookup tables)
    lo_, hi_ = (2400, 3650) if long_range else (lo_days, hi_days)
    ndays = draw(st.integers(lo_, hi_))
    # ... and two in five end on one (where the permitted lengths contain such a day)
    snap1 = draw(st.sampled_from([None] * 9 + BKINDS))
    if snap1 is not None:
        cands = _days_of_kind(snap1, t0 + lo_, t0 + hi_)
        if cands:
            ndays = draw(st.sampled_from(cands)) - t0
    t1 = t0 + ndays
    weekend = draw(st.sampled_from(WEEKENDS))
    adj = draw(st.sampled_from(['m', 'f', 'p']))
    adj_spelling = draw(st.sampled_from(ADJ_SPELL[adj] + ([None, None] if adj == 'm' else [])))     # None: adj not passed at all (default 'm')
    pct = draw(st.sampled_from([0, 1, 10] if long_range else [0, 1, 10, 40, 50, 80]))
    k = draw(st.integers(0, ndays * pct // 80)) if pct else 0     # duplicates collapse: 80 -> ~63% of days at most
    wforms = ['list', 'tuple']
    if len(weekend) == 1:
        wforms.append('int')
    if len(weekend) == 2:
        wforms.extend(['rev', 'rev'])
    if len(weekend) >= 1:
        wforms.extend(['dup', 'np', 'range'])
    wform = draw(st.sampled_from(wforms))
    hform = draw(st.sampled_from(['list', 'list', 'tuple', 'keys', 'auto']))
    # raw type of the holiday entries: datetime, pd.Timestamp, or both in one list (a day listed twice may come once as each)
    htype = draw(st.sampled_from(['dt'] * 7 + ['mixed', 'mixed', 'ts'] + (['date', 'np64', 'mixed_date'] if INCLUDE_DATE_HOLIDAYS else [])))
    # raw type of the range arguments t0, t1
    rform = draw(st.sampled_from(['dt'] * 8 + ['date', 'ts']))
    t0_tod = draw(st.sampled_from([None, None, 2, 0])) if INCLUDE_RANGE_TOD else None
    hols = [t0 + i for i in draw(st.lists(st.integers(0, ndays), min_size=k, max_size=k))]
    ends = _month_ends(t0, t1)
    runs = []
    for _ in range(draw(st.integers(min_runs, max_runs))):
        kind = draw(st.sampled_from(['any', 'month_end', 'weekend', 'month_end', 'whole_month', 'whole_month', 'year_end', 'leap_day', 'leap_day']))
        l = draw(st.one_of(st.integers(1, 7), st.integers(1, 7), st.integers(8, 40)))
        if kind == 'whole_month' and len(ends) >= 2:
            j = draw(st.integers(0, len(ends) - 2))
            s = ends[j] + 1 - draw(st.integers(0, 3))              # from (up to 3 days before) the 1st ...
            l = ends[j + 1] + draw(st.integers(0, 3)) - s + 1      # ... to (up to 3 days after) the last day of one calendar month
        elif kind == 'year_end' and [e for e in ends if _month(e) == 12]:
            e = draw(st.sampled_from([e for e in ends if _month(e) == 12]))
            s = e + draw(st.integers(-min(l, 3), 1))               # a run at / across 31 Dec - 1 Jan
            l = max(l, 1) if s <= e + 1 < s + l or s <= e < s + l else e + 1 - s + 1
        elif kind == 'leap_day' and [e for e in ends if _month(e) == 2 and datetime.date.fromordinal(e).day == 29]:
            e = draw(st.sampled_from([e for e in ends if _month(e) == 2 and datetime.date.fromordinal(e).day == 29]))
            s = e - draw(st.integers(0, l - 1))                    # a run containing 29 Feb
        elif kind == 'month_end' and ends:
            e = ends[draw(st.integers(0, len(ends) - 1))]
            s = e - draw(st.integers(0, l - 1))          # the run contains the last day of the month
        elif kind == 'weekend':
            w = draw(st.integers(0, ndays // 7))
            fri = t0 + 7 * w + (4 - _wd(t0)) % 7
            s = fri - draw(st.integers(-3, l))           # around Fri/Sat/Sun/Mon
        else:
            s = t0 + draw(st.integers(0, ndays))
        runs.append([s, l])
    cfg = dict(t0=t0, t1=t1, weekend=list(weekend), wform=wform, hform=hform, adj=adj, adj_spelling=adj_spelling, hols=hols, runs=runs,
               htype=htype, rform=rform)
    if t0_tod is not None:
        cfg['t0_tod'] = t0_tod
    return cfg


def _interior(ref, margin):
    """[lo, hi] ordinals such that every walk of <= margin business days from adj(t) stays inside ref.B, or None"""
    B = ref.B
    if len(B) < 2 * margin + 6:
        return None
    return B[margin + 1], B[-margin - 2]


@st.composite
def _day_case(draw, tier):
    cfg = draw(_cfg(500, 1095, long_ranges=True) if tier == 'quick' else _cfg(730, 1095, long_ranges=True))
    ref = _ref(cfg)
    io = _interior(ref, NMAX + 1)
    if io is None:      # rare: needs > 60% density + 4 runs on >= 500 days; kept so that the domain is total
        cfg = dict(cfg, hols=[], runs=[[s, min(l, 7)] for s, l in cfg['runs']])
        ref = _ref(cfg)
        io = _interior(ref, NMAX + 1)
    lo, hi = io
    special = sorted(set(o for o in _expand(cfg) if lo <= o <= hi))
    ends = [e + d for e in _month_ends(lo + 3, hi - 3) for d in (-2, -1, 0, 1)]
    ts = [st.integers(lo, hi)]
    if special:
        ts.append(st.sampled_from(special))
        ts.append(st.sampled_from(special).map(lambda o: min(hi, o + 1)))
        ts.append(st.sampled_from(special).map(lambda o: max(lo, o - 1)))
    if ends:
        ts.append(st.sampled_from(ends))
    closed = sorted(set(o for s_, l_ in cfg['runs'] if l_ >= 28 for o in range(s_, s_ + l_) if lo <= o <= hi))
    if closed:
        ts.append(st.sampled_from(closed))      # inside a closure of a month or more: 'm' finds no business day in t's month either way
    # the very first / last business days of the range: the walk is clipped below so that it still fits
    B = ref.B
    edge = sorted(set(range(B[0], B[0] + 4)) | set(range(B[-1] - 3, B[-1] + 1)) | set([B[1], B[-2]]))
    ts.append(st.sampled_from(edge))
    # calendar boundary days as START values: 1 Jan / 31 Dec / 29 Feb / 28 Feb of a non-leap year, and the 30th / 31st of any month
    rare = sorted(set(o for k in ('1jan', '31dec', '29feb', '28feb_nonleap') for o in _days_of_kind(k, B[0], B[-1])))
    if rare:
        ts.append(st.sampled_from(rare))
    common = sorted(set(o for k in ('30th', '31st') for o in _days_of_kind(k, B[0], B[-1])))
    if common:
        ts.append(st.sampled_from(common))
    t_s = st.one_of(*ts)
    n_s = st.one_of(st.integers(-NMAX, NMAX), st.integers(-3, 3), st.sampled_from([0, NMAX, -NMAX, 1, -1]))
    a_s = st.one_of(st.none(), st.none(), st.sampled_from(ADJ_SPELL['f'] + ADJ_SPELL['p'] + ADJ_SPELL['m']))
    # how the point is spelt: raw type of t (datetime / pd.Timestamp / datetime.date / with a time of day), n as numpy integer, bump string '+nb' / 'nB'
    o_s = _choices(tf=['dt'] * 8 + ['ts', 'date', 'tod', 'tod', 'ts_tod'], tod=list(range(len(TODS))), nf=['int'] * 7 + ['np'], bf=[''] * 6 + ['+', 'B'])
    npts = draw(st.integers(1, 40))
    raw = draw(st.lists(st.tuples(t_s, n_s, a_s, o_s), min_size=npts, max_size=npts))
    pts = []
    for t, n, a, o in raw:
        i = ref.idx[ref.adj(t, _letter(a or cfg['adj']))]
        opts = {}
        if o['tf'] != 'dt':
            opts['tf'] = o['tf']
            if o['tf'] in ('tod', 'ts_tod'):
                opts['tod'] = o['tod']
        if o['nf'] != 'int':
            opts['nf'] = o['nf']
        if o['bf']:
            opts['bf'] = o['bf']
        pts.append([t, max(-i, min(len(B) - 1 - i, n)), a, opts])     # the clipping is a no-op for interior points
    # adjust(<container of dates>, adj): how many of the points go into it (0, 1, a few, all), list or tuple, and the two adj it is called with
    # ONE AFTER THE OTHER ON THE SAME CONTAINER OBJECT
    seq = dict(k=min(npts, draw(st.sampled_from([3, 3, 2, 0, 1, 1, 40, 40]))), form=draw(st.sampled_from(['list', 'list', 'tuple'])),
               adjs=[draw(a_s), draw(st.sampled_from(['f', 'p', 'm', 'P', 'following']))])
    return dict(cfg=cfg, pts=pts, seq=seq)


def _cfg_classes(cfg, ref):
    cls = ['weekend=%s' % (','.join(map(str, cfg['weekend'])) or 'none'), 'adj=' + cfg['adj']]
    days = cfg['t1'] - cfg['t0'] + 1
    frac = len([o for o in ref.hol if cfg['t0'] <= o <= cfg['t1']]) / float(days)
    cls.append('density<2%' if frac < 0.02 else 'density2-20%' if frac < 0.2 else 'density>20%')
    for s, l in cfg['runs']:
        if l >= 2 and _month(s) != _month(s + l - 1):
            cls.append('run_straddles_month_end')
            break
    for s, l in cfg['runs']:
        if any(_wd(o) in ref.weekend for o in (s - 1, s + l)):
            cls.append('run_touches_weekend')
            break
    if any(l >= 31 for s, l in cfg['runs']):
        cls.append('run>=31_days')
    allh = _expand(cfg)
    if len(allh) >= 100:
        cls.append('holiday_list>=100')
    if len(set(allh)) < len(allh):
        cls.append('holidays_duplicated')
    if allh != sorted(allh):
        cls.append('holidays_unsorted')
    dm = set((datetime.date.fromordinal(o).month, datetime.date.fromordinal(o).day) for o in ref.hol if cfg['t0'] <= o <= cfg['t1'])
    if (2, 29) in dm:
        cls.append('holiday_on_29feb')
    if (12, 31) in dm or (1, 1) in dm:
        cls.append('holiday_on_31dec_or_1jan')
    if days >= 2000:
        cls.append('range>=2000_days')
    cls.append('holidays_as=' + cfg.get('hform', 'list'))
    cls.append('weekend_as=' + cfg.get('wform', 'list'))
    sp = cfg.get('adj_spelling', cfg['adj'])
    if sp is None:
        cls.append('adj_omitted')
    elif sp != cfg['adj']:
        cls.append('adj_spelled_long_or_upper')
    ht = cfg.get('htype', 'dt')
    if ht != 'dt' and allh:
        cls.append('holidays_raw=' + ht)
        if ht == 'mixed' and len(allh) >= 2:
            cls.append('holidays_datetime_and_timestamp_in_one_list')
    if cfg.get('rform', 'dt') != 'dt':
        cls.append('range_as=' + cfg['rform'])
    if cfg.get('t0_tod') is not None:
        cls.append('range_starts_at_a_time_of_day')
    for k in _bkinds(cfg['t0']):
        cls.append('range_starts_on_' + k)
    for k in _bkinds(cfg['t1']):
        cls.append('range_ends_on_' + k)
    return cls


# ----------------------------------------------------------------------------- day_laws

def _point_laws(cal, ref, cfg, t, n, a, flags, opts=None):
    """every law of the statement at one point. a = explicit adj override or None; opts = how t and n are passed (raw types, spelling of the bump)"""
    opts = opts or {}
    eff = _letter(a or cfg['adj'])
    tf, tod = opts.get('tf', 'dt'), opts.get('tod', 2)
    T = _tval(t, tf, tod)              # the day t in the raw type of this point; every law below is about the DAY
    N = n                              # n as it is passed: a python int or the same number as numpy.int64
    if opts.get('nf') == 'np':
        import numpy as np
        N = np.int64(n)
    kw = {} if a is None else {'adj': a}
    nb = len(ref.B)
    tag = '[%s] ' % _cfg_txt(cfg)
    if opts:
        tag += '[t passed%s, n as %s] ' % (_tform_txt(tf, tod) or ' as datetime', type(N).__name__)
    isb = ref.isb(t)

    got = call('is_bday(%s)' % _d(t), cal.is_bday, T)
    check(bool(got) == isb, tag + 'is_bday(%s) = %s; day-by-day says %s (weekend day: %s, holiday: %s)',
          _d(t), got, isb, _wd(t) in ref.weekend, t in ref.hol)
    got = call('is_holiday(%s)' % _d(t), cal.is_holiday, T)
    check(bool(got) == (not isb), tag + 'is_holiday(%s) = %s; day-by-day says %s', _d(t), got, not isb)

    exp = {}
    for x in 'fpm':
        exp[x] = ref.adj(t, x)
        got = call('adjust(%s, %r)' % (_d(t), x), cal.adjust, T, x)
        check(_is_dt(got, exp[x]), tag + 'adjust(%s, %s) = %s; nearest business day by day-by-day walk is %s', _d(t), x, _show(got), _d(exp[x]))
    got = call('adjust(%s)' % _d(t), cal.adjust, T)
    check(_is_dt(got, exp[cfg['adj']]), tag + 'adjust(%s) with the calendar default adj=%s = %s; expected %s', _d(t), cfg['adj'], _show(got), _d(exp[cfg['adj']]))
    start = exp[eff]
    i = ref.idx[start]

    # add(t, n) = n-th business day from adjust(t)
    e = ref.add(t, n, eff)
    what = 'add(%s, %i%s)' % (_d(t), n, '' if a is None else ', adj=%r' % a)
    r = _call0(what, n, cal.add, T, N, **kw)
    check(_is_dt(r, e), tag + '%s = %s; walking %s business days from adjust = %s gives %s', what, _show(r), n, _d(start), _d(e))
    # bdays(t, add(t, n)) == n
    b = call('bdays(%s, %s)' % (_d(t), _show(r)), cal.bdays, T, r, **kw)
    check(b == n, tag + 'bdays(%s, %s) = %s where the second date is %s; expected %s', _d(t), _show(r), b, what, n)
    # inverse for a business day t
    if isb:
        back = _call0('add(%s, %i)' % (_show(r), -n), n, cal.add, r, -N, **kw)
        check(_is_dt(back, t), tag + 'add(add(t, %s), %s) = %s for the business day t = %s (add(t, %s) = %s)', n, -n, _show(back), _d(t), n, _show(r))
    # single-step path vs indexed path
    for s in (1, -1):
        if not 0 <= i + 2 * s < nb:
            continue                     # at the first / last business day of the range the two-step walk does not fit
        one = call('add(%s, %i)' % (_d(t), s), cal.add, T, s, **kw)
        two = call('add(add(%s, %i), %i)' % (_d(t), s, s), cal.add, one, s, **kw)
        direct = call('add(%s, %i)' % (_d(t), 2 * s), cal.add, T, 2 * s, **kw)
        check(isinstance(direct, datetime.datetime) and direct == two, tag + 'add(%s, %s) = %s but add(add(t, %s), %s) = %s (adj %s)', _d(t), 2 * s, _show(direct), s, s, _show(two), eff)
    # second route into add
    bump = '%ib' % n
    if opts.get('bf') == '+' and n > 0:
        bump = '+' + bump              # the explicit sign ('+0b' is left out: the code gives it a meaning of its own, "adjust forward")
        flags.add('pt_bump_spelled_with_plus')
    elif opts.get('bf') == 'B':
        bump = bump.upper()
        flags.add('pt_bump_spelled_upper')
    if a is None:
        r2 = _call0('dt_bump(%s, %r)' % (_d(t), bump), n, cal.dt_bump, T, bump)
    else:
        r2 = _call0('dt_bump(%s, %r, %r)' % (_d(t), bump, a), n, cal.dt_bump, T, bump, a)
    check(_is_dt(r2, e), tag + 'add reached through dt_bump(%s, %s, adj=%s) = %s; walking from adjust = %s gives %s', _d(t), bump, a, _show(r2), _d(start), _d(e))

    if tf != 'dt':
        flags.add('pt_t_as=' + {'ts': 'timestamp', 'date': 'date', 'tod': 'datetime_with_time_of_day', 'ts_tod': 'timestamp_with_time_of_day'}[tf])
        if tf in ('tod', 'ts_tod') and not isb:
            flags.add('pt_time_of_day_on_nonbday')
    if opts.get('nf') == 'np':
        flags.add('pt_n_as_numpy_int')
        if abs(n) > 1:
            flags.add('pt_n_as_numpy_int_table_path')
    for k in _bkinds(t):
        flags.add('pt_t_on_' + k)
        if not isb:
            flags.add('pt_nonbday_t_on_' + k)
    if not isb:
        flags.add('pt_nonbday')
        if t in ref.hol and _wd(t) not in ref.weekend:
            flags.add('pt_holiday_weekday')
    if eff == 'm' and exp['m'] != exp['f']:
        flags.add('pt_month_end_rule')
    if abs(n) > 1:
        flags.add('pt_table_path')
    else:
        flags.add('pt_loop_path')
    if n < 0:
        flags.add('pt_negative_n')
    if a is not None and eff != cfg['adj']:
        flags.add('pt_adj_override')
    if a is not None and a != eff:
        flags.add('pt_adj_override_spelled_long_or_upper')
    if n == 0 and not isb:
        flags.add('pt_n=0_nonbday')
    if abs(n) == NMAX:
        flags.add('pt_|n|=40')
    if i == 0 or i + n == 0:
        flags.add('pt_touches_first_bday_of_range')
    if i == nb - 1 or i + n == nb - 1:
        flags.add('pt_touches_last_bday_of_range')
    if eff == 'm' and exp['m'] != exp['f'] and _month(exp['p']) != _month(t):
        flags.add('pt_month_closed_both_ways')
    crosses = ref.hol_run2_between(min(start, e) - 1, max(start, e) + 1) if n else False
    if crosses:
        flags.add('pt_crosses_run>=2')
    return (not isb) or crosses or (eff == 'm' and exp['m'] != exp['f'])


def run_day_laws(spec):
    cfg = spec['cfg']
    ref = _ref(cfg)
    B = ref.B
    pts = [list(p) + [None] * (4 - len(p)) for p in spec['pts']]           # [t, n, adj override, options]; older replay files have three entries
    for t, n, a, opts in pts:
        if len(B) < 4 or not (B[0] <= t <= B[-1] and abs(n) <= NMAX and 0 <= ref.idx[ref.adj(t, _letter(a or cfg['adj']))] + n < len(B)):
            raise HarnessError('day_laws spec has a point whose walk leaves the business days of the range')
    cal = _cal(cfg)
    flags = set()
    nt = 0
    for t, n, a, opts in pts:
        nt += bool(_point_laws(cal, ref, cfg, t, n, a, flags, opts))
    # the vectorised spelling adjust([t1, t2, ..], adj) / adjust({k: t}, adj) is the same function applied to each date.
    # The container is built ONCE and handed to both calls: the second call is judged by what the caller put into it
    seq = spec.get('seq') or dict(k=3, form='list', adjs=[None, pts[0][2]])
    sel = pts[:seq['k']]
    ts = [p[0] for p in sel]
    objs = [_tval(p[0], (p[3] or {}).get('tf', 'dt'), (p[3] or {}).get('tod', 2)) for p in sel]
    container = tuple(objs) if seq['form'] == 'tuple' else objs
    mapping = dict(('k%i' % j, o) for j, o in enumerate(objs))
    tag = '[' + _cfg_txt(cfg) + '] '
    for j, a in enumerate(seq['adjs']):
        eff = _letter(a or cfg['adj'])
        nth = ' (call %i on the same container object)' % (j + 1)
        got = call('adjust(%s of %i dates, %r)%s' % (seq['form'], len(ts), a, nth), cal.adjust, container, a)
        ok_type = isinstance(got, list) if seq['form'] == 'list' else isinstance(got, (list, tuple))
        check(ok_type and len(got) == len(ts) and all(_is_dt(g, ref.adj(t, eff)) for g, t in zip(got, ts)),
              tag + 'adjust(%s of %s, %s)%s = %s; date by date the answer is %s', seq['form'], [_d(t) for t in ts], a, nth,
              [_show(g) for g in got] if isinstance(got, (list, tuple)) else got, [_d(ref.adj(t, eff)) for t in ts])
        got = call('adjust(dict of %i dates, %r)%s' % (len(ts), a, nth), cal.adjust, mapping, a)
        check(isinstance(got, dict) and sorted(got) == sorted('k%i' % j_ for j_ in range(len(ts))) and all(_is_dt(got['k%i' % j_], ref.adj(t, eff)) for j_, t in enumerate(ts)),
              tag + 'adjust(dict of %s, %s)%s = %s; date by date the answer is %s', [_d(t) for t in ts], a, nth, got, [_d(ref.adj(t, eff)) for t in ts])
    flags.add('adjust_seq_len=%s' % (len(ts) if len(ts) < 2 else '2-9' if len(ts) < 10 else '>=10'))
    if seq['form'] == 'tuple':
        flags.add('adjust_seq_tuple')
    e0, e1 = [[ref.adj(t, _letter(a or cfg['adj'])) for t in ts] for a in seq['adjs'][:2]] if len(seq['adjs']) >= 2 else ([], [])
    if e0 != e1:
        flags.add('adjust_same_container_twice_other_answer')     # a callee that wrote its first answer into the caller's container would show here
    if len(set(type(o) for o in objs)) > 1:
        flags.add('adjust_seq_mixed_raw_types')
    return dict(nt=nt > 0, cls=_cfg_classes(cfg, ref) + sorted(flags))


# ----------------------------------------------------------------------------- drange_1b

@st.composite
def _drange_case(draw, tier):
    cfg = draw(_cfg(120, 500))
    ref = _ref(cfg)
    if len(ref.B) < 2:
        cfg = dict(cfg, hols=[], runs=[])
        ref = _ref(cfg)
    lo, hi = ref.B[0], ref.B[-1]
    special = sorted(set(o for o in _expand(cfg) if lo <= o <= hi))
    t_s = st.one_of(st.integers(lo, hi), st.sampled_from(special), st.sampled_from([lo, lo + 1, hi - 1, hi])) if special else st.one_of(st.integers(lo, hi), st.sampled_from([lo, hi]))
    span = st.one_of(st.integers(0, 12), st.integers(0, 90), st.integers(0, hi - lo), st.sampled_from([0, 0, hi - lo]))
    npairs = draw(st.integers(1, 25))
    # how the endpoints are passed: raw type (datetime / pd.Timestamp / datetime.date), with a time of day (12:00 to 00:00 two days later: not a whole number
    # of days apart; 18:00 to 06:30 of the next day: less than one day apart), and - for t == u - ONE object passed for both
    forms = ['dt'] * 8 + ['ts', 'date', 'tod', 'tod', 'ts_tod']
    o_s = _choices(tf=forms, uf=forms, tt=list(range(len(TODS))), ut=list(range(len(TODS))), same=[False, False, True])
    raw = draw(st.lists(st.tuples(t_s, span, o_s), min_size=npairs, max_size=npairs))
    pairs = []
    for t, sp, o in raw:
        u = min(hi, t + sp)
        opts = {}
        if o['tf'] != 'dt':
            opts['tf'] = o['tf']
            if o['tf'] in ('tod', 'ts_tod'):
                opts['tt'] = o['tt']
        if t == u and o['same']:
            opts['same'] = True                      # drange(T, T, '1b') with one object
        elif t == u:
            opts['uf'] = o['tf']                     # the same instant in a second object (t <= u must hold for the instants too)
            if 'tt' in opts:
                opts['ut'] = opts['tt']
        elif o['uf'] != 'dt':
            opts['uf'] = o['uf']
            if o['uf'] in ('tod', 'ts_tod'):
                opts['ut'] = o['ut']
        pairs.append([t, u, opts])
    return dict(cfg=cfg, pairs=pairs)


def _drange_law(cal, ref, cfg, t, u, flags, opts=None):
    opts = opts or {}
    tag = '[%s] ' % _cfg_txt(cfg)
    a, b = ref.adj(t, cfg['adj']), ref.adj(u, cfg['adj'])
    exp = ref.between(a, b)
    tf, tt, uf, ut = opts.get('tf', 'dt'), opts.get('tt', 2), opts.get('uf', 'dt'), opts.get('ut', 2)
    T = _tval(t, tf, tt)
    if opts.get('same'):
        if t != u:
            raise HarnessError('one object for both endpoints needs t == u')
        U, uf, ut = T, tf, tt
    else:
        U = _tval(u, uf, ut)
    tods = [TODS[x] if f in ('tod', 'ts_tod') else [0, 0, 0, 0] for f, x in ((tf, tt), (uf, ut))]
    if (t, tods[0]) > (u, tods[1]):
        raise HarnessError('drange_1b endpoints must be in order as instants as well')
    what = "drange(%s%s, %s%s, '1b')" % (_d(t), _tform_txt(tf, tt), _d(u), ' (the same object)' if opts.get('same') else _tform_txt(uf, ut))
    got = call(what, cal.drange, T, U, '1b')
    check(isinstance(got, list) and all(isinstance(g, datetime.datetime) for g in got), tag + '%s returned %s', what, got)
    gos = [g.toordinal() if g == _mk(g.toordinal()) else g for g in got]
    if gos != exp:
        missing = [_d(o) for o in exp if o not in gos][:5]
        extra = [_show(g) for g, o in zip(got, gos) if o not in set(exp)][:5]
        inc = all(x < y for x, y in zip(got[:-1], got[1:]))
        check(False, tag + '%s has %s dates; the business days between the adjusted endpoints %s and %s are %s. missing %s extra %s increasing=%s',
              what, len(got), _d(a), _d(b), len(exp), missing, extra, inc)
    nonb = not ref.isb(t) or not ref.isb(u)
    if tods[0] != [0, 0, 0, 0] or tods[1] != [0, 0, 0, 0]:
        flags.add('endpoint_with_time_of_day')
        if tods[0] != tods[1] and t < u:
            flags.add('endpoints_not_whole_days_apart')
            if nonb:
                flags.add('endpoints_not_whole_days_apart_nonbday')
        if u == t + 1 and tods[0] > tods[1]:
            flags.add('endpoints_less_than_a_day_apart')
    if 'ts' in (tf[:2], uf[:2]) or 'date' in (tf, uf):
        flags.add('endpoint_as_timestamp_or_date')
    if opts.get('same'):
        flags.add('one_object_for_both_endpoints')
        if nonb:
            flags.add('one_object_for_both_endpoints_nonbday')
    if nonb:
        flags.add('endpoint_nonbday')
    if not ref.isb(t) and not ref.isb(u):
        flags.add('both_endpoints_nonbday')
    if len(exp) == 0:
        flags.add('empty_result')
    if len(exp) == 1:
        flags.add('single_day')
    if t == u and not ref.isb(t):
        flags.add('same_day_nonbday')
    if len(exp) >= 100:
        flags.add('result>=100_days')
    if a == ref.B[0]:
        flags.add('starts_at_first_bday_of_range')
    if b == ref.B[-1]:
        flags.add('ends_at_last_bday_of_range')
    if t < u and not any(ref.isb(o) for o in range(t, u + 1)):
        flags.add('span_inside_one_closure')
    inner_hol = any(o in ref.hol and _wd(o) not in ref.weekend for o in range(a, b + 1))
    if inner_hol:
        flags.add('holiday_inside')
    if cfg['adj'] == 'm' and (ref.adj(t, 'm') != ref.adj(t, 'f') or ref.adj(u, 'm') != ref.adj(u, 'f')):
        flags.add('endpoint_month_end_rule')
    return nonb or inner_hol


def run_drange(spec):
    cfg = spec['cfg']
    ref = _ref(cfg)
    pairs = [list(p) + [None] * (3 - len(p)) for p in spec['pairs']]        # [t, u, options]; older replay files have two entries
    if len(ref.B) < 2 or not all(ref.B[0] <= t <= u <= ref.B[-1] for t, u, _ in pairs):
        raise HarnessError('drange_1b spec has an endpoint outside [first, last] business day or t > u')
    cal = _cal(cfg)
    flags = set()
    nt = 0
    for t, u, opts in pairs:
        nt += bool(_drange_law(cal, ref, cfg, t, u, flags, opts))
    return dict(nt=nt > 0, cls=_cfg_classes(cfg, ref) + sorted(flags))


# ----------------------------------------------------------------------------- all_days (complete enumeration of one configuration)

@st.composite
def _all_case(draw, tier):
    # at least one run: even the simplest configuration hypothesis can draw has a holiday
    cfg = draw(_cfg(90, 200, max_runs=3, min_runs=1) if tier == 'quick' else _cfg(365, 800, min_runs=1))
    ref = _ref(cfg)
    if len(ref.B) < 4:
        cfg = dict(cfg, hols=[], runs=[[s, 1] for s, l in cfg['runs']])
    return dict(cfg=cfg)


def run_all_days(spec):
    cfg = spec['cfg']
    ref = _ref(cfg)
    B, idx = ref.B, ref.idx
    if len(B) < 4:
        raise HarnessError('all_days spec has fewer than 4 business days')
    cal = _cal(cfg)
    adj = cfg['adj']
    tag = '[%s] ' % _cfg_txt(cfg)
    nb = len(B)
    flags = set()
    npts = 0
    first, last = B[0], B[-1]
    for t in range(first, last + 1):
        T = _mk(t)
        isb = ref.isb(t)
        got = call('is_bday(%s)' % _d(t), cal.is_bday, T)
        check(bool(got) == isb, tag + 'is_bday(%s) = %s; day-by-day says %s', _d(t), got, isb)
        got = call('is_holiday(%s)' % _d(t), cal.is_holiday, T)
        check(bool(got) == (not isb), tag + 'is_holiday(%s) = %s; day-by-day says %s', _d(t), got, not isb)
        exp = {}
        for x in 'fpm':
            exp[x] = ref.adj(t, x)
            got = call('adjust(%s, %r)' % (_d(t), x), cal.adjust, T, x)
            check(_is_dt(got, exp[x]), tag + 'adjust(%s, %s) = %s; day-by-day walk gives %s', _d(t), x, _show(got), _d(exp[x]))
        if exp['m'] != exp['f']:
            flags.add('month_end_rule')
        i = idx[exp[adj]]
        for n in range(max(-NMAX, -i), min(NMAX, nb - 1 - i) + 1):
            e = B[i + n]
            r = call('add(%s, %i)' % (_d(t), n), cal.add, T, n)
            check(_is_dt(r, e), tag + 'add(%s, %s) = %s; the %s-th business day from adjust = %s is %s', _d(t), n, _show(r), n, _d(B[i]), _d(e))
            b = call('bdays(%s, %s)' % (_d(t), _show(r)), cal.bdays, T, r)
            check(b == n, tag + 'bdays(%s, add(t, %s) = %s) = %s', _d(t), n, _show(r), b)
            if isb:
                back = call('add(%s, %i)' % (_show(r), -n), cal.add, r, -n)
                check(_is_dt(back, t), tag + 'add(add(t, %s), %s) = %s for the business day t = %s', n, -n, _show(back), _d(t))
            npts += 1
        for s in (1, -1):
            if 0 <= i + 2 * s < nb:
                one = call('add(%s, %i)' % (_d(t), s), cal.add, T, s)
                two = call('add(%s, %i)' % (_show(one), s), cal.add, one, s)
                direct = call('add(%s, %i)' % (_d(t), 2 * s), cal.add, T, 2 * s)
                check(direct == two, tag + 'add(%s, %s) = %s but add(add(t, %s), %s) = %s', _d(t), 2 * s, _show(direct), s, s, _show(two))
        u = min(last, t + 9)
        a_, b_ = exp[adj], ref.adj(u, adj)
        got = call("drange(%s, %s, '1b')" % (_d(t), _d(u)), cal.drange, T, _mk(u), '1b')
        check(got == [_mk(o) for o in ref.between(a_, b_)], tag + "drange(%s, %s, '1b') = %s; business days between %s and %s are %s",
              _d(t), _d(u), [_show(g) for g in got] if isinstance(got, list) else got, _d(a_), _d(b_), [_d(o) for o in ref.between(a_, b_)])
    cls = _cfg_classes(cfg, ref) + sorted(flags)
    nonb = (last - first + 1) - nb
    return dict(nt=nonb > 0 and len(ref.hol) > 0, cls=cls + ['points>=10k' if npts >= 10000 else 'points<10k'])


# ----------------------------------------------------------------------------- registry machine

R0 = datetime.date(2000, 1, 3).toordinal()      # a Monday
RW = 70                                          # holidays and observed days lie in [R0, R0 + RW)
RT0, RT1 = R0 - 40, R0 + RW + 40                 # registered range
# None is the key of the default calendar(); the others are a prefix / a case variant / the str() of one another, and '' is falsy
KEYS = ['US', 'USD', 'us', None, 'None', '']

_hols_s = st.lists(st.integers(0, RW - 1), max_size=25)
_hols1_s = st.lists(st.integers(0, RW - 1), min_size=1, max_size=25)
_key_s = st.sampled_from(KEYS)
_wk_s = st.sampled_from(WEEKENDS)


class RegistryModel(object):
    OPS = {
        'register': dict(key=_key_s, hols=_hols_s, weekend=_wk_s),                 # calendar(key, holidays, weekend, t0, t1)
        'reregister_hols': dict(key=_key_s, hols=_hols_s),                          # calendar(key, holidays, t0=, t1=): weekend omitted
        'register_obj': dict(key=_key_s, hols=_hols_s, weekend=_wk_s),             # calendar(Calendar(key, ...))
        'reregister_obj': dict(key=_key_s, hols=_hols1_s),                          # calendar(calendar(key), holidays=h)
        'reregister_only_hols': dict(key=_key_s, hols=st.one_of(st.just([]), _hols_s)),   # calendar(key, holidays=h): nothing else passed, h often []
        'reregister_no_range': dict(key=_key_s, hols=st.one_of(st.just([]), _hols_s), weekend=_wk_s),  # calendar(key, holidays=h, weekend=w): no t0/t1
        'register_pair': dict(pair=st.integers(0, 3), hols=_hols_s, hols2=_hols_s, weekend=_wk_s),   # two keys with related names, one after the other
        'reregister_tweak': dict(key=_key_s, j=st.integers(0, 30), d=st.integers(0, 60)),  # same number of holidays, same first and last, one in the middle moved
        'fetch': dict(key=_key_s),                                                  # calendar(key)
        'populate': dict(key=_key_s, k=st.integers(0, RW - 1), n=st.integers(2, 6)),  # force the lookup tables of the registered object
    }
    PRE = {
        'reregister_obj': lambda m: len(m.model) > 0,
        'reregister_tweak': lambda m: len(m._tweakable()) > 0,
        'populate': lambda m: any(v['small'] for v in m.model.values()),
    }

    def __init__(self):
        import pyg_base as D               # public names only: calendar, Calendar and the registry dict `calendars`
        self.D = D
        D.calendars.clear()          # the registry is module-global: every history starts from an empty one
        self.model = {}              # key -> dict(hols=set of ordinals, weekends=[candidate weekend lists], small=bool)
        self.flags = set()
        self.tables = set()          # keys whose registered object had its lookup tables built at some point
        self.rereg_then_seen = False
        self.steps = 0

    def teardown(self):
        self.D.calendars.clear()

    # ---- operations
    def _dts(self, hols):
        return [_mk(R0 + i) for i in hols]

    def _note_rereg(self, key, hols):
        if key in self.model:
            self.flags.add('reregistered')
            if self.model[key]['hols'] != set(R0 + i for i in hols):
                self.flags.add('reregistered_other_holidays')
            if key in self.tables:
                self.flags.add('reregistered_after_tables_built')

    def op_register(self, key, hols, weekend):
        self._note_rereg(key, hols)
        call('calendar(%r, holidays, weekend=%s, t0, t1)' % (key, weekend), self.D.calendar, key, self._dts(hols), list(weekend), _mk(RT0), _mk(RT1))
        self.model[key] = dict(hols=set(R0 + i for i in hols), weekends=[list(weekend)], small=True)

    PAIRS = [('US', 'us'), ('US', 'USD'), (None, 'None'), (None, '')]

    def op_register_pair(self, pair, hols, hols2, weekend):
        a, b = self.PAIRS[pair]
        self.op_register(a, hols, weekend)
        self.op_register(b, hols2, weekend)

    def _known(self, key, salt):
        # re-registration ops aim at a key that is already registered (six key names would otherwise rarely meet twice)
        if key in self.model or not self.model:
            return key
        ks = sorted(self.model, key=repr)
        return ks[salt % len(ks)]

    def op_reregister_hols(self, key, hols):
        key = self._known(key, len(hols))
        self._note_rereg(key, hols)
        old = self.model.get(key)
        call('calendar(%r, holidays, t0=, t1=)' % key, lambda: self.D.calendar(key, self._dts(hols), t0=_mk(RT0), t1=_mk(RT1)))
        cands = [[5, 6]] + ([w for w in old['weekends'] if w != [5, 6]] if old else [])
        self.model[key] = dict(hols=set(R0 + i for i in hols), weekends=cands, small=True)
        self.flags.add('weekend_omitted')

    def _note_empty(self, key, hols, weekend):
        # a registration in which every argument besides the key is falsy ([] holidays, [] or no weekend, no range)
        if not hols and not weekend:
            self.flags.add('registered_with_only_empty_arguments')
            old = self.model.get(key)
            if old is not None and (old['hols'] or (weekend is not None and [] not in old['weekends'])):
                self.flags.add('reregistered_empty_over_nonempty')

    def op_reregister_only_hols(self, key, hols):
        key = self._known(key, sum(hols))
        self._note_rereg(key, hols)
        self._note_empty(key, hols, None)
        old = self.model.get(key)
        call('calendar(%r, holidays=%s)' % (key, [_d(R0 + i) for i in hols]), lambda: self.D.calendar(key, holidays=self._dts(hols)))
        cands = [[5, 6]] + ([w for w in old['weekends'] if w != [5, 6]] if old else [])
        # no t0/t1: the library builds the default 1900-2300 range, so the table path is not compared for this registration
        self.model[key] = dict(hols=set(R0 + i for i in hols), weekends=cands, small=False)
        self.flags.add('weekend_omitted')
        self.flags.add('range_omitted')

    def op_reregister_no_range(self, key, hols, weekend):
        key = self._known(key, sum(hols) + len(weekend))
        self._note_rereg(key, hols)
        self._note_empty(key, hols, weekend)
        call('calendar(%r, holidays=%s, weekend=%s)' % (key, [_d(R0 + i) for i in hols], weekend), lambda: self.D.calendar(key, holidays=self._dts(hols), weekend=list(weekend)))
        self.model[key] = dict(hols=set(R0 + i for i in hols), weekends=[list(weekend)], small=False)
        self.flags.add('range_omitted')

    def _tweakable(self):
        # keys with >= 3 holidays and a free day strictly between the first and the last one
        return [k for k in sorted(self.model, key=repr) if len(self.model[k]['hols']) >= 3
                and max(self.model[k]['hols']) - min(self.model[k]['hols']) + 1 > len(self.model[k]['hols'])]

    def op_reregister_tweak(self, key, j, d):
        keys = self._tweakable()
        if key not in keys:
            key = keys[0]
        old = self.model[key]
        hs = sorted(old['hols'])
        free = [o for o in range(hs[0] + 1, hs[-1]) if o not in old['hols']]
        hs[1 + j % (len(hs) - 2)] = free[d % len(free)]
        weekend = list(old['weekends'][0])
        self.flags.add('reregistered')
        self.flags.add('reregistered_other_holidays')
        self.flags.add('reregistered_same_count_first_last')
        if key in self.tables:
            self.flags.add('reregistered_after_tables_built')
        call('calendar(%r, holidays=%s, weekend=%s, t0, t1)' % (key, [_d(o) for o in hs], weekend), self.D.calendar, key, [_mk(o) for o in hs], weekend, _mk(RT0), _mk(RT1))
        self.model[key] = dict(hols=set(hs), weekends=[weekend], small=True)

    def op_register_obj(self, key, hols, weekend):
        self._note_rereg(key, hols)
        c = call('Calendar(%r, ...)' % key, self.D.Calendar, key, self._dts(hols), list(weekend), _mk(RT0), _mk(RT1))
        call('calendar(<Calendar %r>)' % key, self.D.calendar, c)
        self.model[key] = dict(hols=set(R0 + i for i in hols), weekends=[list(weekend)], small=True)
        self.flags.add('object_route')

    def op_reregister_obj(self, key, hols):
        if key not in self.model:
            key = sorted(self.model, key=repr)[0]
        self._note_rereg(key, hols)
        old = self.model[key]
        c = call('calendar(%r)' % key, self.D.calendar, key)
        call('calendar(<Calendar %r>, holidays=h)' % key, lambda: self.D.calendar(c, holidays=self._dts(hols)))
        self.model[key] = dict(hols=set(R0 + i for i in hols), weekends=list(old['weekends']), small=old['small'])
        self.flags.add('object_route')

    def op_fetch(self, key):
        c = call('calendar(%r)' % key, self.D.calendar, key)
        if key not in self.model:
            self.model[key] = dict(hols=set(), weekends=[[5, 6]], small=False)   # an unknown key makes a default calendar (1900-2300)
            self.flags.add('fetch_unknown_key')
        else:
            self.flags.add('fetch_known_key')

    def op_populate(self, key, k, n):
        keys = [x for x in sorted(self.model, key=repr) if self.model[x]['small']]
        if key not in keys:
            key = keys[0]
        c = call('calendar(%r)' % key, self.D.calendar, key)
        call('calendar(%r).add(%s, %i)' % (key, _d(R0 + k), n), c.add, _mk(R0 + k), n)
        self.tables.add(key)
        self.flags.add('tables_built')

    # ---- invariant: every registered key answers according to its LAST registration
    def check(self):
        self.steps += 1
        for key in sorted(self.model, key=repr):
            m = self.model[key]
            c = call('calendar(%r)' % key, self.D.calendar, key)
            obs = [bool(call('calendar(%r).is_bday' % key, c.is_bday, _mk(o))) for o in range(R0, R0 + RW)]
            match = None
            for w in m['weekends']:
                ws = set(w)
                if obs == [(_wd(o) not in ws and o not in m['hols']) for o in range(R0, R0 + RW)]:
                    match = w
                    break
            if match is None:
                w = m['weekends'][0]
                bad = [o for j, o in enumerate(range(R0, R0 + RW)) if obs[j] != (_wd(o) not in set(w) and o not in m['hols'])]
                check(False, 'calendar(%s) does not reflect its last registration (holidays %s, weekend %s): is_bday differs on %s (is_bday there = %s)',
                      key, [_d(o) for o in sorted(m['hols'])], m['weekends'], [_d(o) for o in bad[:6]], [obs[o - R0] for o in bad[:6]])
            for o in range(R0, R0 + RW, 3):
                got = call('calendar(%r).is_holiday(%s)' % (key, _d(o)), c.is_holiday, _mk(o))
                check(bool(got) == (not obs[o - R0]), 'calendar(%s).is_holiday(%s) = %s but is_bday = %s', key, _d(o), got, obs[o - R0])
            ref = Ref(RT0, RT1, match, m['hols'])
            probes = (0, 23, 47)
            for k in probes:
                t = R0 + k
                for a in 'fp':
                    got = call('calendar(%r).adjust(%s, %r)' % (key, _d(t), a), c.adjust, _mk(t), a)
                    check(_is_dt(got, ref.adj(t, a)), 'calendar(%s).adjust(%s, %s) = %s; last registration (holidays %s) implies %s', key, _d(t), a, _show(got),
                          [_d(o) for o in sorted(m['hols'])], _d(ref.adj(t, a)))
                got = call('calendar(%r).add(%s, 1, "f")' % (key, _d(t)), c.add, _mk(t), 1, 'f')
                check(_is_dt(got, ref.add(t, 1, 'f')), 'calendar(%s).add(%s, 1, "f") = %s; last registration implies %s', key, _d(t), _show(got), _d(ref.add(t, 1, 'f')))
                got = call('calendar(%r).add(%s, -1, "p")' % (key, _d(t)), c.add, _mk(t), -1, 'p')
                check(_is_dt(got, ref.add(t, -1, 'p')), 'calendar(%s).add(%s, -1, "p") = %s; last registration implies %s', key, _d(t), _show(got), _d(ref.add(t, -1, 'p')))
            if m['small'] and key in self.tables:
                # the indexed path must follow the last registration too (a table kept from an earlier registration would show here)
                for k in probes:
                    t = R0 + k
                    got = call('calendar(%r).add(%s, 4, "f")' % (key, _d(t)), c.add, _mk(t), 4, 'f')
                    check(_is_dt(got, ref.add(t, 4, 'f')), 'calendar(%s).add(%s, 4, "f") = %s; last registration (holidays %s, weekend %s) implies %s', key, _d(t), _show(got),
                          [_d(o) for o in sorted(m['hols'])], match, _d(ref.add(t, 4, 'f')))
                got = call('calendar(%r).bdays(%s, %s, "f")' % (key, _d(R0), _d(R0 + RW)), c.bdays, _mk(R0), _mk(R0 + RW), 'f')
                e = ref.idx[ref.adj(R0 + RW, 'f')] - ref.idx[ref.adj(R0, 'f')]
                check(got == e, 'calendar(%s).bdays(%s, %s, "f") = %s; last registration implies %s', key, _d(R0), _d(R0 + RW), got, e)
            if 'reregistered_other_holidays' in self.flags:
                self.rereg_then_seen = True
        # keys whose names are related must stay separate entries
        for a, b, label in (('US', 'us', 'case_variant_keys_differ'), ('US', 'USD', 'prefix_keys_differ'), (None, 'None', 'None_and_str_None_differ'), (None, '', 'None_and_empty_string_differ')):
            if a in self.model and b in self.model and (self.model[a]['hols'] != self.model[b]['hols'] or self.model[a]['weekends'][0] != self.model[b]['weekends'][0]):
                self.flags.add(label)

    def info(self):
        cls = sorted(self.flags) + ['keys=%i' % min(len(self.model), 4)]
        return dict(nt=self.rereg_then_seen, cls=cls)


# ----------------------------------------------------------------------------- session: several calendars alive at once, calls interleaved

S_OPS = ['is_bday', 'adjust', 'add', 'add', 'bdays', 'drange', 'adjust_list', 'bump']
S_NMAX = 5          # |n| in a session
S_MARGIN = 8        # the dates of a session keep this many business days of every calendar on either side


def _session_simplify(c):
    return dict(c, hols=[], runs=[[s_, min(l_, 5)] for s_, l_ in c['runs']])


@st.composite
def _session_case(draw, tier):
    """2-3 calendars over ONE range and under ONE key that differ in the weekend, in a few holidays, in adj, or not at all (an equal calendar built from
    the same argument objects, or a copy made by Calendar(cal)), built at different moments of one history of 4-12 questions about a pool of 2-5 dates
    (the same date objects every time); half of the questions repeat the previous question on another calendar"""
    base = draw(_cfg(150, 400, max_runs=3, min_runs=1))
    base = dict(base, hform='list', wform='list', htype='dt', rform='dt')
    base.pop('t0_tod', None)
    key = draw(st.sampled_from([None, 'US', 'K']))
    ncal = draw(st.integers(2, 3))
    cals = [dict(cfg=base, how='base', src=None, share=False)]
    for i in range(1, ncal):
        how = draw(st.sampled_from(['holidays', 'holidays', 'holidays', 'holidays', 'weekend', 'weekend', 'weekend', 'same', 'copy', 'adj']))
        src = draw(st.integers(0, i - 1))
        c = dict(cals[src]['cfg'])
        if how == 'weekend':
            c['weekend'] = list(draw(st.sampled_from([w for w in WEEKENDS if w != c['weekend']])))
        elif how == 'holidays':
            runs = []
            for s_, l_ in c['runs']:
                m = draw(st.integers(-3, 4))
                if m < 4:                                       # 4: the run is dropped
                    runs.append([s_ + m, l_])
            new = draw(st.lists(st.integers(c['t0'], c['t1']), max_size=4))
            c['runs'] = runs
            c['hols'] = c['hols'][draw(st.integers(0, 3)):] + new
        elif how == 'adj':
            c['adj'] = draw(st.sampled_from([a for a in 'fpm' if a != c['adj']]))
            c['adj_spelling'] = c['adj']
        # 'same' and 'copy': the configuration of src
        cals.append(dict(cfg=c, how=how, src=src, share=draw(st.sampled_from([True, True, False]))))
    refs = [_ref(c['cfg']) for c in cals]
    if min(len(r.B) for r in refs) < 2 * S_MARGIN + 12 or max(r.B[S_MARGIN] for r in refs) + 10 > min(r.B[-S_MARGIN - 1] for r in refs):
        for c in cals:                                          # rare (dense holidays): keep the runs, shortened, and no random holidays
            c['cfg'] = _session_simplify(c['cfg'])
        refs = [_ref(c['cfg']) for c in cals]
    lo, hi = max(r.B[S_MARGIN] for r in refs), min(r.B[-S_MARGIN - 1] for r in refs)
    # days on which two of the calendars disagree, and their neighbours: a question about them has different answers
    diff = sorted(set(o + d for o in range(lo, hi + 1) if len(set(r.isb(o) for r in refs)) > 1 for d in (-1, 0, 1) if lo <= o + d <= hi))
    special = sorted(set(o for c in cals for o in _expand(c['cfg']) if lo <= o <= hi))
    t_s = [st.integers(lo, hi)]
    if diff:
        t_s += [st.sampled_from(diff)] * 3
    if special:
        t_s.append(st.sampled_from(special))
    pool = draw(st.lists(st.one_of(*t_s), min_size=1, max_size=4))
    pool.insert(0, draw(st.sampled_from(diff)) if diff else draw(st.integers(lo, hi)))
    nsteps = draw(st.integers(4, 12))
    new_at = sorted(draw(st.lists(st.integers(0, nsteps), min_size=ncal - 1, max_size=ncal - 1)))
    q_s = st.fixed_dictionaries(dict(op=st.sampled_from(S_OPS), k=st.integers(0, len(pool) - 1), n=st.integers(-S_NMAX, S_NMAX),
                                     a=st.sampled_from([None, None, None, 'f', 'p', 'm']), span=st.integers(0, 12)))
    steps, built, prev = [], 1, None
    for j in range(nsteps):
        while built < ncal and new_at[built - 1] <= j:
            steps.append(dict(op='new', c=built))
            built += 1
        if prev is not None and built > 1 and draw(st.integers(0, 9)) < 6:
            q = dict(prev, c=draw(st.sampled_from([i for i in range(built) if i != prev['c']])))      # the same question, another calendar
        else:
            q = dict(draw(q_s), c=draw(st.integers(0, built - 1)))
        steps.append(q)
        prev = q
    while built < ncal:                                         # calendars built at the very end still get the last question
        steps.append(dict(op='new', c=built))
        steps.append(dict(prev, c=built))
        built += 1
    return dict(key=key, cals=cals, pool=pool, steps=steps)


def run_session(spec):
    from pyg_base import Calendar
    cals, pool, key = spec['cals'], spec['pool'], spec['key']
    refs = [_ref(c['cfg']) for c in cals]
    lo, hi = max(r.B[S_MARGIN] for r in refs), min(r.B[-S_MARGIN - 1] for r in refs)
    if not pool or not all(lo <= o <= hi for o in pool) or any(c['cfg']['t0'] != cals[0]['cfg']['t0'] or c['cfg']['t1'] != cals[0]['cfg']['t1'] for c in cals):
        raise HarnessError('session spec: pool outside the common interior or calendars over different ranges')
    Ts = [_mk(o) for o in pool]            # the date objects of the session: built once, passed to every call
    PL = list(Ts)                          # ... and the one list object handed to every adjust(list) call
    objs, hlists, wlists, populated = {}, {}, {}, {}
    hlists[0], wlists[0] = _hols_list(cals[0]['cfg']), list(cals[0]['cfg']['weekend'])
    objs[0] = _cal(cals[0]['cfg'], key, hlists[0], wlists[0])
    populated[0] = False
    flags = set()
    prev = None                            # (question, calendar, expected answer) of the previous step
    nt = False
    for st_ in spec['steps']:
        ci = st_['c']
        cfg, ref = cals[ci]['cfg'], refs[ci]
        tag = '[session, calendar %i of %i (%s), key %r: %s] ' % (ci + 1, len(cals), cals[ci]['how'], key, _cfg_txt(cfg))
        if st_['op'] == 'new':
            how, src = cals[ci]['how'], cals[ci]['src']
            if ci in objs or src not in objs:
                raise HarnessError('session spec: calendar built twice or before its source')
            if any(populated.values()):
                flags.add('calendar_built_after_tables_of_another')
            if how == 'copy':
                objs[ci] = call('Calendar(<calendar %i>)' % (src + 1), Calendar, objs[src])
                populated[ci] = populated[src]
                hlists[ci], wlists[ci] = hlists[src], wlists[src]
                flags.add('copy_of_populated_calendar' if populated[src] else 'copy_of_fresh_calendar')
                continue
            H = W = None
            if cals[ci]['share']:
                # the caller's own argument objects, used a second time: judged by what the caller put into them
                if _expand(cfg) == _expand(cals[src]['cfg']):
                    H = hlists[src]
                    flags.add('holiday_list_object_used_for_two_calendars')
                    if cfg['weekend'] != cals[src]['cfg']['weekend']:
                        flags.add('holiday_list_object_reused_under_another_weekend')
                if cfg['weekend'] == cals[src]['cfg']['weekend']:
                    W = wlists[src]
                    flags.add('weekend_list_object_used_for_two_calendars')
            hlists[ci] = _hols_list(cfg) if H is None else H
            wlists[ci] = list(cfg['weekend']) if W is None else W
            objs[ci] = _cal(cfg, key, hlists[ci], wlists[ci])
            populated[ci] = False
            continue
        if ci not in objs:
            raise HarnessError('session spec: question to a calendar that is not built yet')
        cal = objs[ci]
        op, k, n, a = st_['op'], st_['k'], st_['n'], st_['a']
        t, T = pool[k], Ts[k]
        eff = _letter(a or cfg['adj'])
        kw = {} if a is None else {'adj': a}
        if op == 'is_bday':
            exp = ref.isb(t)
            got = call('is_bday(%s)' % _d(t), cal.is_bday, T)
            check(bool(got) == exp, tag + 'is_bday(%s) = %s; day-by-day says %s', _d(t), got, exp)
            got = call('is_holiday(%s)' % _d(t), cal.is_holiday, T)
            check(bool(got) == (not exp), tag + 'is_holiday(%s) = %s; day-by-day says %s', _d(t), got, not exp)
        elif op == 'adjust':
            exp = ref.adj(t, eff)
            got = call('adjust(%s, %r)' % (_d(t), a), cal.adjust, T, a)
            check(_is_dt(got, exp), tag + 'adjust(%s, %s) = %s; nearest business day by day-by-day walk is %s', _d(t), a, _show(got), _d(exp))
        elif op in ('add', 'bump'):
            exp = ref.add(t, n, eff)
            if op == 'add':
                what = 'add(%s, %i%s)' % (_d(t), n, '' if a is None else ', adj=%r' % a)
                got = call_fuel(what, FUEL, cal.add, T, n, **kw)
            else:
                what = 'dt_bump(%s, %r, %r)' % (_d(t), '%ib' % n, a)
                got = call_fuel(what, FUEL, cal.dt_bump, T, '%ib' % n, a)
            check(_is_dt(got, exp), tag + '%s = %s; walking %s business days from adjust = %s gives %s', what, _show(got), n, _d(ref.adj(t, eff)), _d(exp))
            if abs(n) > 1:
                populated[ci] = True
        elif op == 'bdays':
            u = ref.add(t, n, eff)               # the day add(t, n) has to be, from the model
            exp = u                              # (the count is n on every calendar; what differs between calendars is the day it leads to)
            if not populated[ci]:
                flags.add('bdays_before_tables_are_built')
            got = call('bdays(%s, %s%s)' % (_d(t), _d(u), '' if a is None else ', adj=%r' % a), cal.bdays, T, _mk(u), **kw)
            check(got == n, tag + 'bdays(%s, %s) = %s where the second date is the %s-th business day from adjust(t, %s) = %s', _d(t), _d(u), got, n, eff, _d(ref.adj(t, eff)))
            populated[ci] = True
        elif op == 'drange':
            u = min(hi, t + st_['span'])
            a_, b_ = ref.adj(t, cfg['adj']), ref.adj(u, cfg['adj'])
            exp = ref.between(a_, b_)
            if not populated[ci]:
                flags.add('drange_before_tables_are_built')
            got = call("drange(%s, %s, '1b')" % (_d(t), _d(u)), cal.drange, T, _mk(u), '1b')
            check(got == [_mk(o) for o in exp], tag + "drange(%s, %s, '1b') = %s; business days between %s and %s are %s",
                  _d(t), _d(u), [_show(g) for g in got] if isinstance(got, list) else got, _d(a_), _d(b_), [_d(o) for o in exp])
            populated[ci] = True
        elif op == 'adjust_list':
            exp = [ref.adj(o, eff) for o in pool]
            got = call('adjust(<the list of the %i dates of the session>, %r)' % (len(pool), a), cal.adjust, PL, a)
            check(isinstance(got, list) and len(got) == len(pool) and all(_is_dt(g, e) for g, e in zip(got, exp)),
                  tag + 'adjust(%s, %s) = %s; date by date the answer is %s', [_d(o) for o in pool], a, [_show(g) for g in got] if isinstance(got, list) else got, [_d(e) for e in exp])
        else:
            raise HarnessError('session spec: unknown op %r' % (op,))
        q = (op, k, n if op in ('add', 'bump', 'bdays') else 0, a if op != 'is_bday' else None, st_['span'] if op == 'drange' else 0)
        if prev is not None and prev[0] == q and prev[1] != ci:
            flags.add('same_question_to_another_calendar')
            if prev[2] != exp:
                flags.add('same_question_other_answer')
                nt = True
        prev = (q, ci, exp)
    flags.add('key=None' if key is None else 'key=str')
    flags.add('calendars=%i' % len(cals))
    for c in cals[1:]:
        flags.add('second_calendar_differs_in=' + c['how'])
    return dict(nt=nt, cls=sorted(flags))


# ----------------------------------------------------------------------------- registration

KNOWN = {}

SUBS = [
    Sub('day_laws', _day_case, run_day_laws, quick=640, thorough=8000,
        rule='calendar configuration (range 500-1095 days starting on any weekday 1996-2004, weekend in {Sat-Sun, Fri-Sat, Sun, none}, adj in {f,p,m}, '
             'holidays = 0-63% of days at random + 0-4 runs of 1-40 consecutive holidays placed at random / across a month end / around a weekend) x 1-40 points '
             '(t mostly in the interior so that 41 business days either side stay in range, biased to holidays, month ends, month-long closures and the first/last '
             'business days of the range with n clipped so that the walk just fits; n in [-40,40] biased to |n|<=3 and to 0, +-1, +-40; '
             'adj override None or any spelling of f/p/m; holidays as list/tuple/dict keys/bare datetime/None; weekend as list/tuple/int/reversed/duplicated/numpy/range; '
             'runs also across 31 Dec-1 Jan, over 29 Feb and over one whole calendar month; two in five ranges start and two in five end on 1 Jan / 31 Dec / 29 Feb / 28 Feb of a '
             'non-leap year / a 30th / a 31st, and these days are start values t; holidays as datetime, pd.Timestamp or both in one list; t0, t1 as datetime / date / Timestamp; adj left out; '
             't as datetime / Timestamp / date / with a time of day; n as int / numpy.int64; bumps "nb" / "+nb" / "nB"; adjust on a list / tuple / dict of 0, 1, .. 40 dates, the same container '
             'object in two calls with different adj). Oracle = day-by-day walk on ordinals: is_bday, is_holiday, adjust f/p/m/default, add, bdays(t, add(t,n)) == n, '
             'add(add(t,n),-n) == t for business t, add(t,+-2) == add(add(t,+-1),+-1), dt_bump(t,"nb"[, adj]), adjust(list/dict of dates). '
             'non-trivial = some point has t non-business, or its walk crosses >= 2 consecutive holidays, or the modified-following month-end rule fires',
        floor=0.5, class_floors={'pt_month_end_rule': 0.1, 'pt_crosses_run>=2': 0.2, 'pt_holiday_weekday': 0.3, 'run_straddles_month_end': 0.1,
                                 'weekend=none': 0.1, 'weekend=6': 0.1, 'weekend=4,5': 0.1, 'adj=p': 0.15, 'adj=f': 0.15, 'adj=m': 0.15,
                                 # appendix classes: boundaries (9), degenerate shapes (6), sizes (1), duplicates / order (8, 3), spellings (5, 10)
                                 'pt_|n|=40': 0.3, 'pt_n=0_nonbday': 0.2, 'pt_touches_first_bday_of_range': 0.2, 'pt_touches_last_bday_of_range': 0.2,
                                 'pt_month_closed_both_ways': 0.03, 'run>=31_days': 0.08, 'holiday_on_29feb': 0.02, 'holiday_on_31dec_or_1jan': 0.15,
                                 'holiday_list>=100': 0.2, 'range>=2000_days': 0.03, 'holidays_duplicated': 0.3, 'holidays_unsorted': 0.5,
                                 'weekend_as=rev': 0.02, 'weekend_as=dup': 0.02, 'weekend_as=np': 0.02, 'weekend_as=range': 0.02, 'weekend_as=int': 0.01,
                                 'holidays_as=keys': 0.05, 'holidays_as=auto': 0.05, 'holidays_as=tuple': 0.05,
                                 'adj_spelled_long_or_upper': 0.3, 'pt_adj_override_spelled_long_or_upper': 0.4,
                                 # appendix classes 11-20. Raw types of one value (13): holidays / range / t / n
                                 'holidays_raw=mixed': 0.06, 'holidays_raw=ts': 0.025, 'holidays_datetime_and_timestamp_in_one_list': 0.06,
                                 'range_as=date': 0.035, 'range_as=ts': 0.035,
                                 'pt_t_as=timestamp': 0.15, 'pt_t_as=date': 0.16, 'pt_t_as=datetime_with_time_of_day': 0.19, 'pt_t_as=timestamp_with_time_of_day': 0.17,
                                 'pt_time_of_day_on_nonbday': 0.17, 'pt_n_as_numpy_int': 0.22, 'pt_n_as_numpy_int_table_path': 0.19,
                                 # parameters left at their default / other spellings of the bump (17)
                                 'adj_omitted': 0.02, 'pt_bump_spelled_with_plus': 0.15, 'pt_bump_spelled_upper': 0.22,
                                 # calendar boundary days as first / last day of the range and as start value t (19)
                                 'range_starts_on_1jan': 0.02, 'range_starts_on_31dec': 0.02, 'range_starts_on_29feb': 0.01, 'range_starts_on_28feb_nonleap': 0.015,
                                 'range_starts_on_30th': 0.015, 'range_starts_on_31st': 0.04, 'range_ends_on_1jan': 0.02, 'range_ends_on_31dec': 0.015,
                                 'range_ends_on_28feb_nonleap': 0.005, 'range_ends_on_30th': 0.015, 'range_ends_on_31st': 0.05,
                                 'pt_t_on_1jan': 0.14, 'pt_t_on_31dec': 0.15, 'pt_t_on_29feb': 0.035, 'pt_t_on_28feb_nonleap': 0.12, 'pt_t_on_30th': 0.21, 'pt_t_on_31st': 0.21,
                                 'pt_nonbday_t_on_1jan': 0.045, 'pt_nonbday_t_on_31dec': 0.05, 'pt_nonbday_t_on_29feb': 0.015, 'pt_nonbday_t_on_28feb_nonleap': 0.055,
                                 # sequences where one date is meant (18) and the caller's container used twice (12)
                                 'adjust_seq_len=0': 0.035, 'adjust_seq_len=1': 0.12, 'adjust_seq_len=>=10': 0.05, 'adjust_seq_tuple': 0.09,
                                 'adjust_same_container_twice_other_answer': 0.08, 'adjust_seq_mixed_raw_types': 0.09}),
    Sub('drange_1b', _drange_case, run_drange, quick=1000, thorough=8000,
        rule='configuration as in day_laws (range 120-500 days) x 1-25 pairs t <= u between the first and last business day, spans 0-12 / 0-90 / anything, '
             'endpoints biased to holidays and to the first / last business day of the range, t == u included (one object for both in a third of those); endpoints as datetime / Timestamp / date / '
             'with a time of day (not a whole number of days apart, less than a day apart). Oracle: the list of business days d with adjust(t) <= d <= adjust(u), found by visiting every day, compared as a list '
             '(order, nothing missing, nothing extra). non-trivial = an endpoint is not a business day or a weekday holiday lies inside',
        floor=0.5, class_floors={'endpoint_nonbday': 0.3, 'holiday_inside': 0.3, 'single_day': 0.05, 'same_day_nonbday': 0.2, 'result>=100_days': 0.15,
                                 'starts_at_first_bday_of_range': 0.3, 'ends_at_last_bday_of_range': 0.3, 'span_inside_one_closure': 0.1,
                                 'weekend_as=rev': 0.02, 'holidays_as=keys': 0.05,
                                 # appendix classes 13, 14, 17, 19
                                 'adj_omitted': 0.02, 'holidays_raw=mixed': 0.055, 'holidays_raw=ts': 0.027, 'range_as=date': 0.025, 'range_as=ts': 0.035,
                                 'range_starts_on_29feb': 0.012, 'range_starts_on_31st': 0.045, 'range_ends_on_31dec': 0.025,
                                 'endpoint_with_time_of_day': 0.24, 'endpoints_not_whole_days_apart': 0.22, 'endpoints_not_whole_days_apart_nonbday': 0.18,
                                 'endpoints_less_than_a_day_apart': 0.05, 'endpoint_as_timestamp_or_date': 0.24,
                                 'one_object_for_both_endpoints': 0.18, 'one_object_for_both_endpoints_nonbday': 0.08}),
    Sub('all_days', _all_case, run_all_days, quick=12, thorough=100,
        rule='one configuration, completely enumerated: every day between the first and last business day of the range (quick: range 90-200 days; thorough: 365-800 days) '
             'for is_bday/is_holiday/adjust f,p,m/drange(t, t+9), and every n in [-40,40] whose walk stays in range for add, bdays, inverse; 2-step law. '
             'non-trivial = the configuration has holidays and non-business days',
        floor=0.25),
    Sub('session', _session_case, run_session, quick=600, thorough=6000,
        rule='2-3 calendars over ONE range (150-400 days) and under ONE key (None / a string) that differ in the weekend, in a few holidays (runs moved by up to 3 days or dropped, up to 4 new days), '
             'in adj, or not at all (an equal calendar, or a copy made by Calendar(cal)); a calendar that repeats the holidays / the weekend of an earlier one is built, in two cases out of three, from the '
             'SAME list objects the earlier one was built from. They are built at different moments of one history of 4-12 questions (is_bday+is_holiday / adjust / add / dt_bump / bdays / drange 1b / '
             'adjust(list)) about a pool of 2-5 dates (the same datetime objects and one list object throughout, biased to days on which the calendars disagree), |n| <= 5; half of the questions repeat '
             'the previous question on another calendar. Every answer is judged by the day-by-day model of the calendar that was asked, so no answer may depend on what was built or asked before. '
             'non-trivial = a question was put to two calendars in a row and the model gives two different answers',
        floor=0.09, class_floors={'same_question_to_another_calendar': 0.3, 'same_question_other_answer': 0.1, 'calendar_built_after_tables_of_another': 0.16,
                                  'copy_of_populated_calendar': 0.025, 'copy_of_fresh_calendar': 0.02,
                                  'holiday_list_object_used_for_two_calendars': 0.13, 'holiday_list_object_reused_under_another_weekend': 0.07,
                                  'weekend_list_object_used_for_two_calendars': 0.17, 'bdays_before_tables_are_built': 0.06, 'drange_before_tables_are_built': 0.06,
                                  'key=None': 0.14, 'key=str': 0.19, 'calendars=3': 0.12, 'second_calendar_differs_in=holidays': 0.19,
                                  'second_calendar_differs_in=weekend': 0.1, 'second_calendar_differs_in=same': 0.03, 'second_calendar_differs_in=copy': 0.045,
                                  'second_calendar_differs_in=adj': 0.034}),
    MachineSub('registry', RegistryModel, quick=(600, 12), thorough=(1500, 20),
               rule='histories of register(key, holidays, weekend, t0, t1) / re-register with holidays + range / re-register with ONLY holidays=h (often []) / re-register with holidays=h, weekend=w and no range (h and w often []) / register a Calendar object / re-register through the object / '
                    'fetch(key) / populate tables / register two keys with related names / re-register with the same number of holidays and the same first and last one; '
                    '6 keys (US, USD, us, None, "None", ""), holidays in a 70-day window; after every step every key known to the model is fetched and is_bday over the window, '
                    'is_holiday, adjust, add(+1) and - for small ranges - the table path add(+4) and bdays are compared with the LAST registration. '
                    'non-trivial = a key was re-registered with different holidays and fetched afterwards; registry cleared at the start of every history',
               floor=0.3, class_floors={'reregistered_after_tables_built': 0.1, 'object_route': 0.2, 'reregistered_empty_over_nonempty': 0.1,
                                        'case_variant_keys_differ': 0.1, 'prefix_keys_differ': 0.1, 'None_and_str_None_differ': 0.1,
                                        'None_and_empty_string_differ': 0.1, 'reregistered_same_count_first_last': 0.15,
                                        'registered_with_only_empty_arguments': 0.15}),
]

# quick tier: the runner splits day_laws and drange_1b (quick >= 800) over 4 processes; all_days (few, expensive cases) likewise
for _s in SUBS:
    if _s.name in ('day_laws', 'drange_1b', 'all_days'):
        _s.qshards = 4
