# -*- coding: utf-8 -*-
"""
C05 - Calendar business-day arithmetic agrees with day-by-day counting.

Reference model: ordinals (days since 0001-01-01) walked one day at a time, weekday and month read off
datetime.date.fromordinal. Nothing in the oracle touches pyg_base, dateutil or pandas.

Sub-checks
  day_laws   generated calendar configuration + up to 40 (t, n, adj-override) points in the interior of the range:
             is_bday / is_holiday / adjust f,p,m / add / bdays / inverse / 2-step-vs-table / dt_bump('nb') route
  drange_1b  generated configuration + up to 25 (t, u) pairs, t <= u: Calendar.drange(t, u, '1b')
  all_days   generated configuration, EVERY day between the first and last business day of the range x EVERY n in
             [-40, 40] whose walk stays inside the range (90-200 day ranges in the quick tier, 1-2.2 years in thorough)
  registry   state machine on calendar(key, ...): register / re-register / fetch / populate, compared with the
             last registration after every step
"""
import datetime

from hypothesis import strategies as st

from pv.core import Sub, MachineSub, HarnessError, call, check

ASSUMPTIONS = [
    'holidays are datetime.datetime at midnight (the form of the class docstring, `.do(dt, "date")`), passed as a list, a tuple, dict keys, a bare '
    'datetime (one holiday) or None (no holiday) - every container as_list() unpacks; they may be unsorted, hold duplicates, weekend days and days '
    'outside [t0, t1]. A dict or a set of holidays raises TypeError in the constructor (its docstring asks for a list): not generated',
    't, t0, t1 are datetime.datetime at midnight ("every day t"): dates with a time of day or datetime.date objects are not generated',
    'add/bdays/inverse/2-step laws are demanded only where the whole reference walk (start adjust(t), |n| business days, and the walk back) '
    'stays between the first and the last business day of [t0, t1] (these two days included: n is clipped so that the walk just fits); outside it '
    'the statement defines no value',
    'is_bday/is_holiday/adjust are demanded for every day between the first and the last business day of the range (all_days) so that '
    'adjust never has to leave the range',
    'drange(t, u, "1b") is demanded for t <= u only (for t > u the statement does not say whether the answer is empty or descending)',
    'the explicit adj= argument of add/bdays/dt_bump is treated as a second spelling of the configuration adj; dt_bump(t, "nb") is only a route into add; '
    'adj is spelt f/F/following, p/P/previous, m/M/modified/"modified following"/MF (what the constructor docstring and adjust() accept); '
    'adjust([t1, t2, ..], adj) and adjust({k: t}, adj) are treated as the same function applied date by date',
    'drange is called with the bump "1b" exactly as in the statement (with "1B" Calendar.drange falls through to the plain weekday drange and ignores '
    'the holidays - reported as an observation, not checked)',
    'registry: the table path (add(+4), bdays) is compared only for registrations that passed a small explicit t0/t1 (the default 1900-2300 table costs seconds to build); registrations without t0/t1 are compared on is_bday/is_holiday/adjust/add(+-1); a re-registration that '
    'omits weekend= may keep the old weekend or fall back to the default [5, 6] - either is accepted, the holidays must be the new ones; '
    'calendar(<Calendar object>, holidays=h) is called with non-empty h only (the code spells "not given" as falsy); fetching a key that was never registered '
    'is modelled as registering a calendar without holidays and with the default weekend (what calendar(key) documents: "construct a new one")',
    'weekend is one of [5,6], [4,5], [6], [] as in the quantifier, spelt as list, tuple, reversed list, list with a repeated entry, list of numpy ints, '
    'range, or a bare int for [6] (a set is wrapped by as_list into [set] and silently means "no weekend": not generated); runs of holidays are 1-40 days or '
    'one whole calendar month +-3 days, random density up to ~63% of all days; ranges are 500-1095 days, one in ten 2400-3650 days',
]

WEEKENDS = [[5, 6], [4, 5], [6], []]
# spellings of the adjustment convention that Calendar documents / accepts ('f'ollowing, 'p'revious, 'm'odified following)
ADJ_SPELL = {'f': ['f', 'f', 'F', 'following', 'Following'], 'p': ['p', 'p', 'P', 'previous', 'Previous'],
             'm': ['m', 'm', 'M', 'modified', 'modified following', 'MF']}


def _letter(a):
    return a[0].lower()
BASE = datetime.date(1996, 1, 1).toordinal()
NMAX = 40


# ----------------------------------------------------------------------------- reference model (plain python)

def _wd(o):
    return datetime.date.fromordinal(o).weekday()


def _month(o):
    return datetime.date.fromordinal(o).month


def _mk(o):
    return datetime.datetime.fromordinal(o)


class Ref(object):
    """day-by-day model of a calendar; every date is an ordinal"""

    def __init__(self, t0, t1, weekend, hols):
        self.t0, self.t1 = t0, t1
        self.weekend = set(weekend)
        self.hol = set(hols)
        # the business days of the range, found by visiting every day once
        self.B = []
        o = t0
        while o <= t1:
            if self.isb(o):
                self.B.append(o)
            o += 1
        self.idx = {o: i for i, o in enumerate(self.B)}

    def isb(self, o):
        return _wd(o) not in self.weekend and o not in self.hol

    def adj(self, o, a):
        if a == 'f':
            while not self.isb(o):
                o += 1
            return o
        if a == 'p':
            while not self.isb(o):
                o -= 1
            return o
        if a == 'm':
            f = self.adj(o, 'f')
            if _month(f) != _month(o):
                return self.adj(o, 'p')
            return f
        raise HarnessError('bad adj %r' % (a,))

    def add(self, o, n, a):
        """walk |n| business days from adj(o), one day at a time"""
        o = self.adj(o, a)
        step = 1 if n > 0 else -1
        for _ in range(abs(n)):
            o += step
            while not self.isb(o):
                o += step
                if o < self.t0 - 400 or o > self.t1 + 400:
                    raise HarnessError('reference walk left the range: the generator must keep walks inside')
        return o

    def between(self, a, b):
        res = []
        o = a
        while o <= b:
            if self.isb(o):
                res.append(o)
            o += 1
        return res

    def hol_run2_between(self, a, b):
        """is there a pair of consecutive holiday-set days strictly between a and b"""
        lo, hi = min(a, b), max(a, b)
        o = lo + 1
        while o + 1 < hi:
            if o in self.hol and o + 1 in self.hol:
                return True
            o += 1
        return False


def _expand(cfg):
    hols = list(cfg['hols'])
    for s, l in cfg['runs']:
        hols.extend(range(s, s + l))
    return hols


def _ref(cfg):
    return Ref(cfg['t0'], cfg['t1'], cfg['weekend'], _expand(cfg))


def _cal(cfg):
    from pyg_base import Calendar
    hols = [_mk(o) for o in _expand(cfg)]
    hform = cfg.get('hform', 'list')
    if hform == 'tuple':
        hols = tuple(hols)
    elif hform == 'keys':
        hols = dict.fromkeys(hols, 'a holiday').keys()
    elif hform == 'auto':                      # None for no holidays, a bare datetime for a single one
        hols = None if len(hols) == 0 else hols[0] if len(hols) == 1 else hols
    wform = cfg.get('wform', 'list')
    w = list(cfg['weekend'])
    if wform == 'tuple':
        weekend = tuple(w)
    elif wform == 'int':
        weekend = w[0]
    elif wform == 'rev':
        weekend = w[::-1]
    elif wform == 'dup':
        weekend = w + w[-1:]
    elif wform == 'np':
        import numpy as np
        weekend = [np.int64(i) for i in w]
    elif wform == 'range':
        weekend = range(w[0], w[-1] + 1)
    else:
        weekend = w
    adj = cfg.get('adj_spelling', cfg['adj'])
    cal = call('Calendar(holidays as %s, weekend=%r, t0, t1, adj=%r)' % (hform, weekend, adj), Calendar,
               None, hols, weekend, _mk(cfg['t0']), _mk(cfg['t1']), adj)
    return cal


def _is_dt(x, o):
    return isinstance(x, datetime.datetime) and x == _mk(o)


def _d(o):
    return datetime.date.fromordinal(o).isoformat() + ['Mo', 'Tu', 'We', 'Th', 'Fr', 'Sa', 'Su'][_wd(o)]


def _show(x):
    if isinstance(x, datetime.datetime):
        return x.strftime('%Y-%m-%d') + ['Mo', 'Tu', 'We', 'Th', 'Fr', 'Sa', 'Su'][x.weekday()] + ('' if x == datetime.datetime(x.year, x.month, x.day) else x.strftime('T%H:%M:%S'))
    return repr(x)[:120]


def _cfg_txt(cfg):
    return 'weekend=%s adj=%s range=%s..%s holidays=%i' % (cfg['weekend'], cfg['adj'], _d(cfg['t0']), _d(cfg['t1']), len(set(_expand(cfg))))


# ----------------------------------------------------------------------------- generator of configurations

def _month_ends(t0, t1):
    res = []
    d = datetime.date.fromordinal(t0)
    y, m = d.year, d.month
    while True:
        y2, m2 = (y, m + 1) if m < 12 else (y + 1, 1)
        e = datetime.date(y2, m2, 1).toordinal() - 1
        if e > t1:
            break
        if e >= t0:
            res.append(e)
        y, m = y2, m2
    return res


@st.composite
def _cfg(draw, lo_days, hi_days, max_runs=4, min_runs=0, long_ranges=False):
    t0 = BASE + draw(st.integers(0, 3000))
    long_range = long_ranges and draw(st.integers(0, 9)) == 9      # a share of 7-10 year ranges (large lookup tables)
    ndays = draw(st.integers(2400, 3650)) if long_range else draw(st.integers(lo_days, hi_days))
    t1 = t0 + ndays
    weekend = draw(st.sampled_from(WEEKENDS))
    adj = draw(st.sampled_from(['m', 'f', 'p']))
    adj_spelling = draw(st.sampled_from(ADJ_SPELL[adj]))
    pct = draw(st.sampled_from([0, 1, 10] if long_range else [0, 1, 10, 40, 50, 80]))
    k = draw(st.integers(0, ndays * pct // 80)) if pct else 0     # duplicates collapse: 80 -> ~63% of days at most
    wforms = ['list', 'tuple']
    if len(weekend) == 1:
        wforms.append('int')
    if len(weekend) == 2:
        wforms.extend(['rev', 'rev'])
    if len(weekend) >= 1:
        wforms.extend(['dup', 'np', 'range'])
    wform = draw(st.sampled_from(wforms))
    hform = draw(st.sampled_from(['list', 'list', 'tuple', 'keys', 'auto']))
    hols = [t0 + i for i in draw(st.lists(st.integers(0, ndays), min_size=k, max_size=k))]
    ends = _month_ends(t0, t1)
    runs = []
    for _ in range(draw(st.integers(min_runs, max_runs))):
        kind = draw(st.sampled_from(['any', 'month_end', 'weekend', 'month_end', 'whole_month', 'whole_month', 'year_end', 'leap_day', 'leap_day']))
        l = draw(st.one_of(st.integers(1, 7), st.integers(1, 7), st.integers(8, 40)))
        if kind == 'whole_month' and len(ends) >= 2:
            j = draw(st.integers(0, len(ends) - 2))
            s = ends[j] + 1 - draw(st.integers(0, 3))              # from (up to 3 days before) the 1st ...
            l = ends[j + 1] + draw(st.integers(0, 3)) - s + 1      # ... to (up to 3 days after) the last day of one calendar month
        elif kind == 'year_end' and [e for e in ends if _month(e) == 12]:
            e = draw(st.sampled_from([e for e in ends if _month(e) == 12]))
            s = e + draw(st.integers(-min(l, 3), 1))               # a run at / across 31 Dec - 1 Jan
            l = max(l, 1) if s <= e + 1 < s + l or s <= e < s + l else e + 1 - s + 1
        elif kind == 'leap_day' and [e for e in ends if _month(e) == 2 and datetime.date.fromordinal(e).day == 29]:
            e = draw(st.sampled_from([e for e in ends if _month(e) == 2 and datetime.date.fromordinal(e).day == 29]))
            s = e - draw(st.integers(0, l - 1))                    # a run containing 29 Feb
        elif kind == 'month_end' and ends:
            e = ends[draw(st.integers(0, len(ends) - 1))]
            s = e - draw(st.integers(0, l - 1))          # the run contains the last day of the month
        elif kind == 'weekend':
            w = draw(st.integers(0, ndays // 7))
            fri = t0 + 7 * w + (4 - _wd(t0)) % 7
            s = fri - draw(st.integers(-3, l))           # around Fri/Sat/Sun/Mon
        else:
            s = t0 + draw(st.integers(0, ndays))
        runs.append([s, l])
    return dict(t0=t0, t1=t1, weekend=list(weekend), wform=wform, hform=hform, adj=adj, adj_spelling=adj_spelling, hols=hols, runs=runs)


def _interior(ref, margin):
    """[lo, hi] ordinals such that every walk of <= margin business days from adj(t) stays inside ref.B, or None"""
    B = ref.B
    if len(B) < 2 * margin + 6:
        return None
    return B[margin + 1], B[-margin - 2]


@st.composite
def _day_case(draw, tier):
    cfg = draw(_cfg(500, 1095, long_ranges=True) if tier == 'quick' else _cfg(730, 1095, long_ranges=True))
    ref = _ref(cfg)
    io = _interior(ref, NMAX + 1)
    if io is None:      # rare: needs > 60% density + 4 runs on >= 500 days; kept so that the domain is total
        cfg = dict(cfg, hols=[], runs=[[s, min(l, 7)] for s, l in cfg['runs']])
        ref = _ref(cfg)
        io = _interior(ref, NMAX + 1)
    lo, hi = io
    special = sorted(set(o for o in _expand(cfg) if lo <= o <= hi))
    ends = [e + d for e in _month_ends(lo + 3, hi - 3) for d in (-2, -1, 0, 1)]
    ts = [st.integers(lo, hi)]
    if special:
        ts.append(st.sampled_from(special))
        ts.append(st.sampled_from(special).map(lambda o: min(hi, o + 1)))
        ts.append(st.sampled_from(special).map(lambda o: max(lo, o - 1)))
    if ends:
        ts.append(st.sampled_from(ends))
    closed = sorted(set(o for s_, l_ in cfg['runs'] if l_ >= 28 for o in range(s_, s_ + l_) if lo <= o <= hi))
    if closed:
        ts.append(st.sampled_from(closed))      # inside a closure of a month or more: 'm' finds no business day in t's month either way
    # the very first / last business days of the range: the walk is clipped below so that it still fits
    B = ref.B
    edge = sorted(set(range(B[0], B[0] + 4)) | set(range(B[-1] - 3, B[-1] + 1)) | set([B[1], B[-2]]))
    ts.append(st.sampled_from(edge))
    t_s = st.one_of(*ts)
    n_s = st.one_of(st.integers(-NMAX, NMAX), st.integers(-3, 3), st.sampled_from([0, NMAX, -NMAX, 1, -1]))
    a_s = st.one_of(st.none(), st.none(), st.sampled_from(ADJ_SPELL['f'] + ADJ_SPELL['p'] + ADJ_SPELL['m']))
    npts = draw(st.integers(1, 40))
    raw = draw(st.lists(st.tuples(t_s, n_s, a_s), min_size=npts, max_size=npts))
    pts = []
    for t, n, a in raw:
        i = ref.idx[ref.adj(t, _letter(a or cfg['adj']))]
        pts.append([t, max(-i, min(len(B) - 1 - i, n)), a])     # no-op for interior points
    return dict(cfg=cfg, pts=pts)


def _cfg_classes(cfg, ref):
    cls = ['weekend=%s' % (','.join(map(str, cfg['weekend'])) or 'none'), 'adj=' + cfg['adj']]
    days = cfg['t1'] - cfg['t0'] + 1
    frac = len([o for o in ref.hol if cfg['t0'] <= o <= cfg['t1']]) / float(days)
    cls.append('density<2%' if frac < 0.02 else 'density2-20%' if frac < 0.2 else 'density>20%')
    for s, l in cfg['runs']:
        if l >= 2 and _month(s) != _month(s + l - 1):
            cls.append('run_straddles_month_end')
            break
    for s, l in cfg['runs']:
        if any(_wd(o) in ref.weekend for o in (s - 1, s + l)):
            cls.append('run_touches_weekend')
            break
    if any(l >= 31 for s, l in cfg['runs']):
        cls.append('run>=31_days')
    allh = _expand(cfg)
    if len(allh) >= 100:
        cls.append('holiday_list>=100')
    if len(set(allh)) < len(allh):
        cls.append('holidays_duplicated')
    if allh != sorted(allh):
        cls.append('holidays_unsorted')
    dm = set((datetime.date.fromordinal(o).month, datetime.date.fromordinal(o).day) for o in ref.hol if cfg['t0'] <= o <= cfg['t1'])
    if (2, 29) in dm:
        cls.append('holiday_on_29feb')
    if (12, 31) in dm or (1, 1) in dm:
        cls.append('holiday_on_31dec_or_1jan')
    if days >= 2000:
        cls.append('range>=2000_days')
    cls.append('holidays_as=' + cfg.get('hform', 'list'))
    cls.append('weekend_as=' + cfg.get('wform', 'list'))
    if cfg.get('adj_spelling', cfg['adj']) != cfg['adj']:
        cls.append('adj_spelled_long_or_upper')
    return cls


# ----------------------------------------------------------------------------- day_laws

def _point_laws(cal, ref, cfg, t, n, a, flags):
    """every law of the statement at one point. a = explicit adj override or None"""
    eff = _letter(a or cfg['adj'])
    T = _mk(t)
    kw = {} if a is None else {'adj': a}
    nb = len(ref.B)
    tag = '[%s] ' % _cfg_txt(cfg)
    isb = ref.isb(t)

    got = call('is_bday(%s)' % _d(t), cal.is_bday, T)
    check(bool(got) == isb, tag + 'is_bday(%s) = %s; day-by-day says %s (weekend day: %s, holiday: %s)',
          _d(t), got, isb, _wd(t) in ref.weekend, t in ref.hol)
    got = call('is_holiday(%s)' % _d(t), cal.is_holiday, T)
    check(bool(got) == (not isb), tag + 'is_holiday(%s) = %s; day-by-day says %s', _d(t), got, not isb)

    exp = {}
    for x in 'fpm':
        exp[x] = ref.adj(t, x)
        got = call('adjust(%s, %r)' % (_d(t), x), cal.adjust, T, x)
        check(_is_dt(got, exp[x]), tag + 'adjust(%s, %s) = %s; nearest business day by day-by-day walk is %s', _d(t), x, _show(got), _d(exp[x]))
    got = call('adjust(%s)' % _d(t), cal.adjust, T)
    check(_is_dt(got, exp[cfg['adj']]), tag + 'adjust(%s) with the calendar default adj=%s = %s; expected %s', _d(t), cfg['adj'], _show(got), _d(exp[cfg['adj']]))
    start = exp[eff]
    i = ref.idx[start]

    # add(t, n) = n-th business day from adjust(t)
    e = ref.add(t, n, eff)
    what = 'add(%s, %i%s)' % (_d(t), n, '' if a is None else ', adj=%r' % a)
    r = call(what, cal.add, T, n, **kw)
    check(_is_dt(r, e), tag + '%s = %s; walking %s business days from adjust = %s gives %s', what, _show(r), n, _d(start), _d(e))
    # bdays(t, add(t, n)) == n
    b = call('bdays(%s, %s)' % (_d(t), _show(r)), cal.bdays, T, r, **kw)
    check(b == n, tag + 'bdays(%s, %s) = %s where the second date is %s; expected %s', _d(t), _show(r), b, what, n)
    # inverse for a business day t
    if isb:
        back = call('add(%s, %i)' % (_show(r), -n), cal.add, r, -n, **kw)
        check(_is_dt(back, t), tag + 'add(add(t, %s), %s) = %s for the business day t = %s (add(t, %s) = %s)', n, -n, _show(back), _d(t), n, _show(r))
    # single-step path vs indexed path
    for s in (1, -1):
        if not 0 <= i + 2 * s < nb:
            continue                     # at the first / last business day of the range the two-step walk does not fit
        one = call('add(%s, %i)' % (_d(t), s), cal.add, T, s, **kw)
        two = call('add(add(%s, %i), %i)' % (_d(t), s, s), cal.add, one, s, **kw)
        direct = call('add(%s, %i)' % (_d(t), 2 * s), cal.add, T, 2 * s, **kw)
        check(isinstance(direct, datetime.datetime) and direct == two, tag + 'add(%s, %s) = %s but add(add(t, %s), %s) = %s (adj %s)', _d(t), 2 * s, _show(direct), s, s, _show(two), eff)
    # second route into add
    bump = '%ib' % n
    if a is None:
        r2 = call('dt_bump(%s, %r)' % (_d(t), bump), cal.dt_bump, T, bump)
    else:
        r2 = call('dt_bump(%s, %r, %r)' % (_d(t), bump, a), cal.dt_bump, T, bump, a)
    check(_is_dt(r2, e), tag + 'add reached through dt_bump(%s, %s, adj=%s) = %s; walking from adjust = %s gives %s', _d(t), bump, a, _show(r2), _d(start), _d(e))

    if not isb:
        flags.add('pt_nonbday')
        if t in ref.hol and _wd(t) not in ref.weekend:
            flags.add('pt_holiday_weekday')
    if eff == 'm' and exp['m'] != exp['f']:
        flags.add('pt_month_end_rule')
    if abs(n) > 1:
        flags.add('pt_table_path')
    else:
        flags.add('pt_loop_path')
    if n < 0:
        flags.add('pt_negative_n')
    if a is not None and eff != cfg['adj']:
        flags.add('pt_adj_override')
    if a is not None and a != eff:
        flags.add('pt_adj_override_spelled_long_or_upper')
    if n == 0 and not isb:
        flags.add('pt_n=0_nonbday')
    if abs(n) == NMAX:
        flags.add('pt_|n|=40')
    if i == 0 or i + n == 0:
        flags.add('pt_touches_first_bday_of_range')
    if i == nb - 1 or i + n == nb - 1:
        flags.add('pt_touches_last_bday_of_range')
    if eff == 'm' and exp['m'] != exp['f'] and _month(exp['p']) != _month(t):
        flags.add('pt_month_closed_both_ways')
    crosses = ref.hol_run2_between(min(start, e) - 1, max(start, e) + 1) if n else False
    if crosses:
        flags.add('pt_crosses_run>=2')
    return (not isb) or crosses or (eff == 'm' and exp['m'] != exp['f'])


def run_day_laws(spec):
    cfg = spec['cfg']
    ref = _ref(cfg)
    B = ref.B
    for t, n, a in spec['pts']:
        if len(B) < 4 or not (B[0] <= t <= B[-1] and abs(n) <= NMAX and 0 <= ref.idx[ref.adj(t, _letter(a or cfg['adj']))] + n < len(B)):
            raise HarnessError('day_laws spec has a point whose walk leaves the business days of the range')
    cal = _cal(cfg)
    flags = set()
    nt = 0
    for t, n, a in spec['pts']:
        nt += bool(_point_laws(cal, ref, cfg, t, n, a, flags))
    # the vectorised spelling adjust([t1, t2, ..], adj) / adjust({k: t}, adj) is the same function applied to each date
    ts = [p[0] for p in spec['pts'][:3]]
    for a in (None, spec['pts'][0][2]):
        eff = _letter(a or cfg['adj'])
        got = call('adjust(list of %i dates, %r)' % (len(ts), a), cal.adjust, [_mk(t) for t in ts], a)
        check(isinstance(got, list) and len(got) == len(ts) and all(_is_dt(g, ref.adj(t, eff)) for g, t in zip(got, ts)),
              '[' + _cfg_txt(cfg) + '] adjust(%s, %s) = %s; date by date the answer is %s', [_d(t) for t in ts], a, [_show(g) for g in got] if isinstance(got, list) else got,
              [_d(ref.adj(t, eff)) for t in ts])
        got = call('adjust(dict of %i dates, %r)' % (len(ts), a), cal.adjust, dict(('k%i' % j, _mk(t)) for j, t in enumerate(ts)), a)
        check(isinstance(got, dict) and sorted(got) == ['k%i' % j for j in range(len(ts))] and all(_is_dt(got['k%i' % j], ref.adj(t, eff)) for j, t in enumerate(ts)),
              '[' + _cfg_txt(cfg) + '] adjust(dict of %s, %s) = %s; date by date the answer is %s', [_d(t) for t in ts], a, got, [_d(ref.adj(t, eff)) for t in ts])
    return dict(nt=nt > 0, cls=_cfg_classes(cfg, ref) + sorted(flags))


# ----------------------------------------------------------------------------- drange_1b

@st.composite
def _drange_case(draw, tier):
    cfg = draw(_cfg(120, 500))
    ref = _ref(cfg)
    if len(ref.B) < 2:
        cfg = dict(cfg, hols=[], runs=[])
        ref = _ref(cfg)
    lo, hi = ref.B[0], ref.B[-1]
    special = sorted(set(o for o in _expand(cfg) if lo <= o <= hi))
    t_s = st.one_of(st.integers(lo, hi), st.sampled_from(special), st.sampled_from([lo, lo + 1, hi - 1, hi])) if special else st.one_of(st.integers(lo, hi), st.sampled_from([lo, hi]))
    span = st.one_of(st.integers(0, 12), st.integers(0, 90), st.integers(0, hi - lo), st.sampled_from([0, 0, hi - lo]))
    npairs = draw(st.integers(1, 25))
    pairs = draw(st.lists(st.tuples(t_s, span).map(lambda p: [p[0], min(hi, p[0] + p[1])]), min_size=npairs, max_size=npairs))
    return dict(cfg=cfg, pairs=pairs)


def _drange_law(cal, ref, cfg, t, u, flags):
    tag = '[%s] ' % _cfg_txt(cfg)
    a, b = ref.adj(t, cfg['adj']), ref.adj(u, cfg['adj'])
    exp = ref.between(a, b)
    what = "drange(%s, %s, '1b')" % (_d(t), _d(u))
    got = call(what, cal.drange, _mk(t), _mk(u), '1b')
    check(isinstance(got, list) and all(isinstance(g, datetime.datetime) for g in got), tag + '%s returned %s', what, got)
    gos = [g.toordinal() if g == _mk(g.toordinal()) else g for g in got]
    if gos != exp:
        missing = [_d(o) for o in exp if o not in gos][:5]
        extra = [_show(g) for g, o in zip(got, gos) if o not in set(exp)][:5]
        inc = all(x < y for x, y in zip(got[:-1], got[1:]))
        check(False, tag + '%s has %s dates; the business days between the adjusted endpoints %s and %s are %s. missing %s extra %s increasing=%s',
              what, len(got), _d(a), _d(b), len(exp), missing, extra, inc)
    nonb = not ref.isb(t) or not ref.isb(u)
    if nonb:
        flags.add('endpoint_nonbday')
    if not ref.isb(t) and not ref.isb(u):
        flags.add('both_endpoints_nonbday')
    if len(exp) == 0:
        flags.add('empty_result')
    if len(exp) == 1:
        flags.add('single_day')
    if t == u and not ref.isb(t):
        flags.add('same_day_nonbday')
    if len(exp) >= 100:
        flags.add('result>=100_days')
    if a == ref.B[0]:
        flags.add('starts_at_first_bday_of_range')
    if b == ref.B[-1]:
        flags.add('ends_at_last_bday_of_range')
    if t < u and not any(ref.isb(o) for o in range(t, u + 1)):
        flags.add('span_inside_one_closure')
    inner_hol = any(o in ref.hol and _wd(o) not in ref.weekend for o in range(a, b + 1))
    if inner_hol:
        flags.add('holiday_inside')
    if cfg['adj'] == 'm' and (ref.adj(t, 'm') != ref.adj(t, 'f') or ref.adj(u, 'm') != ref.adj(u, 'f')):
        flags.add('endpoint_month_end_rule')
    return nonb or inner_hol


def run_drange(spec):
    cfg = spec['cfg']
    ref = _ref(cfg)
    if len(ref.B) < 2 or not all(ref.B[0] <= t <= u <= ref.B[-1] for t, u in spec['pairs']):
        raise HarnessError('drange_1b spec has an endpoint outside [first, last] business day or t > u')
    cal = _cal(cfg)
    flags = set()
    nt = 0
    for t, u in spec['pairs']:
        nt += bool(_drange_law(cal, ref, cfg, t, u, flags))
    return dict(nt=nt > 0, cls=_cfg_classes(cfg, ref) + sorted(flags))


# ----------------------------------------------------------------------------- all_days (complete enumeration of one configuration)

@st.composite
def _all_case(draw, tier):
    # at least one run: even the simplest configuration hypothesis can draw has a holiday
    cfg = draw(_cfg(90, 200, max_runs=3, min_runs=1) if tier == 'quick' else _cfg(365, 800, min_runs=1))
    ref = _ref(cfg)
    if len(ref.B) < 4:
        cfg = dict(cfg, hols=[], runs=[[s, 1] for s, l in cfg['runs']])
    return dict(cfg=cfg)


def run_all_days(spec):
    cfg = spec['cfg']
    ref = _ref(cfg)
    B, idx = ref.B, ref.idx
    if len(B) < 4:
        raise HarnessError('all_days spec has fewer than 4 business days')
    cal = _cal(cfg)
    adj = cfg['adj']
    tag = '[%s] ' % _cfg_txt(cfg)
    nb = len(B)
    flags = set()
    npts = 0
    first, last = B[0], B[-1]
    for t in range(first, last + 1):
        T = _mk(t)
        isb = ref.isb(t)
        got = call('is_bday(%s)' % _d(t), cal.is_bday, T)
        check(bool(got) == isb, tag + 'is_bday(%s) = %s; day-by-day says %s', _d(t), got, isb)
        got = call('is_holiday(%s)' % _d(t), cal.is_holiday, T)
        check(bool(got) == (not isb), tag + 'is_holiday(%s) = %s; day-by-day says %s', _d(t), got, not isb)
        exp = {}
        for x in 'fpm':
            exp[x] = ref.adj(t, x)
            got = call('adjust(%s, %r)' % (_d(t), x), cal.adjust, T, x)
            check(_is_dt(got, exp[x]), tag + 'adjust(%s, %s) = %s; day-by-day walk gives %s', _d(t), x, _show(got), _d(exp[x]))
        if exp['m'] != exp['f']:
            flags.add('month_end_rule')
        i = idx[exp[adj]]
        for n in range(max(-NMAX, -i), min(NMAX, nb - 1 - i) + 1):
            e = B[i + n]
            r = call('add(%s, %i)' % (_d(t), n), cal.add, T, n)
            check(_is_dt(r, e), tag + 'add(%s, %s) = %s; the %s-th business day from adjust = %s is %s', _d(t), n, _show(r), n, _d(B[i]), _d(e))
            b = call('bdays(%s, %s)' % (_d(t), _show(r)), cal.bdays, T, r)
            check(b == n, tag + 'bdays(%s, add(t, %s) = %s) = %s', _d(t), n, _show(r), b)
            if isb:
                back = call('add(%s, %i)' % (_show(r), -n), cal.add, r, -n)
                check(_is_dt(back, t), tag + 'add(add(t, %s), %s) = %s for the business day t = %s', n, -n, _show(back), _d(t))
            npts += 1
        for s in (1, -1):
            if 0 <= i + 2 * s < nb:
                one = call('add(%s, %i)' % (_d(t), s), cal.add, T, s)
                two = call('add(%s, %i)' % (_show(one), s), cal.add, one, s)
                direct = call('add(%s, %i)' % (_d(t), 2 * s), cal.add, T, 2 * s)
                check(direct == two, tag + 'add(%s, %s) = %s but add(add(t, %s), %s) = %s', _d(t), 2 * s, _show(direct), s, s, _show(two))
        u = min(last, t + 9)
        a_, b_ = exp[adj], ref.adj(u, adj)
        got = call("drange(%s, %s, '1b')" % (_d(t), _d(u)), cal.drange, T, _mk(u), '1b')
        check(got == [_mk(o) for o in ref.between(a_, b_)], tag + "drange(%s, %s, '1b') = %s; business days between %s and %s are %s",
              _d(t), _d(u), [_show(g) for g in got] if isinstance(got, list) else got, _d(a_), _d(b_), [_d(o) for o in ref.between(a_, b_)])
    cls = _cfg_classes(cfg, ref) + sorted(flags)
    nonb = (last - first + 1) - nb
    return dict(nt=nonb > 0 and len(ref.hol) > 0, cls=cls + ['points>=10k' if npts >= 10000 else 'points<10k'])


# ----------------------------------------------------------------------------- registry machine

R0 = datetime.date(2000, 1, 3).toordinal()      # a Monday
RW = 70                                          # holidays and observed days lie in [R0, R0 + RW)
RT0, RT1 = R0 - 40, R0 + RW + 40                 # registered range
# None is the key of the default calendar(); the others are a prefix / a case variant / the str() of one another, and '' is falsy
KEYS = ['US', 'USD', 'us', None, 'None', '']

_hols_s = st.lists(st.integers(0, RW - 1), max_size=25)
_hols1_s = st.lists(st.integers(0, RW - 1), min_size=1, max_size=25)
_key_s = st.sampled_from(KEYS)
_wk_s = st.sampled_from(WEEKENDS)


class RegistryModel(object):
    OPS = {
        'register': dict(key=_key_s, hols=_hols_s, weekend=_wk_s),                 # calendar(key, holidays, weekend, t0, t1)
        'reregister_hols': dict(key=_key_s, hols=_hols_s),                          # calendar(key, holidays, t0=, t1=): weekend omitted
        'register_obj': dict(key=_key_s, hols=_hols_s, weekend=_wk_s),             # calendar(Calendar(key, ...))
        'reregister_obj': dict(key=_key_s, hols=_hols1_s),                          # calendar(calendar(key), holidays=h)
        'reregister_only_hols': dict(key=_key_s, hols=st.one_of(st.just([]), _hols_s)),   # calendar(key, holidays=h): nothing else passed, h often []
        'reregister_no_range': dict(key=_key_s, hols=st.one_of(st.just([]), _hols_s), weekend=_wk_s),  # calendar(key, holidays=h, weekend=w): no t0/t1
        'register_pair': dict(pair=st.integers(0, 3), hols=_hols_s, hols2=_hols_s, weekend=_wk_s),   # two keys with related names, one after the other
        'reregister_tweak': dict(key=_key_s, j=st.integers(0, 30), d=st.integers(0, 60)),  # same number of holidays, same first and last, one in the middle moved
        'fetch': dict(key=_key_s),                                                  # calendar(key)
        'populate': dict(key=_key_s, k=st.integers(0, RW - 1), n=st.integers(2, 6)),  # force the lookup tables of the registered object
    }
    PRE = {
        'reregister_obj': lambda m: len(m.model) > 0,
        'reregister_tweak': lambda m: len(m._tweakable()) > 0,
        'populate': lambda m: any(v['small'] for v in m.model.values()),
    }

    def __init__(self):
        import pyg_base as D               # public names only: calendar, Calendar and the registry dict `calendars`
        self.D = D
        D.calendars.clear()          # the registry is module-global: every history starts from an empty one
        self.model = {}              # key -> dict(hols=set of ordinals, weekends=[candidate weekend lists], small=bool)
        self.flags = set()
        self.tables = set()          # keys whose registered object had its lookup tables built at some point
        self.rereg_then_seen = False
        self.steps = 0

    def teardown(self):
        self.D.calendars.clear()

    # ---- operations
    def _dts(self, hols):
        return [_mk(R0 + i) for i in hols]

    def _note_rereg(self, key, hols):
        if key in self.model:
            self.flags.add('reregistered')
            if self.model[key]['hols'] != set(R0 + i for i in hols):
                self.flags.add('reregistered_other_holidays')
            if key in self.tables:
                self.flags.add('reregistered_after_tables_built')

    def op_register(self, key, hols, weekend):
        self._note_rereg(key, hols)
        call('calendar(%r, holidays, weekend=%s, t0, t1)' % (key, weekend), self.D.calendar, key, self._dts(hols), list(weekend), _mk(RT0), _mk(RT1))
        self.model[key] = dict(hols=set(R0 + i for i in hols), weekends=[list(weekend)], small=True)

    PAIRS = [('US', 'us'), ('US', 'USD'), (None, 'None'), (None, '')]

    def op_register_pair(self, pair, hols, hols2, weekend):
        a, b = self.PAIRS[pair]
        self.op_register(a, hols, weekend)
        self.op_register(b, hols2, weekend)

    def _known(self, key, salt):
        # re-registration ops aim at a key that is already registered (six key names would otherwise rarely meet twice)
        if key in self.model or not self.model:
            return key
        ks = sorted(self.model, key=repr)
        return ks[salt % len(ks)]

    def op_reregister_hols(self, key, hols):
        key = self._known(key, len(hols))
        self._note_rereg(key, hols)
        old = self.model.get(key)
        call('calendar(%r, holidays, t0=, t1=)' % key, lambda: self.D.calendar(key, self._dts(hols), t0=_mk(RT0), t1=_mk(RT1)))
        cands = [[5, 6]] + ([w for w in old['weekends'] if w != [5, 6]] if old else [])
        self.model[key] = dict(hols=set(R0 + i for i in hols), weekends=cands, small=True)
        self.flags.add('weekend_omitted')

    def _note_empty(self, key, hols, weekend):
        # a registration in which every argument besides the key is falsy ([] holidays, [] or no weekend, no range)
        if not hols and not weekend:
            self.flags.add('registered_with_only_empty_arguments')
            old = self.model.get(key)
            if old is not None and (old['hols'] or (weekend is not None and [] not in old['weekends'])):
                self.flags.add('reregistered_empty_over_nonempty')

    def op_reregister_only_hols(self, key, hols):
        key = self._known(key, sum(hols))
        self._note_rereg(key, hols)
        self._note_empty(key, hols, None)
        old = self.model.get(key)
        call('calendar(%r, holidays=%s)' % (key, [_d(R0 + i) for i in hols]), lambda: self.D.calendar(key, holidays=self._dts(hols)))
        cands = [[5, 6]] + ([w for w in old['weekends'] if w != [5, 6]] if old else [])
        # no t0/t1: the library builds the default 1900-2300 range, so the table path is not compared for this registration
        self.model[key] = dict(hols=set(R0 + i for i in hols), weekends=cands, small=False)
        self.flags.add('weekend_omitted')
        self.flags.add('range_omitted')

    def op_reregister_no_range(self, key, hols, weekend):
        key = self._known(key, sum(hols) + len(weekend))
        self._note_rereg(key, hols)
        self._note_empty(key, hols, weekend)
        call('calendar(%r, holidays=%s, weekend=%s)' % (key, [_d(R0 + i) for i in hols], weekend), lambda: self.D.calendar(key, holidays=self._dts(hols), weekend=list(weekend)))
        self.model[key] = dict(hols=set(R0 + i for i in hols), weekends=[list(weekend)], small=False)
        self.flags.add('range_omitted')

    def _tweakable(self):
        # keys with >= 3 holidays and a free day strictly between the first and the last one
        return [k for k in sorted(self.model, key=repr) if len(self.model[k]['hols']) >= 3
                and max(self.model[k]['hols']) - min(self.model[k]['hols']) + 1 > len(self.model[k]['hols'])]

    def op_reregister_tweak(self, key, j, d):
        keys = self._tweakable()
        if key not in keys:
            key = keys[0]
        old = self.model[key]
        hs = sorted(old['hols'])
        free = [o for o in range(hs[0] + 1, hs[-1]) if o not in old['hols']]
        hs[1 + j % (len(hs) - 2)] = free[d % len(free)]
        weekend = list(old['weekends'][0])
        self.flags.add('reregistered')
        self.flags.add('reregistered_other_holidays')
        self.flags.add('reregistered_same_count_first_last')
        if key in self.tables:
            self.flags.add('reregistered_after_tables_built')
        call('calendar(%r, holidays=%s, weekend=%s, t0, t1)' % (key, [_d(o) for o in hs], weekend), self.D.calendar, key, [_mk(o) for o in hs], weekend, _mk(RT0), _mk(RT1))
        self.model[key] = dict(hols=set(hs), weekends=[weekend], small=True)

    def op_register_obj(self, key, hols, weekend):
        self._note_rereg(key, hols)
        c = call('Calendar(%r, ...)' % key, self.D.Calendar, key, self._dts(hols), list(weekend), _mk(RT0), _mk(RT1))
        call('calendar(<Calendar %r>)' % key, self.D.calendar, c)
        self.model[key] = dict(hols=set(R0 + i for i in hols), weekends=[list(weekend)], small=True)
        self.flags.add('object_route')

    def op_reregister_obj(self, key, hols):
        if key not in self.model:
            key = sorted(self.model, key=repr)[0]
        self._note_rereg(key, hols)
        old = self.model[key]
        c = call('calendar(%r)' % key, self.D.calendar, key)
        call('calendar(<Calendar %r>, holidays=h)' % key, lambda: self.D.calendar(c, holidays=self._dts(hols)))
        self.model[key] = dict(hols=set(R0 + i for i in hols), weekends=list(old['weekends']), small=old['small'])
        self.flags.add('object_route')

    def op_fetch(self, key):
        c = call('calendar(%r)' % key, self.D.calendar, key)
        if key not in self.model:
            self.model[key] = dict(hols=set(), weekends=[[5, 6]], small=False)   # an unknown key makes a default calendar (1900-2300)
            self.flags.add('fetch_unknown_key')
        else:
            self.flags.add('fetch_known_key')

    def op_populate(self, key, k, n):
        keys = [x for x in sorted(self.model, key=repr) if self.model[x]['small']]
        if key not in keys:
            key = keys[0]
        c = call('calendar(%r)' % key, self.D.calendar, key)
        call('calendar(%r).add(%s, %i)' % (key, _d(R0 + k), n), c.add, _mk(R0 + k), n)
        self.tables.add(key)
        self.flags.add('tables_built')

    # ---- invariant: every registered key answers according to its LAST registration
    def check(self):
        self.steps += 1
        for key in sorted(self.model, key=repr):
            m = self.model[key]
            c = call('calendar(%r)' % key, self.D.calendar, key)
            obs = [bool(call('calendar(%r).is_bday' % key, c.is_bday, _mk(o))) for o in range(R0, R0 + RW)]
            match = None
            for w in m['weekends']:
                ws = set(w)
                if obs == [(_wd(o) not in ws and o not in m['hols']) for o in range(R0, R0 + RW)]:
                    match = w
                    break
            if match is None:
                w = m['weekends'][0]
                bad = [o for j, o in enumerate(range(R0, R0 + RW)) if obs[j] != (_wd(o) not in set(w) and o not in m['hols'])]
                check(False, 'calendar(%s) does not reflect its last registration (holidays %s, weekend %s): is_bday differs on %s (is_bday there = %s)',
                      key, [_d(o) for o in sorted(m['hols'])], m['weekends'], [_d(o) for o in bad[:6]], [obs[o - R0] for o in bad[:6]])
            for o in range(R0, R0 + RW, 3):
                got = call('calendar(%r).is_holiday(%s)' % (key, _d(o)), c.is_holiday, _mk(o))
                check(bool(got) == (not obs[o - R0]), 'calendar(%s).is_holiday(%s) = %s but is_bday = %s', key, _d(o), got, obs[o - R0])
            ref = Ref(RT0, RT1, match, m['hols'])
            probes = (0, 23, 47)
            for k in probes:
                t = R0 + k
                for a in 'fp':
                    got = call('calendar(%r).adjust(%s, %r)' % (key, _d(t), a), c.adjust, _mk(t), a)
                    check(_is_dt(got, ref.adj(t, a)), 'calendar(%s).adjust(%s, %s) = %s; last registration (holidays %s) implies %s', key, _d(t), a, _show(got),
                          [_d(o) for o in sorted(m['hols'])], _d(ref.adj(t, a)))
                got = call('calendar(%r).add(%s, 1, "f")' % (key, _d(t)), c.add, _mk(t), 1, 'f')
                check(_is_dt(got, ref.add(t, 1, 'f')), 'calendar(%s).add(%s, 1, "f") = %s; last registration implies %s', key, _d(t), _show(got), _d(ref.add(t, 1, 'f')))
                got = call('calendar(%r).add(%s, -1, "p")' % (key, _d(t)), c.add, _mk(t), -1, 'p')
                check(_is_dt(got, ref.add(t, -1, 'p')), 'calendar(%s).add(%s, -1, "p") = %s; last registration implies %s', key, _d(t), _show(got), _d(ref.add(t, -1, 'p')))
            if m['small'] and key in self.tables:
                # the indexed path must follow the last registration too (a table kept from an earlier registration would show here)
                for k in probes:
                    t = R0 + k
                    got = call('calendar(%r).add(%s, 4, "f")' % (key, _d(t)), c.add, _mk(t), 4, 'f')
                    check(_is_dt(got, ref.add(t, 4, 'f')), 'calendar(%s).add(%s, 4, "f") = %s; last registration (holidays %s, weekend %s) implies %s', key, _d(t), _show(got),
                          [_d(o) for o in sorted(m['hols'])], match, _d(ref.add(t, 4, 'f')))
                got = call('calendar(%r).bdays(%s, %s, "f")' % (key, _d(R0), _d(R0 + RW)), c.bdays, _mk(R0), _mk(R0 + RW), 'f')
                e = ref.idx[ref.adj(R0 + RW, 'f')] - ref.idx[ref.adj(R0, 'f')]
                check(got == e, 'calendar(%s).bdays(%s, %s, "f") = %s; last registration implies %s', key, _d(R0), _d(R0 + RW), got, e)
            if 'reregistered_other_holidays' in self.flags:
                self.rereg_then_seen = True
        # keys whose names are related must stay separate entries
        for a, b, label in (('US', 'us', 'case_variant_keys_differ'), ('US', 'USD', 'prefix_keys_differ'), (None, 'None', 'None_and_str_None_differ'), (None, '', 'None_and_empty_string_differ')):
            if a in self.model and b in self.model and (self.model[a]['hols'] != self.model[b]['hols'] or self.model[a]['weekends'][0] != self.model[b]['weekends'][0]):
                self.flags.add(label)

    def info(self):
        cls = sorted(self.flags) + ['keys=%i' % min(len(self.model), 4)]
        return dict(nt=self.rereg_then_seen, cls=cls)


# ----------------------------------------------------------------------------- registration

KNOWN = {}

SUBS = [
    Sub('day_laws', _day_case, run_day_laws, quick=640, thorough=8000,
        rule='calendar configuration (range 500-1095 days starting on any weekday 1996-2004, weekend in {Sat-Sun, Fri-Sat, Sun, none}, adj in {f,p,m}, '
             'holidays = 0-63% of days at random + 0-4 runs of 1-40 consecutive holidays placed at random / across a month end / around a weekend) x 1-40 points '
             '(t mostly in the interior so that 41 business days either side stay in range, biased to holidays, month ends, month-long closures and the first/last '
             'business days of the range with n clipped so that the walk just fits; n in [-40,40] biased to |n|<=3 and to 0, +-1, +-40; '
             'adj override None or any spelling of f/p/m; holidays as list/tuple/dict keys/bare datetime/None; weekend as list/tuple/int/reversed/duplicated/numpy/range; '
             'runs also across 31 Dec-1 Jan, over 29 Feb and over one whole calendar month). Oracle = day-by-day walk on ordinals: is_bday, is_holiday, adjust f/p/m/default, add, bdays(t, add(t,n)) == n, '
             'add(add(t,n),-n) == t for business t, add(t,+-2) == add(add(t,+-1),+-1), dt_bump(t,"nb"[, adj]), adjust(list/dict of dates). '
             'non-trivial = some point has t non-business, or its walk crosses >= 2 consecutive holidays, or the modified-following month-end rule fires',
        floor=0.5, class_floors={'pt_month_end_rule': 0.1, 'pt_crosses_run>=2': 0.2, 'pt_holiday_weekday': 0.3, 'run_straddles_month_end': 0.1,
                                 'weekend=none': 0.1, 'weekend=6': 0.1, 'weekend=4,5': 0.1, 'adj=p': 0.15, 'adj=f': 0.15, 'adj=m': 0.15,
                                 # appendix classes: boundaries (9), degenerate shapes (6), sizes (1), duplicates / order (8, 3), spellings (5, 10)
                                 'pt_|n|=40': 0.3, 'pt_n=0_nonbday': 0.2, 'pt_touches_first_bday_of_range': 0.2, 'pt_touches_last_bday_of_range': 0.2,
                                 'pt_month_closed_both_ways': 0.03, 'run>=31_days': 0.08, 'holiday_on_29feb': 0.02, 'holiday_on_31dec_or_1jan': 0.15,
                                 'holiday_list>=100': 0.2, 'range>=2000_days': 0.03, 'holidays_duplicated': 0.3, 'holidays_unsorted': 0.5,
                                 'weekend_as=rev': 0.02, 'weekend_as=dup': 0.02, 'weekend_as=np': 0.02, 'weekend_as=range': 0.02, 'weekend_as=int': 0.01,
                                 'holidays_as=keys': 0.05, 'holidays_as=auto': 0.05, 'holidays_as=tuple': 0.05,
                                 'adj_spelled_long_or_upper': 0.3, 'pt_adj_override_spelled_long_or_upper': 0.4}),
    Sub('drange_1b', _drange_case, run_drange, quick=1000, thorough=8000,
        rule='configuration as in day_laws (range 120-500 days) x 1-25 pairs t <= u between the first and last business day, spans 0-12 / 0-90 / anything, '
             'endpoints biased to holidays and to the first / last business day of the range, t == u included. Oracle: the list of business days d with adjust(t) <= d <= adjust(u), found by visiting every day, compared as a list '
             '(order, nothing missing, nothing extra). non-trivial = an endpoint is not a business day or a weekday holiday lies inside',
        floor=0.5, class_floors={'endpoint_nonbday': 0.3, 'holiday_inside': 0.3, 'single_day': 0.05, 'same_day_nonbday': 0.2, 'result>=100_days': 0.15,
                                 'starts_at_first_bday_of_range': 0.3, 'ends_at_last_bday_of_range': 0.3, 'span_inside_one_closure': 0.1,
                                 'weekend_as=rev': 0.02, 'holidays_as=keys': 0.05}),
    Sub('all_days', _all_case, run_all_days, quick=12, thorough=100,
        rule='one configuration, completely enumerated: every day between the first and last business day of the range (quick: range 90-200 days; thorough: 365-800 days) '
             'for is_bday/is_holiday/adjust f,p,m/drange(t, t+9), and every n in [-40,40] whose walk stays in range for add, bdays, inverse; 2-step law. '
             'non-trivial = the configuration has holidays and non-business days',
        floor=0.25),
    MachineSub('registry', RegistryModel, quick=(600, 12), thorough=(1500, 20),
               rule='histories of register(key, holidays, weekend, t0, t1) / re-register with holidays + range / re-register with ONLY holidays=h (often []) / re-register with holidays=h, weekend=w and no range (h and w often []) / register a Calendar object / re-register through the object / '
                    'fetch(key) / populate tables / register two keys with related names / re-register with the same number of holidays and the same first and last one; '
                    '6 keys (US, USD, us, None, "None", ""), holidays in a 70-day window; after every step every key known to the model is fetched and is_bday over the window, '
                    'is_holiday, adjust, add(+1) and - for small ranges - the table path add(+4) and bdays are compared with the LAST registration. '
                    'non-trivial = a key was re-registered with different holidays and fetched afterwards; registry cleared at the start of every history',
               floor=0.3, class_floors={'reregistered_after_tables_built': 0.1, 'object_route': 0.2, 'reregistered_empty_over_nonempty': 0.1,
                                        'case_variant_keys_differ': 0.1, 'prefix_keys_differ': 0.1, 'None_and_str_None_differ': 0.1,
                                        'None_and_empty_string_differ': 0.1, 'reregistered_same_count_first_last': 0.15,
                                        'registered_with_only_empty_arguments': 0.15}),
]

# quick tier: the runner splits day_laws and drange_1b (quick >= 800) over 4 processes; all_days (few, expensive cases) likewise
for _s in SUBS:
    if _s.name in ('day_laws', 'drange_1b', 'all_days'):
        _s.qshards = 4
