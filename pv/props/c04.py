# -*- coding: utf-8 -*-
"""
C04 - dt() maps every supported spelling of an instant to the same datetime.

Sub-checks
    spellings   Hypothesis: (day, time of day) -> every spelling of the statement is fed to dt()/ymd()/dt2str()
    edge_years  the same oracle on every day of five whole years (both tiers; deterministic)
    all_days    the same oracle on EVERY day of [1900-01-01, 2300-01-01) (146 097 specs; time of day derived from the ordinal)
    overflow    dt(y, m, d) for one (y, m) and ALL d in [-400, 400]; quick samples (y, m), thorough enumerates all
                400 years x 85 months (34 000 specs = 27 234 000 triples); every 16th triple again in other raw number types
    session     state carried between calls: the spellings of one instant are built once and 2-5 calls of dt / ymd are made on a pool of
                1-3 of those objects (same text under both dialects in either order, repeated calls, ymd before dt, prefix-related texts);
                every call is judged by the single-call oracle. A spec is {o, sec, us, sep, calls: [[kind, dialect, 'dt'|'ymd'], ...]}

A spec of spellings/all_days is  [ordinal, seconds of the day, microseconds]  (+ optional 4th element True = also
evaluate the input class that is excluded as a known defect, see UK_FRACTION below). Every day is also read as a zone-aware datetime / pd.Timestamp
(fixed offset from the ordinal) and 15 calls are repeated with the declared defaults of dialect / tzinfo / none / fmt passed explicitly. All strings are built here with
plain %-formatting from the fields of the python datetime (no strftime -> no locale, no dt2str).
"""
import datetime
import os

from hypothesis import strategies as st

from pv.core import Sub, EnumSub, Violation, call, must_raise, check, short

ASSUMPTIONS = [
    'days in [1900-01-01, 2300-01-01), dialect in {uk, us}; every spelling is zone-less (naive) except the two objects that can carry a zone themselves, see the next line',
    'zone-aware stamps (generalisation class 21): a python datetime and a pd.Timestamp of the instant in ONE fixed-offset zone (datetime.timezone, offset != 0, rotating with the ordinal) are read by dt / ymd: '
    'the result must be zone-aware and equal the instant ("dt(t) will leave t\'s timezone intact", dt docstring); ymd = midnight of the same calendar day in the same zone. Zones with DST / pytz zones are not generated '
    '(datetime(..., tzinfo=pytz zone) means local mean time: not an instant the statement talks about)',
    'NOT asserted (candidate defect, reported; behind INCLUDE_ZONE_TEXT = env PV_C04_INCLUDE_ZONE_TEXT=1): texts that carry a UTC offset - "yyyy-mm-ddThh:mm:ss.ffffff+05:30" and hence dt(dt2str(t)) of a zone-aware t: '
    'uk2dt / us2dt end in tz_replace(res, None), which REMOVES the offset (the naive wall time comes back, != t). The statement does not quantify over zones, so this is kept out by default',
    'explicit defaults (class 26): dialect="uk", tzinfo=None, none=datetime.datetime.now and dt2str(t, None) / dt2str(t, fmt=None) are the SAME calls as the ones without these keywords and are judged by the same oracle '
    '(any other value of none= / tzinfo= / fmt= stays outside the statement, see below)',
    'day and month fields of strings are zero-padded to two digits and the year has four digits (strftime spelling); unpadded / two-digit-year strings are outside the claim (DESIGN section 4)',
    'separators {-,/,.,space} are applied to the day-month-year and month-day-year strings; "ISO" is yyyy-mm-dd[Thh:mm:ss[.ffffff]] only',
    'month names are the English full names and 3-letter abbreviations, in the spellings "dd Month yyyy", "Month dd, yyyy", "dd-Mon-yyyy", "dd Mon yyyy" (capitalised; the first and third also in upper and lower case)',
    'a fraction of a second in a string has 1 to 9 digits and means a decimal fraction; digits beyond the sixth are zeros (sub-microsecond instants are not datetimes)',
    'time parts of dt(y, m, d, ...) are a prefix of (h, mi, s): 3, 4, 5 or 6 positional numbers; each number is a python int, a numpy int64 / int32 or an integer-valued python float / '
    'numpy float64 (one number in several raw types; month(), ym() and _ymd() normalise integer-valued floats explicitly). Parts inside a list / tuple are not a spelling of the statement',
    'dt(list) / dt(range) (element-wise mapping), the keywords none= and tzinfo=, dt2str with a format and dt(t, *bumps) are other features: the statement quantifies over single spellings, '
    'the two dialects and the default format only',
    'dialect is spelled "uk" / "us" (tests) or "US" (docstring); dialect="UK" is NOT asserted - the library reads every dialect other than lower-case "uk" as US (candidate defect, reported)',
    'a single numpy INTEGER (np.int64 yyyymmdd / ordinal) is NOT asserted: dt(np.int64(20000110)) raises TypeError in num2dt (candidate defect, reported; DESIGN 8.2 lists it as outside the statement); '
    'the yyyymmdd number and the ordinal are passed as python int and as the integer-valued python float / numpy float64 (num2dt reads int(n) and keeps n - int(n) as a fraction of a day); '
    'texts are python str and numpy str_',
    'lossless (microsecond) spellings: datetime, pd.Timestamp, datetime64[us], datetime64[ns], ISO string with fraction, dd-mm-yyyy / mm-dd-yyyy strings with hh:mm:ss.ffffff, dt2str round trip; '
    '(y,m,d,h,mi,s) and hh:mm:ss strings carry whole seconds; coarser datetime64 units are compared with the instant truncated to the unit',
    'datetime64[ns] only for days before 2262-04-11 (numpy cannot represent later instants in ns)',
    'integers: only the yyyymmdd integer and the proleptic ordinal are claimed; excel serials, year numbers, unix timestamps and today-offsets are not part of the statement',
    'wrong-dialect rejection is demanded only for day > 12 (with day <= 12 the other reading is a valid date and is what the statement calls ambiguous)',
    'overflow: y in [1900, 2299], m in [-36, 48], d in [-400, 400]; every triple as plain python ints, every 16th day also as numpy int64 / int32 / integer-valued float / numpy float64 (mixed)',
    'session: calls are dt / ymd with one spelling and a dialect; a numeric day/month text read in the dialect it was not written for is judged as the spelling of year-day-month when day <= 12 '
    '(that date lies in the same year, hence in the domain) and must raise ValueError when day > 12 (also through ymd, which is dt followed by a truncation); '
    'state is whatever the library keeps between calls - the check does not reset anything, it only opens every session with five fixed calls so that a replay starts from the same history',
    'LIFTED (was excluded by construction as a genuine defect, see UK_FRACTION; repaired in /repo by d325e52): UK-dialect dd-mm-yyyy string with a fractional-seconds time when day <= 12; '
    'INCLUDE_UK_FRACTION_LOW_DAYS is True, so spellings, edge_years, all_days and session all ask for it (False restores the exclusion; a spellings spec with a 4th element true asks for it regardless)',
]

# zone-aware TEXTS (an ISO string with a UTC offset, the dt2str round trip of a zone-aware stamp): the library strips the offset; enable after repairing uk2dt / us2dt
INCLUDE_ZONE_TEXT = os.environ.get('PV_C04_INCLUDE_ZONE_TEXT', '') == '1'
ZONE_TEXT = 'uk2dt / us2dt return tz_replace(res, tzinfo) with tzinfo None, i.e. res.replace(tzinfo = None): the UTC offset parsed from the text is removed'
ZONE_OFFSETS = [330, -480, 60, -210, 780, -300, 540, 345]   # minutes east of UTC, never 0: +05:30, -08:00, +01:00, -03:30, +13:00, -05:00, +09:00, +05:45


def _zone(o):
    return datetime.timezone(datetime.timedelta(minutes=ZONE_OFFSETS[o % len(ZONE_OFFSETS)]))


def _zone_text(o):
    off = ZONE_OFFSETS[o % len(ZONE_OFFSETS)]
    return '%s%02d:%02d' % ('+' if off >= 0 else '-', abs(off) // 60, abs(off) % 60)


# flip to True once uk2dt keeps the microseconds (then the generated cases include the class again)
INCLUDE_UK_FRACTION_LOW_DAYS = True
UK_FRACTION = 'uk2dt rebuilds the swapped date through dt(y, m, d, h, mi, s, us) which ignores its 7th argument: microseconds are dropped when day <= 12'

SEPS = ['-', '/', '.', ' ']
MONTHS = ['January', 'February', 'March', 'April', 'May', 'June', 'July', 'August', 'September', 'October', 'November', 'December']
O_MIN = datetime.date(1900, 1, 1).toordinal()      # 693596
O_MAX = datetime.date(2300, 1, 1).toordinal()      # 839693 (exclusive)
O_NS_MAX = datetime.date(2262, 4, 11).toordinal()  # datetime64[ns] is claimed strictly below this day
assert O_MAX - O_MIN == 146097

DT = datetime.datetime


def _is_leap(y):
    return y % 4 == 0 and (y % 100 != 0 or y % 400 == 0)


def _dim(y, m):
    return [31, 29 if _is_leap(y) else 28, 31, 30, 31, 30, 31, 31, 30, 31, 30, 31][m - 1]


def _same(what, got, exp):
    if not isinstance(got, DT):
        raise Violation('%s returned %s of type %s, expected the datetime %r' % (what, short(got), type(got).__name__, exp))
    if got.tzinfo is not None:
        raise Violation('%s returned the timezone-aware %r, expected the naive %r' % (what, got, exp))
    if not got == exp:
        raise Violation('%s = %r, expected %r' % (what, got, exp))


def _same_aware(what, got, exp):
    """exp is zone-aware: the result must be a zone-aware datetime of the same instant (== of aware datetimes compares instants; aware == naive is False)"""
    if not isinstance(got, DT):
        raise Violation('%s returned %s of type %s, expected the zone-aware datetime %r' % (what, short(got), type(got).__name__, exp))
    if got.tzinfo is None or got.utcoffset() is None:
        raise Violation('%s returned the naive %r, expected the zone-aware %r (the zone was removed)' % (what, got, exp))
    if not got == exp:
        raise Violation('%s = %r, expected the instant %r' % (what, got, exp))


_NOW = datetime.datetime.now     # the declared default of none=


def _kw_text(kw):
    return ''.join(', %s=%s' % (k, 'datetime.datetime.now' if v is _NOW else repr(v)) for k, v in kw.items())


def run_day(spec):
    import numpy as np
    import pandas as pd
    from pyg_base import dt, ymd, dt2str
    o, sec, us = spec[0], spec[1], spec[2]
    uk_fraction_low_days = INCLUDE_UK_FRACTION_LOW_DAYS or (len(spec) > 3 and bool(spec[3]))
    t = DT.fromordinal(o) + datetime.timedelta(seconds=sec, microseconds=us)
    y, m, d, h, mi, s = t.year, t.month, t.day, t.hour, t.minute, t.second
    day0 = DT(y, m, d)
    tsec = DT(y, m, d, h, mi, s)

    def one(f, fname, exp, *args, **kw):
        what = '%s(%s%s)' % (fname, ', '.join(repr(a) for a in args), _kw_text(kw))
        (_same if exp.tzinfo is None else _same_aware)(what, call(what, f, *args, **kw), exp)

    def both(exp, text):
        one(dt, 'dt', exp, text)
        one(dt, 'dt', exp, text, dialect='us')

    # ---- non-string spellings
    one(dt, 'dt', t, t)
    one(dt, 'dt', day0, datetime.date(y, m, d))
    one(dt, 'dt', day0, y, m, d)
    one(dt, 'dt', tsec, y, m, d, h, mi, s)
    one(dt, 'dt', DT(y, m, d, h), y, m, d, h)             # a prefix of [h, mi, s]
    one(dt, 'dt', DT(y, m, d, h, mi), y, m, d, h, mi)
    one(dt, 'dt', day0, y * 10000 + m * 100 + d)
    one(dt, 'dt', day0, o)
    for unit, exp in [('D', day0), ('h', DT(y, m, d, h)), ('m', DT(y, m, d, h, mi)), ('s', tsec),
                      ('ms', DT(y, m, d, h, mi, s, us - us % 1000)), ('us', t)] + ([('ns', t)] if o < O_NS_MAX else []):
        x = np.datetime64(exp, unit)
        what = 'dt(np.datetime64(%r, %r))' % (exp, unit)
        _same(what, call(what, dt, x), exp)
    ts = pd.Timestamp(t)
    _same('dt(pd.Timestamp(%r))' % str(t), call('dt(pd.Timestamp(%r))' % str(t), dt, ts), t)
    if o < O_NS_MAX:
        what = 'dt(pd.Timestamp(%r).as_unit("ns"))' % str(t)
        _same(what, call(what, dt, ts.as_unit('ns')), t)

    # ---- one number / one text / one stamp in several raw types (python int, numpy int64 / int32, integer-valued python float / numpy float64; numpy str_;
    #      pandas Timestamp in second / millisecond resolution). The rotation depends on the ordinal, so one call mixes several types
    num = (int, np.int64, float, np.int32, np.float64)
    parts = (y, m, d, h, mi, s)
    for n in (3, 6, 4, 5)[:2 + o % 3]:
        args = [num[(o + n + i) % 5](v) for i, v in enumerate(parts[:n])]
        one(dt, 'dt', DT(*parts[:n]), *args)
    one(dt, 'dt', day0, (float, np.float64)[o % 2](y * 10000 + m * 100 + d))
    one(dt, 'dt', day0, (np.float64, float)[o % 2](o))
    one(ymd, 'ymd', day0, (float, np.float64)[(o // 2) % 2](o))
    one(ymd, 'ymd', day0, *[num[(o + i) % 5](v) for i, v in enumerate(parts[:3])])
    for unit, exp in (('s', tsec), ('ms', DT(y, m, d, h, mi, s, us - us % 1000))):
        what = 'dt(pd.Timestamp(%r).as_unit(%r))' % (str(exp), unit)
        _same(what, call(what, dt, pd.Timestamp(exp).as_unit(unit)), exp)

    # ---- dialect-independent strings, read in both dialects
    hms = '%02d:%02d:%02d' % (h, mi, s)
    frac = '%s.%06d' % (hms, us)
    ymd_ = '%04d-%02d-%02d' % (y, m, d)
    both(t, ymd_ + 'T' + frac)
    both(tsec, ymd_ + 'T' + hms)
    both(day0, ymd_)
    both(day0, '%04d%02d%02d' % (y, m, d))
    both(day0, '%02d %s %04d' % (d, MONTHS[m - 1], y))
    both(tsec, '%02d %s %04d %s' % (d, MONTHS[m - 1], y, hms))
    both(day0, '%s %02d, %04d' % (MONTHS[m - 1], d, y))
    both(day0, '%02d-%s-%04d' % (d, MONTHS[m - 1][:3], y))
    both(day0, '%02d %s %04d' % (d, MONTHS[m - 1][:3], y))           # blank-separated abbreviation ('13 Dec 2100': digits, blank, a letter that is also a tenor unit)
    one(dt, 'dt', tsec, '%02d %s %04d %s' % (d, MONTHS[m - 1][:3], y, hms), **(dict(dialect='us') if o % 2 else {}))
    # ISO 'T' strings with a fraction of 1-5 and 7-9 digits (isoformat(timespec='milliseconds'), str(np.datetime64(t, 'ms' / 'ns'))):
    # the fraction is a decimal fraction of a second, whatever its length; digits beyond the microsecond are zeros here
    digits = '%06d000' % us
    for k in (1, 2, 3, 4, 5, 7, 8, 9):
        exp = DT(y, m, d, h, mi, s, int((digits[:k] + '000000')[:6]))
        text = '%sT%s.%s' % (ymd_, hms, digits[:k])
        if (o + k) % 2:
            one(dt, 'dt', exp, text)
        else:
            one(dt, 'dt', exp, text, dialect='us')
    # month names in upper / lower case
    if o % 2:
        one(dt, 'dt', day0, '%02d-%s-%04d' % (d, MONTHS[m - 1][:3].upper(), y))
        one(dt, 'dt', day0, '%02d %s %04d' % (d, MONTHS[m - 1].lower(), y), dialect='us')
    else:
        one(dt, 'dt', day0, '%02d-%s-%04d' % (d, MONTHS[m - 1][:3].lower(), y), dialect='us')
        one(dt, 'dt', day0, '%02d %s %04d' % (d, MONTHS[m - 1].upper(), y))

    # ---- day-month-year (uk) / month-day-year (us), four separators
    for sep in SEPS:
        dmy = '%02d%s%02d%s%04d' % (d, sep, m, sep, y)
        mdy = '%02d%s%02d%s%04d' % (m, sep, d, sep, y)
        one(dt, 'dt', day0, dmy)
        one(dt, 'dt', tsec, dmy + ' ' + hms)
        one(dt, 'dt', day0, dmy, dialect='uk')
        one(dt, 'dt', day0, mdy, dialect='us')
        one(dt, 'dt', tsec, mdy + ' ' + hms, dialect='us')
        one(dt, 'dt', t, mdy + ' ' + frac, dialect='us')
        if d > 12 or uk_fraction_low_days:
            one(dt, 'dt', t, dmy + ' ' + frac)
        if sep == SEPS[o % 4]:
            # one separator per day: the upper-case spelling of the dialect used in dt's docstring, and a short (1-5 digit) fraction
            k = 1 + o % 5
            exp = DT(y, m, d, h, mi, s, int((digits[:k] + '000000')[:6]))
            one(dt, 'dt', day0, mdy, dialect='US')
            one(dt, 'dt', exp, '%s %s.%s' % (mdy, hms, digits[:k]), dialect='us')
            if d > 12 or uk_fraction_low_days:
                one(dt, 'dt', exp, '%s %s.%s' % (dmy, hms, digits[:k]))
        if d > 12:
            # unambiguous but written in the other dialect: rejected, never swapped
            for text in (mdy, mdy + ' ' + hms):
                must_raise('dt(%r) [uk dialect, month-day-year string]' % text, ValueError, dt, text)
            for text in (dmy, dmy + ' ' + hms):
                must_raise('dt(%r, dialect="us") [day-month-year string]' % text, ValueError, dt, text, dialect='us')

    # ---- numpy strings (np.str_ is a str for the library: is_str): one separator per day
    sep = SEPS[(o // 4) % 4]
    dmy = '%02d%s%02d%s%04d' % (d, sep, m, sep, y)
    mdy = '%02d%s%02d%s%04d' % (m, sep, d, sep, y)
    one(dt, 'dt', t, np.str_(ymd_ + 'T' + frac))
    one(dt, 'dt', tsec, np.str_(dmy + ' ' + hms))
    one(dt, 'dt', day0, np.str_(mdy), dialect='us')
    if d > 12:
        must_raise('dt(np.str_(%r)) [uk dialect, month-day-year string]' % mdy, ValueError, dt, np.str_(mdy))
        must_raise('dt(np.str_(%r), dialect="us") [day-month-year string]' % dmy, ValueError, dt, np.str_(dmy), dialect='us')

    # ---- dt2str round trips (midnight -> yyyymmdd, intraday -> iso; both are dt2str's business, only the round trip is claimed)
    for x in (t, tsec, day0):
        text = call('dt2str(%r)' % x, dt2str, x)
        check(isinstance(text, str), 'dt2str(%s) returned %s, not a string', x, text)
        one(dt, 'dt', x, text)

    # ---- ymd() = the same day at midnight
    one(ymd, 'ymd', day0, t)
    one(ymd, 'ymd', day0, ts)
    one(ymd, 'ymd', day0, np.datetime64(t, 'us'))
    one(ymd, 'ymd', day0, datetime.date(y, m, d))
    one(ymd, 'ymd', day0, y, m, d, h, mi, s)
    one(ymd, 'ymd', day0, o)
    one(ymd, 'ymd', day0, ymd_ + 'T' + frac)
    one(ymd, 'ymd', day0, '%02d/%02d/%04d %s' % (d, m, y, hms))
    one(ymd, 'ymd', day0, '%02d/%02d/%04d %s' % (m, d, y, frac), dialect='us')

    # ---- zone-aware stamps: the instant in one fixed-offset zone (offset != 0, from the ordinal) as python datetime and as pd.Timestamp.
    #      The wall clock fields are those of t; the result must still be zone-aware and be the same instant; ymd = local midnight of the same day, same zone
    tz = _zone(o)
    ta, day0a = t.replace(tzinfo=tz), DT(y, m, d, tzinfo=tz)
    tsa = pd.Timestamp(ta)
    one(dt, 'dt', ta, ta)
    one(dt, 'dt', ta, tsa)
    one(ymd, 'ymd', day0a, ta)
    one(ymd, 'ymd', day0a, tsa)
    one(dt, 'dt', day0a, day0a)
    if o % 2:
        one(dt, 'dt', ta, pd.Timestamp(t).tz_localize(tz), **(dict(dialect='us') if o % 4 == 1 else {}))
    if INCLUDE_ZONE_TEXT:
        both(ta, ymd_ + 'T' + frac + _zone_text(o))
        both(ta.replace(microsecond=0), ymd_ + 'T' + hms + _zone_text(o))
        for x in (ta, day0a):
            text = call('dt2str(%r)' % x, dt2str, x)
            check(isinstance(text, str), 'dt2str(%s) returned %s, not a string', x, text)
            one(dt, 'dt', x, text)

    # ---- a parameter's own default passed explicitly (dialect='uk', tzinfo=None, none=datetime.datetime.now, dt2str's fmt=None), also handed on by ymd to dt:
    #      the very calls made above without the keywords; one separator per day
    sep = SEPS[(o // 2) % 4]
    dmy = '%02d%s%02d%s%04d' % (d, sep, m, sep, y)
    mdy = '%02d%s%02d%s%04d' % (m, sep, d, sep, y)
    one(dt, 'dt', t, t, dialect='uk', none=_NOW, tzinfo=None)
    one(dt, 'dt', tsec, dmy + ' ' + hms, dialect='uk', tzinfo=None)
    one(dt, 'dt', t, mdy + ' ' + frac, dialect='us', none=_NOW, tzinfo=None)
    one(dt, 'dt', day0, y, m, d, tzinfo=None)
    one(dt, 'dt', tsec, y, m, d, h, mi, s, dialect='uk', none=_NOW)
    one(dt, 'dt', day0, (o, y * 10000 + m * 100 + d)[o % 2], none=_NOW, tzinfo=None)
    one(dt, 'dt', t, np.datetime64(t, 'us'), tzinfo=None)
    one(dt, 'dt', ta, (ta, tsa)[o % 2], tzinfo=None)
    one(ymd, 'ymd', day0, t, dialect='uk', none=_NOW, tzinfo=None)
    one(ymd, 'ymd', day0, dmy + ' ' + hms, dialect='uk')
    one(ymd, 'ymd', day0, ymd_ + 'T' + frac, tzinfo=None)
    one(ymd, 'ymd', day0a, ta, none=_NOW, tzinfo=None)
    for x, args, kw in ((t, (None,), {}), (day0, (), dict(fmt=None)), ((tsec, t)[o % 2], (), dict(fmt=None))):
        what = 'dt2str(%r%s%s)' % (x, ''.join(', %r' % a for a in args), _kw_text(kw))
        text = call(what, dt2str, x, *args, **kw)
        check(isinstance(text, str), '%s returned %s, not a string', what, text)
        one(dt, 'dt', x, text)

    # ---- classes
    cls = ['zone_aware_datetime_and_timestamp', 'defaults_passed_explicitly']   # both by construction in every case (see the two blocks above)
    if INCLUDE_ZONE_TEXT:
        cls.append('zone_aware_texts')
    ambiguous = d <= 12 and d != m
    leap_day = m == 2 and d == 29
    year_boundary = (m == 1 and d == 1) or (m == 12 and d == 31)
    century = y % 100 in (0, 99)
    cls.append('ambiguous(day<=12,day!=month)' if ambiguous else 'day==month' if d == m else 'day>12')
    if leap_day:
        cls.append('leap_day')
    if year_boundary:
        cls.append('year_boundary')
    if century:
        cls.append('century_year')
    if m == 12:
        cls.append('december')
    if o < O_NS_MAX:
        cls.append('ns_representable')
    cls.append('midnight' if sec == 0 and us == 0 else 'whole_second' if us == 0 else 'microseconds')
    if us:
        # float seconds since 1970 cannot hold a microsecond from 2**33 s (2242-03-16) on, and 1e-9 * int64 ns loses it from about 2**32 s (2106-02-07) on
        if y >= 2243:
            cls.append('subsecond_from_2243')
        if y >= 2107 and o < O_NS_MAX:
            cls.append('subsecond_ns_2107_to_limit')
        if y < 1970:
            cls.append('subsecond_before_1970')
    if int(digits[:5]):
        cls.append('short_fraction_informative')   # the 1-5 digit prefixes are not all zero: "digits as a count" differs from "decimal fraction"
    if us and us % 1000 == 0:
        cls.append('whole_milliseconds')
    if sec == 0 and us == 1:
        cls.append('only_microsecond=1')
    if sec == 86399 and us == 999999:
        cls.append('last_microsecond_of_day')
    if h == 0 and (mi or s or us):
        cls.append('hour=0_time!=0')
    cls.append('numbers_and_texts_in_mixed_raw_types')   # by construction in every case (see the raw-type block above)
    if d == _dim(y, m):
        cls.append('month_end')
        if d >= 30:
            cls.append('month_end_30th_or_31st')
        if d == 28:
            cls.append('28feb_of_a_non_leap_year')      # the last day of its month AND a day every month has
    return dict(nt=bool(ambiguous or leap_day or year_boundary or (century and (m, d) in ((2, 28), (3, 1)))), cls=cls)


# ----------------------------------------------------------------------------- generators

_BOUNDARY_YEARS = [1900, 1901, 1904, 1969, 1970, 1999, 2000, 2001, 2038, 2099, 2100, 2199, 2200, 2261, 2262, 2263, 2299]
_LEAP_YEARS = [y for y in range(1900, 2300) if _is_leap(y)]
_years = st.one_of(st.integers(1900, 2299), st.integers(2107, 2299), st.sampled_from(_BOUNDARY_YEARS))   # the late range is boosted (float precision)


def _ordinal(ymd):
    y, m, d = ymd
    return datetime.date(y, m, min(d, _dim(y, m))).toordinal()


_day = st.one_of(
    st.tuples(_years, st.integers(1, 12), st.integers(1, 31)),
    st.tuples(_years, st.integers(1, 12), st.integers(1, 12)),           # the ambiguous region
    st.tuples(_years, st.integers(1, 12), st.integers(12, 14)),          # around the 12/13 threshold
    st.tuples(st.sampled_from(_LEAP_YEARS), st.just(2), st.just(29)),
    st.tuples(_years, st.just(2), st.integers(28, 29)),
    st.tuples(_years, st.integers(1, 12), st.sampled_from([28, 29, 30, 31, 31])),   # month ends (clamped to the month by _ordinal): 28 Feb of non-leap years, 30th / 31st
    st.tuples(_years, st.sampled_from([(1, 1), (12, 31), (12, 1), (1, 31), (3, 1)])).map(lambda t: (t[0], t[1][0], t[1][1])),
    # both ends of the domain, the unix epoch, the datetime64[ns] limit (these sit next to the numeric thresholds of num2dt / np2dt)
    st.sampled_from([(1900, 1, 1), (1900, 1, 2), (2299, 12, 31), (2299, 12, 30), (1969, 12, 31), (1970, 1, 1), (2262, 4, 10), (2262, 4, 11), (2262, 4, 12)]),
).map(_ordinal)

_sec = st.one_of(st.integers(0, 86399), st.integers(0, 86399), st.integers(3600, 86399), st.sampled_from([0, 0, 1, 59, 60, 3599, 3600, 43199, 43200, 86340, 86399]))
_us = st.one_of(st.integers(0, 999999), st.integers(0, 999999), st.sampled_from([0, 0, 1, 10, 100, 999, 1000, 5000, 120000, 250000, 500000, 999000, 999999]))
_time = st.one_of(st.tuples(_sec, _us), st.tuples(_sec, _us), st.tuples(_sec, _us), st.tuples(_sec, _us), st.tuples(_sec, st.integers(10, 999999)),
                  st.sampled_from([(0, 0), (0, 1), (0, 1), (1, 0), (60, 0), (3600, 0), (43200, 0), (0, 999999), (86399, 999999), (86399, 999999), (86399, 0), (59, 1)]))
_day_case = st.tuples(_day, _time).map(lambda c: [c[0], c[1][0], c[1][1]])


def _derived_time(o):
    """time of day of the exhaustive run: a fixed function of the ordinal that hits midnight, whole seconds and microseconds"""
    r = o % 8
    if r == 0:
        return 0, 0
    sec = (o * 7919 + 17) % 86400
    if r == 1:
        return sec, 0
    if r == 2:
        return sec, 1000 * ((o * 104729 + 3) % 1000)                      # whole milliseconds
    if r == 3 and (o // 8) % 4 == 0:
        return [(0, 1), (86399, 999999), (0, 999999), (59, 1)][(o // 32) % 4]  # microsecond = 1 with everything else 0, last microsecond of the day, ...
    return sec, (o * 104729 + 3) % 1000000


def enum_days(tier):
    def chunker(i, nchunks):
        for o in range(O_MIN + i, O_MAX, nchunks):
            sec, us = _derived_time(o)
            yield [o, sec, us]
    return O_MAX - O_MIN, chunker


EDGE_YEARS = [1900, 2000, 2024, 2262, 2299]   # domain start (non-leap century), leap century, ordinary leap year, datetime64[ns] limit, domain end


def enum_edge_years(tier):
    days = [o for y in EDGE_YEARS for o in range(datetime.date(y, 1, 1).toordinal(), datetime.date(y, 12, 31).toordinal() + 1)]

    def chunker(i, nchunks):
        for o in days[i::nchunks]:
            sec, us = _derived_time(o)
            yield [o, sec, us]
    return len(days), chunker


# ----------------------------------------------------------------------------- month / day overflow

M_LO, M_HI = -36, 48
D_LO, D_HI = -400, 400


def run_overflow(spec):
    from pyg_base import dt
    y, m = spec
    # normalised month by plain stepping (independent of the // and % arithmetic in ym)
    yy, mm = y, m
    while mm > 12:
        mm -= 12
        yy += 1
    while mm < 1:
        mm += 12
        yy -= 1
    first = datetime.date(yy, mm, 1).toordinal()
    for d in range(D_LO, D_HI + 1):
        exp = DT.fromordinal(first + d - 1)
        what = 'dt(%i, %i, %i)' % (y, m, d)
        _same(what, call(what, dt, y, m, d), exp)
    # the same triples in other raw integer types (numpy int64 / int32, integer-valued python float / numpy float64, mixed within one call):
    # every 16th day, the phase and the rotation of the types depend on (y, m)
    import numpy as np
    num = (np.int64, float, int, np.int32, np.float64)
    for d in range(D_LO + (y * 85 + m) % 16, D_HI + 1, 16):
        j = (d - D_LO) // 16 + y + m
        args = [num[(j + i) % 5](v) for i, v in enumerate((y, m, d))]
        if all(type(a) is int for a in args):
            args[2] = np.int64(d)
        exp = DT.fromordinal(first + d - 1)
        what = 'dt(%s)' % ', '.join(repr(a) for a in args)
        _same(what, call(what, dt, *args), exp)
    cls = ['month<1' if m < 1 else 'month>12' if m > 12 else 'month_in_range', 'triples_in_mixed_raw_types']
    if m == 0:
        cls.append('month=0')                       # the falsy month (day 0 is part of every case)
    if first + D_LO - 1 < O_MIN or first + D_HI - 1 >= O_MAX:
        cls.append('results_outside_[1900,2300)')   # answers just outside the range the statement's dates come from: still first of the normalised month + d - 1 days
    if yy != y:
        cls.append('other_year')
    if mm == 2:
        cls.append('february')
        cls.append('february_leap_year' if _is_leap(yy) else 'february_non_leap_year')
    if mm in (1, 12):
        cls.append('normalised_month_is_jan_or_dec')
    return dict(nt=True, cls=cls)


_overflow_case = st.tuples(_years, st.one_of(st.integers(M_LO, M_HI), st.sampled_from([M_LO, -12, -11, -1, 0, 1, 12, 13, 24, 25, M_HI, 2, 14, -10, -34]))).map(list)


def enum_overflow(tier):
    pairs = [(y, m) for y in range(1900, 2300) for m in range(M_LO, M_HI + 1)]

    def chunker(i, nchunks):
        for y, m in pairs[i::nchunks]:
            yield [y, m]
    return len(pairs), chunker


# ----------------------------------------------------------------------------- several calls on the same objects (state carried between calls)

TEXT_KINDS = ['dmy', 'dmy_hms', 'dmy_frac', 'mdy', 'mdy_hms', 'mdy_frac', 'iso', 'iso_hms', 'iso_frac', 'ymd8', 'name_dmy', 'name_dmy_hms', 'name_mdy', 'mon']
OTHER_KINDS = ['int8', 'ord', 'date', 'datetime', 'ts', 'np_us', 'np_D', 'parts3', 'parts6', 'dt2str', 'datetime_tz', 'ts_tz']
ZONE_KINDS = ['datetime_tz', 'ts_tz']   # the instant as zone-aware python datetime / pd.Timestamp (fixed offset != 0 from the ordinal)
NUMERIC_TEXT_KINDS = TEXT_KINDS[:6]     # the two leading fields are numbers: the dialect decides which is the day


def _session_objects(spec):
    """every spelling of the session is built ONCE; all calls of the session receive these very objects"""
    import numpy as np
    import pandas as pd
    o, sec, us = spec['o'], spec['sec'], spec['us']
    sep = SEPS[spec['sep']]
    t = DT.fromordinal(o) + datetime.timedelta(seconds=sec, microseconds=us)
    y, m, d, h, mi, s = t.year, t.month, t.day, t.hour, t.minute, t.second
    hms = '%02d:%02d:%02d' % (h, mi, s)
    frac = '%s.%06d' % (hms, us)
    dmy = '%02d%s%02d%s%04d' % (d, sep, m, sep, y)
    mdy = '%02d%s%02d%s%04d' % (m, sep, d, sep, y)
    ymd_ = '%04d-%02d-%02d' % (y, m, d)
    name = '%02d %s %04d' % (d, MONTHS[m - 1], y)
    objs = dict(dmy=dmy, dmy_hms=dmy + ' ' + hms, dmy_frac=dmy + ' ' + frac, mdy=mdy, mdy_hms=mdy + ' ' + hms, mdy_frac=mdy + ' ' + frac,
                iso=ymd_, iso_hms=ymd_ + 'T' + hms, iso_frac=ymd_ + 'T' + frac, ymd8='%04d%02d%02d' % (y, m, d),
                name_dmy=name, name_dmy_hms=name + ' ' + hms, name_mdy='%s %02d, %04d' % (MONTHS[m - 1], d, y), mon='%02d-%s-%04d' % (d, MONTHS[m - 1][:3], y),
                int8=y * 10000 + m * 100 + d, ord=o, date=datetime.date(y, m, d), datetime=t, ts=pd.Timestamp(t), np_us=np.datetime64(t, 'us'),
                np_D=np.datetime64(DT(y, m, d), 'D'), parts3=(y, m, d), parts6=(y, m, d, h, mi, s), dt2str=t,
                datetime_tz=t.replace(tzinfo=_zone(o)), ts_tz=pd.Timestamp(t.replace(tzinfo=_zone(o))))
    return t, objs


def _session_expect(t, kind, dialect):
    """single-call oracle: the datetime the statement demands for this spelling under this dialect, or None = must be rejected with ValueError"""
    y, m, d = t.year, t.month, t.day
    if kind in ZONE_KINDS:
        return t.replace(tzinfo=_zone(t.toordinal()))
    if kind in NUMERIC_TEXT_KINDS:
        day_first = kind.startswith('dmy')
        if day_first != (dialect == 'uk'):
            # written in the other dialect: day > 12 is unambiguous and must be rejected; otherwise the text IS the right spelling of year-day-month
            if d > 12:
                return None
            y, m, d = y, d, m
        return DT(y, m, d) if kind in ('dmy', 'mdy') else DT(y, m, d, t.hour, t.minute, t.second, 0 if kind.endswith('_hms') else t.microsecond)
    if kind in ('iso_frac', 'datetime', 'ts', 'np_us', 'dt2str'):
        return t
    if kind in ('iso_hms', 'name_dmy_hms', 'parts6'):
        return t.replace(microsecond=0)
    return DT(y, m, d)


def run_session(spec):
    from pyg_base import dt, ymd, dt2str
    t, objs = _session_objects(spec)
    # five fixed calls first (judged like any other): whatever "the previous call" left behind then comes from here and not from the case run before this one,
    # so a failure further down is caused by the calls of this session and the shrunk replay file reproduces it in a fresh process
    for f, exp, args, kw in ((dt, DT(1999, 6, 15, 1, 2, 3, 4), ('1999-06-15T01:02:03.000004',), {}), (dt, DT(1999, 6, 15), ('15-06-1999',), {}),
                             (dt, DT(1999, 6, 15), ('06-15-1999',), dict(dialect='us')), (dt, DT(1999, 6, 15), (19990615,), {}), (ymd, DT(1999, 6, 15), ('15/06/1999 01:02:03',), {})):
        what = '%s(%s%s) [opening calls of a session]' % (f.__name__, ', '.join(repr(a) for a in args), ''.join(', %s=%r' % i for i in kw.items()))
        _same(what, call(what, f, *args, **kw), exp)
    results = []
    for kind, dialect, fname in spec['calls']:
        x = objs[kind]
        exp = _session_expect(t, kind, dialect)
        swapped = kind in NUMERIC_TEXT_KINDS and kind.startswith('dmy') != (dialect == 'uk')
        if not INCLUDE_UK_FRACTION_LOW_DAYS and kind.endswith('_frac') and t.day <= 12 and (kind.startswith('dmy') or swapped) and dialect == 'uk':
            continue
        f = dt if fname == 'dt' else ymd
        args = x if kind.startswith('parts') else (x,)
        if kind == 'dt2str':
            text = call('dt2str(%r)' % x, dt2str, x)
            check(isinstance(text, str), 'dt2str(%s) returned %s, not a string', x, text)
            args = (text,)
        kw = {} if dialect == 'uk' else dict(dialect='us')
        what = '%s(%s%s) [call %i of the session]' % (fname, ', '.join(repr(a) for a in args), ''.join(', %s=%r' % i for i in kw.items()), len(results) + 1)
        if exp is None:
            must_raise(what + ' [string of the other dialect with day > 12]', ValueError, f, *args, **kw)
        else:
            if fname == 'ymd':
                exp = DT(exp.year, exp.month, exp.day, tzinfo=exp.tzinfo)
            (_same if exp.tzinfo is None else _same_aware)(what, call(what, f, *args, **kw), exp)
        results.append((kind, dialect, fname, exp))
    # ---- classes
    cls = ['calls=%i' % len(results)]
    by_kind = {}
    for i, (kind, dialect, fname, exp) in enumerate(results):
        by_kind.setdefault(kind, []).append((i, dialect, fname, exp))
    ambiguous = t.day <= 12 and t.day != t.month
    sub_day = bool(spec['sec'] or spec['us'])
    nt = False
    if any(kind in by_kind for kind in ZONE_KINDS):
        cls.append('zone_aware_object_in_session')
    for kind, rows in by_kind.items():
        if kind in TEXT_KINDS and len(set(r[1] for r in rows)) == 2:
            cls.append('same_text_under_both_dialects')
            if kind in NUMERIC_TEXT_KINDS:
                cls.append('same_numeric_text_under_both_dialects')
                cls.append('...first_dialect=' + rows[0][1])
                if ambiguous:
                    cls.append('...two_different_right_answers(day<=12,day!=month)')
                    nt = True
                if t.day > 12:
                    rejected = [r[3] is None for r in rows]
                    first_acc, first_rej = rejected.index(False), rejected.index(True)
                    cls.append('...accepted_before_rejected' if first_acc < first_rej else '...rejected_before_accepted')
                    if len(rows) >= 3 and rejected[0] == rejected[-1] and rejected[0] != rejected[1]:
                        cls.append('...dialects_alternate_three_calls')
                    nt = True
        if any(a[1:3] == b[1:3] for j, a in enumerate(rows) for b in rows[j + 1:]):
            cls.append('same_call_repeated')
        fns = [r[2] for r in rows]
        if sub_day and 'ymd' in fns and 'dt' in fns[fns.index('ymd'):] and kind not in ('dmy', 'mdy', 'iso', 'ymd8', 'name_dmy', 'name_mdy', 'mon', 'int8', 'ord', 'date', 'np_D', 'parts3'):
            cls.append('ymd_before_dt_of_the_same_intraday_object')
            nt = True
    for a, b in (('dmy', 'dmy_hms'), ('dmy_hms', 'dmy_frac'), ('dmy', 'dmy_frac'), ('mdy', 'mdy_hms'), ('mdy_hms', 'mdy_frac'), ('mdy', 'mdy_frac'),
                 ('iso', 'iso_hms'), ('iso_hms', 'iso_frac'), ('iso', 'iso_frac'), ('name_dmy', 'name_dmy_hms'), ('parts3', 'parts6')):
        if a in by_kind and b in by_kind:
            cls.append('one_spelling_is_a_prefix_of_another')
            nt = nt or sub_day
            break
    return dict(nt=nt, cls=sorted(set(cls)))


@st.composite
def _session_case(draw):
    """one instant; a pool of 1-3 spellings built once; 2-5 calls drawn from the pool (dialect and dt/ymd free), so that the same object is read repeatedly,
    under both dialects, by both entry points, and next to spellings that extend it"""
    o = draw(st.one_of(_day, _day, st.tuples(_years, st.integers(1, 12), st.integers(1, 12)).map(_ordinal), st.tuples(_years, st.integers(1, 12), st.integers(12, 14)).map(_ordinal)))
    sec, us = draw(_time)
    family = draw(st.sampled_from([['dmy', 'dmy_hms', 'dmy_frac'], ['mdy', 'mdy_hms', 'mdy_frac'], NUMERIC_TEXT_KINDS, NUMERIC_TEXT_KINDS, TEXT_KINDS, OTHER_KINDS, TEXT_KINDS + OTHER_KINDS,
                                   ['iso', 'iso_hms', 'iso_frac'], ['parts3', 'parts6', 'int8', 'ymd8'], ['datetime', 'ts', 'np_us', 'iso_frac', 'dt2str', 'dmy_frac', 'mdy_frac']]))
    pool = draw(st.lists(st.sampled_from(family), min_size=1, max_size=3))
    n = draw(st.sampled_from([2, 2, 3, 3, 3, 4, 4, 5]))
    pattern = draw(st.sampled_from(['alternate', 'alternate', 'flip_once', 'free', 'free']))
    first = draw(st.sampled_from(['uk', 'us']))
    flip_at = draw(st.integers(1, n - 1))
    calls = []
    for i in range(n):
        if pattern == 'alternate':
            dialect = first if i % 2 == 0 else {'uk': 'us', 'us': 'uk'}[first]
        elif pattern == 'flip_once':
            dialect = first if i < flip_at else {'uk': 'us', 'us': 'uk'}[first]
        else:
            dialect = draw(st.sampled_from(['uk', 'us']))
        calls.append([draw(st.sampled_from(pool)), dialect, draw(st.sampled_from(['dt', 'dt', 'dt', 'ymd']))])
    return dict(o=o, sec=sec, us=us, sep=draw(st.integers(0, 3)), calls=calls)


_ORACLE = ('oracle: equality (and type datetime, tz-naive) with the python datetime built from the ordinal; ValueError demanded for day>12 strings in the other dialect; '
           'ymd = midnight of the day; dt(dt2str(t)) == t. ')
_FORMATS = ('datetime, date, (y,m,d), (y,m,d,h), (y,m,d,h,mi), (y,m,d,h,mi,s), yyyymmdd int, ordinal, datetime64[D/h/m/s/ms/us/ns], pd.Timestamp (s, ms, us and ns unit), '
            'the parts again with every number in another raw type (python int / numpy int64 / int32 / integer-valued float / numpy float64, rotating with the ordinal), yyyymmdd and ordinal as float / numpy float64, '
            'three texts as numpy str_ (+ both rejections for day>12), '
            "ISO with a 6-digit fraction / with a 1-5 and 7-9 digit fraction / with seconds / date only, 'yyyymmdd', four month-name spellings (+time, +upper/lower case), "
            'dd{sep}mm{sep}yyyy [hh:mm:ss[.f{1,6}]] uk and mm{sep}dd{sep}yyyy [hh:mm:ss[.f{1,6}]] us (also dialect="US") for 4 separators, '
            'other-dialect strings for day>12, dt2str round trips, 11 ymd() calls; the instant as zone-aware datetime / pd.Timestamp (fixed offset != 0 from the ordinal) through dt and ymd '
            '(result zone-aware, same instant); 15 of the calls again with the declared defaults passed explicitly (dialect="uk", tzinfo=None, none=datetime.datetime.now, dt2str fmt=None) '
            '(about 155 calls per day). ')

SUBS = [
    Sub('spellings', lambda tier: _day_case, run_day, quick=4000, thorough=30000,
        rule='(day, second of day, microsecond): day from 1900-2299 with boosted ambiguous region, 12/13 threshold, leap days, year/century boundaries; '
             'month ends (28 Feb of non-leap years, 30th / 31st) boosted; time uniform plus boundary values. Per case: ' + _FORMATS + _ORACLE +
             'non-trivial = ambiguous day (day<=12, day!=month) or leap day or 1 Jan/31 Dec or 28 Feb/1 Mar of a century year; distinct = distinct spec',
        floor=0.3, class_floors={'ambiguous(day<=12,day!=month)': 0.2, 'day>12': 0.2, 'leap_day': 0.03, 'year_boundary': 0.03,
                                 'december': 0.04, 'microseconds': 0.3, 'midnight': 0.01,
                                 'subsecond_from_2243': 0.05, 'subsecond_ns_2107_to_limit': 0.15, 'subsecond_before_1970': 0.03,
                                 'short_fraction_informative': 0.35, 'whole_milliseconds': 0.02, 'only_microsecond=1': 0.01,
                                 'last_microsecond_of_day': 0.01, 'hour=0_time!=0': 0.03,
                                 'numbers_and_texts_in_mixed_raw_types': 0.3, 'zone_aware_datetime_and_timestamp': 0.3, 'defaults_passed_explicitly': 0.3, 'month_end': 0.09, 'month_end_30th_or_31st': 0.035, '28feb_of_a_non_leap_year': 0.03}),
    Sub('session', lambda tier: _session_case(), run_session, quick=3000, thorough=20000,
        rule='state carried between calls: one instant (ambiguous days and the 12/13 threshold boosted), every spelling built ONCE, 2-5 calls of dt / ymd (dialect uk / us) on a pool of '
             '1-3 of those very objects, so the same text is read under both dialects in either order, the same call is repeated, ymd() precedes dt() of the same object and '
             'a text is read next to texts it is a prefix of; the pool may hold the zone-aware datetime / pd.Timestamp of the instant. Every call is judged by the single-call oracle: numeric day/month texts read in the other dialect are '
             'the right spelling of year-day-month when day <= 12 and must raise ValueError when day > 12; everything else as in spellings. '
             'non-trivial = a numeric text under both dialects on a day with day != month, or ymd before dt of one intraday object, or prefix-related spellings with a time of day',
        floor=0.15, class_floors={'same_text_under_both_dialects': 0.2, 'same_numeric_text_under_both_dialects': 0.14, '...first_dialect=uk': 0.07, '...first_dialect=us': 0.06,
                                  '...two_different_right_answers(day<=12,day!=month)': 0.045, '...accepted_before_rejected': 0.04, '...rejected_before_accepted': 0.035,
                                  '...dialects_alternate_three_calls': 0.02, 'same_call_repeated': 0.16, 'ymd_before_dt_of_the_same_intraday_object': 0.035,
                                  'one_spelling_is_a_prefix_of_another': 0.025, 'zone_aware_object_in_session': 0.011,
                                  'calls=2': 0.13, 'calls=3': 0.11, 'calls=4': 0.06, 'calls=5': 0.025}),
    EnumSub('edge_years', enum_edge_years, run_day, chunks=8,
            rule='run in BOTH tiers: every day of the years %s (%i days: every month x day combination in leap and non-leap years, both ends of the domain, '
                 'the datetime64[ns] limit), time of day derived from the ordinal; same oracle as spellings' % (EDGE_YEARS, sum(366 if _is_leap(y) else 365 for y in EDGE_YEARS))),
    EnumSub('all_days', enum_days, run_day, thorough_only=True, chunks=64,
            rule='every one of the 146097 days of [1900-01-01, 2300-01-01) with a time of day derived from the ordinal (1/8 midnight, 1/8 whole second, rest microseconds). '
                 'Per day: ' + _FORMATS + _ORACLE + 'non-trivial as in spellings'),
    EnumSub('overflow', enum_overflow, run_overflow, strategy=lambda tier: _overflow_case, quick=1500, chunks=64, floor=0.3,
            rule='(y, m) with y in [1900, 2299], m in [-36, 48]; each spec evaluates dt(y, m, d) for ALL 801 d in [-400, 400] against '
                 'datetime.fromordinal(ordinal of the 1st of the month reached by stepping m-1 months from January of y, + d - 1). '
                 'thorough enumerates all 400 x 85 = 34000 (y, m) = 27 234 000 triples; every spec is non-trivial (days outside the month are always included). '
                 'Every 16th day (phase from (y, m)) the triple is passed again as numpy int64 / int32 / integer-valued float / numpy float64, mixed within the call. '
                 'Labels: month=0 (the falsy month), results_outside_[1900,2300) (some of the 801 answers lie before 1900 or after 2299: same oracle)'),
]
# class floors of the overflow sub-check (EnumSub takes none in its constructor); they hold for the sampled quick tier and for the complete enumeration
# (7 of the 85 months normalise to February, 97 of 400 years are leap years)
SUBS[-1].class_floors = {'triples_in_mixed_raw_types': 0.3, 'february': 0.045, 'february_leap_year': 0.01, 'february_non_leap_year': 0.035, 'normalised_month_is_jan_or_dec': 0.15,
                         # quick samples these at about 15% / 7%; the complete enumeration has 400 of 34000 pairs with month 0 (1.18%) and 260 with a result outside the range (0.76%)
                         'month=0': 0.006, 'results_outside_[1900,2300)': 0.004}
