# -*- coding: utf-8 -*-
"""
C04 - dt() maps every supported spelling of an instant to the same datetime.

Sub-checks
    spellings   Hypothesis: (day, time of day) -> every spelling of the statement is fed to dt()/ymd()/dt2str()
    edge_years  the same oracle on every day of five whole years (both tiers; deterministic)
    all_days    the same oracle on EVERY day of [1900-01-01, 2300-01-01) (146 097 specs; time of day derived from the ordinal)
    overflow    dt(y, m, d) for one (y, m) and ALL d in [-400, 400]; quick samples (y, m), thorough enumerates all
                400 years x 85 months (34 000 specs = 27 234 000 triples)

A spec of spellings/all_days is  [ordinal, seconds of the day, microseconds]  (+ optional 4th element True = also
evaluate the input class that is excluded as a known defect, see UK_FRACTION below). All strings are built here with
plain %-formatting from the fields of the python datetime (no strftime -> no locale, no dt2str).
"""
import datetime

from hypothesis import strategies as st

from pv.core import Sub, EnumSub, Violation, call, must_raise, check, short

ASSUMPTIONS = [
    'days in [1900-01-01, 2300-01-01), naive datetimes (tzinfo None), dialect in {uk, us}',
    'day and month fields of strings are zero-padded to two digits and the year has four digits (strftime spelling); unpadded / two-digit-year strings are outside the claim (DESIGN section 4)',
    'separators {-,/,.,space} are applied to the day-month-year and month-day-year strings; "ISO" is yyyy-mm-dd[Thh:mm:ss[.ffffff]] only',
    'month names are the English full names and 3-letter abbreviations, in the spellings "dd Month yyyy", "Month dd, yyyy", "dd-Mon-yyyy" (capitalised; the first and third also in upper and lower case)',
    'a fraction of a second in a string has 1 to 9 digits and means a decimal fraction; digits beyond the sixth are zeros (sub-microsecond instants are not datetimes)',
    'time parts of dt(y, m, d, ...) are a prefix of (h, mi, s): 3, 4, 5 or 6 positional ints',
    'dialect is spelled "uk" / "us" (tests) or "US" (docstring); dialect="UK" is NOT asserted - the library reads every dialect other than lower-case "uk" as US (candidate defect, reported)',
    'numpy integers (np.int64 yyyymmdd / ordinal) are NOT asserted: dt(np.int64(20000110)) raises TypeError in num2dt (candidate defect, reported); the statement says "integer"',
    'lossless (microsecond) spellings: datetime, pd.Timestamp, datetime64[us], datetime64[ns], ISO string with fraction, dd-mm-yyyy / mm-dd-yyyy strings with hh:mm:ss.ffffff, dt2str round trip; '
    '(y,m,d,h,mi,s) and hh:mm:ss strings carry whole seconds; coarser datetime64 units are compared with the instant truncated to the unit',
    'datetime64[ns] only for days before 2262-04-11 (numpy cannot represent later instants in ns)',
    'integers: only the yyyymmdd integer and the proleptic ordinal are claimed; excel serials, year numbers, unix timestamps and today-offsets are not part of the statement',
    'wrong-dialect rejection is demanded only for day > 12 (with day <= 12 the other reading is a valid date and is what the statement calls ambiguous)',
    'overflow: plain python ints for y in [1900, 2299], m in [-36, 48], d in [-400, 400]',
    'EXCLUDED BY CONSTRUCTION (genuine defect, see UK_FRACTION): UK-dialect dd-mm-yyyy string with a fractional-seconds time when day <= 12 loses the microseconds; '
    'the generators never ask for it, a spec with a 4th element true does (replays/C04/pending/)',
]

# flip to True once uk2dt keeps the microseconds (then the generated cases include the class again)
INCLUDE_UK_FRACTION_LOW_DAYS = True
UK_FRACTION = 'uk2dt rebuilds the swapped date through dt(y, m, d, h, mi, s, us) which ignores its 7th argument: microseconds are dropped when day <= 12'

SEPS = ['-', '/', '.', ' ']
MONTHS = ['January', 'February', 'March', 'April', 'May', 'June', 'July', 'August', 'September', 'October', 'November', 'December']
O_MIN = datetime.date(1900, 1, 1).toordinal()      # 693596
O_MAX = datetime.date(2300, 1, 1).toordinal()      # 839693 (exclusive)
O_NS_MAX = datetime.date(2262, 4, 11).toordinal()  # datetime64[ns] is claimed strictly below this day
assert O_MAX - O_MIN == 146097

DT = datetime.datetime


def _is_leap(y):
    return y % 4 == 0 and (y % 100 != 0 or y % 400 == 0)


def _dim(y, m):
    return [31, 29 if _is_leap(y) else 28, 31, 30, 31, 30, 31, 31, 30, 31, 30, 31][m - 1]


def _same(what, got, exp):
    if not isinstance(got, DT):
        raise Violation('%s returned %s of type %s, expected the datetime %r' % (what, short(got), type(got).__name__, exp))
    if got.tzinfo is not None:
        raise Violation('%s returned the timezone-aware %r, expected the naive %r' % (what, got, exp))
    if not got == exp:
        raise Violation('%s = %r, expected %r' % (what, got, exp))


def run_day(spec):
    import numpy as np
    import pandas as pd
    from pyg_base import dt, ymd, dt2str
    o, sec, us = spec[0], spec[1], spec[2]
    uk_fraction_low_days = INCLUDE_UK_FRACTION_LOW_DAYS or (len(spec) > 3 and bool(spec[3]))
    t = DT.fromordinal(o) + datetime.timedelta(seconds=sec, microseconds=us)
    y, m, d, h, mi, s = t.year, t.month, t.day, t.hour, t.minute, t.second
    day0 = DT(y, m, d)
    tsec = DT(y, m, d, h, mi, s)

    def one(f, fname, exp, *args, **kw):
        what = '%s(%s%s)' % (fname, ', '.join(repr(a) for a in args), ''.join(', %s=%r' % i for i in kw.items()))
        _same(what, call(what, f, *args, **kw), exp)

    def both(exp, text):
        one(dt, 'dt', exp, text)
        one(dt, 'dt', exp, text, dialect='us')

    # ---- non-string spellings
    one(dt, 'dt', t, t)
    one(dt, 'dt', day0, datetime.date(y, m, d))
    one(dt, 'dt', day0, y, m, d)
    one(dt, 'dt', tsec, y, m, d, h, mi, s)
    one(dt, 'dt', DT(y, m, d, h), y, m, d, h)             # a prefix of [h, mi, s]
    one(dt, 'dt', DT(y, m, d, h, mi), y, m, d, h, mi)
    one(dt, 'dt', day0, y * 10000 + m * 100 + d)
    one(dt, 'dt', day0, o)
    for unit, exp in [('D', day0), ('h', DT(y, m, d, h)), ('m', DT(y, m, d, h, mi)), ('s', tsec),
                      ('ms', DT(y, m, d, h, mi, s, us - us % 1000)), ('us', t)] + ([('ns', t)] if o < O_NS_MAX else []):
        x = np.datetime64(exp, unit)
        what = 'dt(np.datetime64(%r, %r))' % (exp, unit)
        _same(what, call(what, dt, x), exp)
    ts = pd.Timestamp(t)
    _same('dt(pd.Timestamp(%r))' % str(t), call('dt(pd.Timestamp(%r))' % str(t), dt, ts), t)
    if o < O_NS_MAX:
        what = 'dt(pd.Timestamp(%r).as_unit("ns"))' % str(t)
        _same(what, call(what, dt, ts.as_unit('ns')), t)

    # ---- dialect-independent strings, read in both dialects
    hms = '%02d:%02d:%02d' % (h, mi, s)
    frac = '%s.%06d' % (hms, us)
    ymd_ = '%04d-%02d-%02d' % (y, m, d)
    both(t, ymd_ + 'T' + frac)
    both(tsec, ymd_ + 'T' + hms)
    both(day0, ymd_)
    both(day0, '%04d%02d%02d' % (y, m, d))
    both(day0, '%02d %s %04d' % (d, MONTHS[m - 1], y))
    both(tsec, '%02d %s %04d %s' % (d, MONTHS[m - 1], y, hms))
    both(day0, '%s %02d, %04d' % (MONTHS[m - 1], d, y))
    both(day0, '%02d-%s-%04d' % (d, MONTHS[m - 1][:3], y))
    # ISO 'T' strings with a fraction of 1-5 and 7-9 digits (isoformat(timespec='milliseconds'), str(np.datetime64(t, 'ms' / 'ns'))):
    # the fraction is a decimal fraction of a second, whatever its length; digits beyond the microsecond are zeros here
    digits = '%06d000' % us
    for k in (1, 2, 3, 4, 5, 7, 8, 9):
        exp = DT(y, m, d, h, mi, s, int((digits[:k] + '000000')[:6]))
        text = '%sT%s.%s' % (ymd_, hms, digits[:k])
        if (o + k) % 2:
            one(dt, 'dt', exp, text)
        else:
            one(dt, 'dt', exp, text, dialect='us')
    # month names in upper / lower case
    if o % 2:
        one(dt, 'dt', day0, '%02d-%s-%04d' % (d, MONTHS[m - 1][:3].upper(), y))
        one(dt, 'dt', day0, '%02d %s %04d' % (d, MONTHS[m - 1].lower(), y), dialect='us')
    else:
        one(dt, 'dt', day0, '%02d-%s-%04d' % (d, MONTHS[m - 1][:3].lower(), y), dialect='us')
        one(dt, 'dt', day0, '%02d %s %04d' % (d, MONTHS[m - 1].upper(), y))

    # ---- day-month-year (uk) / month-day-year (us), four separators
    for sep in SEPS:
        dmy = '%02d%s%02d%s%04d' % (d, sep, m, sep, y)
        mdy = '%02d%s%02d%s%04d' % (m, sep, d, sep, y)
        one(dt, 'dt', day0, dmy)
        one(dt, 'dt', tsec, dmy + ' ' + hms)
        one(dt, 'dt', day0, dmy, dialect='uk')
        one(dt, 'dt', day0, mdy, dialect='us')
        one(dt, 'dt', tsec, mdy + ' ' + hms, dialect='us')
        one(dt, 'dt', t, mdy + ' ' + frac, dialect='us')
        if d > 12 or uk_fraction_low_days:
            one(dt, 'dt', t, dmy + ' ' + frac)
        if sep == SEPS[o % 4]:
            # one separator per day: the upper-case spelling of the dialect used in dt's docstring, and a short (1-5 digit) fraction
            k = 1 + o % 5
            exp = DT(y, m, d, h, mi, s, int((digits[:k] + '000000')[:6]))
            one(dt, 'dt', day0, mdy, dialect='US')
            one(dt, 'dt', exp, '%s %s.%s' % (mdy, hms, digits[:k]), dialect='us')
            if d > 12 or uk_fraction_low_days:
                one(dt, 'dt', exp, '%s %s.%s' % (dmy, hms, digits[:k]))
        if d > 12:
            # unambiguous but written in the other dialect: rejected, never swapped
            for text in (mdy, mdy + ' ' + hms):
                must_raise('dt(%r) [uk dialect, month-day-year string]' % text, ValueError, dt, text)
            for text in (dmy, dmy + ' ' + hms):
                must_raise('dt(%r, dialect="us") [day-month-year string]' % text, ValueError, dt, text, dialect='us')

    # ---- dt2str round trips (midnight -> yyyymmdd, intraday -> iso; both are dt2str's business, only the round trip is claimed)
    for x in (t, tsec, day0):
        text = call('dt2str(%r)' % x, dt2str, x)
        check(isinstance(text, str), 'dt2str(%s) returned %s, not a string', x, text)
        one(dt, 'dt', x, text)

    # ---- ymd() = the same day at midnight
    one(ymd, 'ymd', day0, t)
    one(ymd, 'ymd', day0, ts)
    one(ymd, 'ymd', day0, np.datetime64(t, 'us'))
    one(ymd, 'ymd', day0, datetime.date(y, m, d))
    one(ymd, 'ymd', day0, y, m, d, h, mi, s)
    one(ymd, 'ymd', day0, o)
    one(ymd, 'ymd', day0, ymd_ + 'T' + frac)
    one(ymd, 'ymd', day0, '%02d/%02d/%04d %s' % (d, m, y, hms))
    one(ymd, 'ymd', day0, '%02d/%02d/%04d %s' % (m, d, y, frac), dialect='us')

    # ---- classes
    cls = []
    ambiguous = d <= 12 and d != m
    leap_day = m == 2 and d == 29
    year_boundary = (m == 1 and d == 1) or (m == 12 and d == 31)
    century = y % 100 in (0, 99)
    cls.append('ambiguous(day<=12,day!=month)' if ambiguous else 'day==month' if d == m else 'day>12')
    if leap_day:
        cls.append('leap_day')
    if year_boundary:
        cls.append('year_boundary')
    if century:
        cls.append('century_year')
    if m == 12:
        cls.append('december')
    if o < O_NS_MAX:
        cls.append('ns_representable')
    cls.append('midnight' if sec == 0 and us == 0 else 'whole_second' if us == 0 else 'microseconds')
    if us:
        # float seconds since 1970 cannot hold a microsecond from 2**33 s (2242-03-16) on, and 1e-9 * int64 ns loses it from about 2**32 s (2106-02-07) on
        if y >= 2243:
            cls.append('subsecond_from_2243')
        if y >= 2107 and o < O_NS_MAX:
            cls.append('subsecond_ns_2107_to_limit')
        if y < 1970:
            cls.append('subsecond_before_1970')
    if int(digits[:5]):
        cls.append('short_fraction_informative')   # the 1-5 digit prefixes are not all zero: "digits as a count" differs from "decimal fraction"
    if us and us % 1000 == 0:
        cls.append('whole_milliseconds')
    if sec == 0 and us == 1:
        cls.append('only_microsecond=1')
    if sec == 86399 and us == 999999:
        cls.append('last_microsecond_of_day')
    if h == 0 and (mi or s or us):
        cls.append('hour=0_time!=0')
    return dict(nt=bool(ambiguous or leap_day or year_boundary or (century and (m, d) in ((2, 28), (3, 1)))), cls=cls)


# ----------------------------------------------------------------------------- generators

_BOUNDARY_YEARS = [1900, 1901, 1904, 1969, 1970, 1999, 2000, 2001, 2038, 2099, 2100, 2199, 2200, 2261, 2262, 2263, 2299]
_LEAP_YEARS = [y for y in range(1900, 2300) if _is_leap(y)]
_years = st.one_of(st.integers(1900, 2299), st.integers(2107, 2299), st.sampled_from(_BOUNDARY_YEARS))   # the late range is boosted (float precision)


def _ordinal(ymd):
    y, m, d = ymd
    return datetime.date(y, m, min(d, _dim(y, m))).toordinal()


_day = st.one_of(
    st.tuples(_years, st.integers(1, 12), st.integers(1, 31)),
    st.tuples(_years, st.integers(1, 12), st.integers(1, 12)),           # the ambiguous region
    st.tuples(_years, st.integers(1, 12), st.integers(12, 14)),          # around the 12/13 threshold
    st.tuples(st.sampled_from(_LEAP_YEARS), st.just(2), st.just(29)),
    st.tuples(_years, st.just(2), st.integers(28, 29)),
    st.tuples(_years, st.sampled_from([(1, 1), (12, 31), (12, 1), (1, 31), (3, 1)])).map(lambda t: (t[0], t[1][0], t[1][1])),
    # both ends of the domain, the unix epoch, the datetime64[ns] limit (these sit next to the numeric thresholds of num2dt / np2dt)
    st.sampled_from([(1900, 1, 1), (1900, 1, 2), (2299, 12, 31), (2299, 12, 30), (1969, 12, 31), (1970, 1, 1), (2262, 4, 10), (2262, 4, 11), (2262, 4, 12)]),
).map(_ordinal)

_sec = st.one_of(st.integers(0, 86399), st.integers(0, 86399), st.integers(3600, 86399), st.sampled_from([0, 0, 1, 59, 60, 3599, 3600, 43199, 43200, 86340, 86399]))
_us = st.one_of(st.integers(0, 999999), st.integers(0, 999999), st.sampled_from([0, 0, 1, 10, 100, 999, 1000, 5000, 120000, 250000, 500000, 999000, 999999]))
_time = st.one_of(st.tuples(_sec, _us), st.tuples(_sec, _us), st.tuples(_sec, _us), st.tuples(_sec, _us), st.tuples(_sec, st.integers(10, 999999)),
                  st.sampled_from([(0, 0), (0, 1), (0, 1), (1, 0), (60, 0), (3600, 0), (43200, 0), (0, 999999), (86399, 999999), (86399, 999999), (86399, 0), (59, 1)]))
_day_case = st.tuples(_day, _time).map(lambda c: [c[0], c[1][0], c[1][1]])


def _derived_time(o):
    """time of day of the exhaustive run: a fixed function of the ordinal that hits midnight, whole seconds and microseconds"""
    r = o % 8
    if r == 0:
        return 0, 0
    sec = (o * 7919 + 17) % 86400
    if r == 1:
        return sec, 0
    if r == 2:
        return sec, 1000 * ((o * 104729 + 3) % 1000)                      # whole milliseconds
    if r == 3 and (o // 8) % 4 == 0:
        return [(0, 1), (86399, 999999), (0, 999999), (59, 1)][(o // 32) % 4]  # microsecond = 1 with everything else 0, last microsecond of the day, ...
    return sec, (o * 104729 + 3) % 1000000


def enum_days(tier):
    def chunker(i, nchunks):
        for o in range(O_MIN + i, O_MAX, nchunks):
            sec, us = _derived_time(o)
            yield [o, sec, us]
    return O_MAX - O_MIN, chunker


EDGE_YEARS = [1900, 2000, 2024, 2262, 2299]   # domain start (non-leap century), leap century, ordinary leap year, datetime64[ns] limit, domain end


def enum_edge_years(tier):
    days = [o for y in EDGE_YEARS for o in range(datetime.date(y, 1, 1).toordinal(), datetime.date(y, 12, 31).toordinal() + 1)]

    def chunker(i, nchunks):
        for o in days[i::nchunks]:
            sec, us = _derived_time(o)
            yield [o, sec, us]
    return len(days), chunker


# ----------------------------------------------------------------------------- month / day overflow

M_LO, M_HI = -36, 48
D_LO, D_HI = -400, 400


def run_overflow(spec):
    from pyg_base import dt
    y, m = spec
    # normalised month by plain stepping (independent of the // and % arithmetic in ym)
    yy, mm = y, m
    while mm > 12:
        mm -= 12
        yy += 1
    while mm < 1:
        mm += 12
        yy -= 1
    first = datetime.date(yy, mm, 1).toordinal()
    for d in range(D_LO, D_HI + 1):
        exp = DT.fromordinal(first + d - 1)
        what = 'dt(%i, %i, %i)' % (y, m, d)
        _same(what, call(what, dt, y, m, d), exp)
    cls = ['month<1' if m < 1 else 'month>12' if m > 12 else 'month_in_range']
    if yy != y:
        cls.append('other_year')
    if mm == 2:
        cls.append('february')
    return dict(nt=True, cls=cls)


_overflow_case = st.tuples(_years, st.one_of(st.integers(M_LO, M_HI), st.sampled_from([M_LO, -12, -11, -1, 0, 1, 12, 13, 24, 25, M_HI]))).map(list)


def enum_overflow(tier):
    pairs = [(y, m) for y in range(1900, 2300) for m in range(M_LO, M_HI + 1)]

    def chunker(i, nchunks):
        for y, m in pairs[i::nchunks]:
            yield [y, m]
    return len(pairs), chunker


_ORACLE = ('oracle: equality (and type datetime, tz-naive) with the python datetime built from the ordinal; ValueError demanded for day>12 strings in the other dialect; '
           'ymd = midnight of the day; dt(dt2str(t)) == t. ')
_FORMATS = ('datetime, date, (y,m,d), (y,m,d,h), (y,m,d,h,mi), (y,m,d,h,mi,s), yyyymmdd int, ordinal, datetime64[D/h/m/s/ms/us/ns], pd.Timestamp (us and ns unit), '
            "ISO with a 6-digit fraction / with a 1-5 and 7-9 digit fraction / with seconds / date only, 'yyyymmdd', three month-name spellings (+time, +upper/lower case), "
            'dd{sep}mm{sep}yyyy [hh:mm:ss[.f{1,6}]] uk and mm{sep}dd{sep}yyyy [hh:mm:ss[.f{1,6}]] us (also dialect="US") for 4 separators, '
            'other-dialect strings for day>12, dt2str round trips, 9 ymd() calls (about 112 calls per day). ')

SUBS = [
    Sub('spellings', lambda tier: _day_case, run_day, quick=4000, thorough=30000,
        rule='(day, second of day, microsecond): day from 1900-2299 with boosted ambiguous region, 12/13 threshold, leap days, year/century boundaries; '
             'time uniform plus boundary values. Per case: ' + _FORMATS + _ORACLE +
             'non-trivial = ambiguous day (day<=12, day!=month) or leap day or 1 Jan/31 Dec or 28 Feb/1 Mar of a century year; distinct = distinct spec',
        floor=0.3, class_floors={'ambiguous(day<=12,day!=month)': 0.2, 'day>12': 0.2, 'leap_day': 0.03, 'year_boundary': 0.03,
                                 'december': 0.04, 'microseconds': 0.3, 'midnight': 0.01,
                                 'subsecond_from_2243': 0.05, 'subsecond_ns_2107_to_limit': 0.15, 'subsecond_before_1970': 0.03,
                                 'short_fraction_informative': 0.35, 'whole_milliseconds': 0.02, 'only_microsecond=1': 0.01,
                                 'last_microsecond_of_day': 0.01, 'hour=0_time!=0': 0.03}),
    EnumSub('edge_years', enum_edge_years, run_day, chunks=8,
            rule='run in BOTH tiers: every day of the years %s (%i days: every month x day combination in leap and non-leap years, both ends of the domain, '
                 'the datetime64[ns] limit), time of day derived from the ordinal; same oracle as spellings' % (EDGE_YEARS, sum(366 if _is_leap(y) else 365 for y in EDGE_YEARS))),
    EnumSub('all_days', enum_days, run_day, thorough_only=True, chunks=64,
            rule='every one of the 146097 days of [1900-01-01, 2300-01-01) with a time of day derived from the ordinal (1/8 midnight, 1/8 whole second, rest microseconds). '
                 'Per day: ' + _FORMATS + _ORACLE + 'non-trivial as in spellings'),
    EnumSub('overflow', enum_overflow, run_overflow, strategy=lambda tier: _overflow_case, quick=1500, chunks=64, floor=0.3,
            rule='(y, m) with y in [1900, 2299], m in [-36, 48]; each spec evaluates dt(y, m, d) for ALL 801 d in [-400, 400] against '
                 'datetime.fromordinal(ordinal of the 1st of the month reached by stepping m-1 months from January of y, + d - 1). '
                 'thorough enumerates all 400 x 85 = 34000 (y, m) = 27 234 000 triples; every spec is non-trivial (days outside the month are always included)'),
]
