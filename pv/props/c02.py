# -*- coding: utf-8 -*-
"""
C02 - join is the relational inner/cross join, xor the anti-join; both terminate and leave operands unchanged.

Oracle: a nested-loop join written from the statement. Key equality keq: NaN~NaN (any identity), None~None, int~float by value,
strings / datetimes by == within their class. Results are compared as multisets of rows.
"""
from collections import Counter

from hypothesis import strategies as st

from pv.core import Sub, Violation, call_fuel, check, short
from pv.codec import build, Env, D0, token, vtoken

ASSUMPTIONS = [
    'key cells: None, ints {0,1,2}, floats {0.0,1.0,2.5}, NaN objects (two identities), strings {"","a","1"}, two datetimes; a quarter of the cases draw every key from numbers only (small ints / floats / NaN, or ints around +-2**53 next to 2.0**53 and 0.5) - no bools (cmp ranks True apart from 1 while == does not)',
    "x.xor(y, mode='r') (documented as 'what is in y but not in x') is checked as the mirrored anti-join whenever the generated mode is r/right/1",
    'xor is claimed with >= 1 key column: with no key column it returns x unchanged, which tests/test_dictable.py::test_dictable_xor_no_rhs pins as intended',
    'computed keys (callables) read columns whose names do not collide with the key-column name given by the other side',
    'with different key names left/right the result names the key after the left spelling and carries the right key column as an ordinary right column',
    'for an empty result only emptiness is asserted (the statement speaks of rows), for a non-empty result the exact column set',
    'termination is decided by fuel: 6000*(rows_left+rows_right+2)^2 python/C calls (a correct run stays far below)',
    'mode "l"/"r" are also spelled "left"/"right"; same-named non-key columns exist in ~half the cases',
]

_key = st.one_of(st.none(), st.sampled_from([1, 2, 0]), st.sampled_from([1.0, 2.5, 0.0]), st.integers(0, 1).map(lambda k: ['nan', k]),
                 st.sampled_from(['a', '1', '']), st.sampled_from([['dt', D0, 0], ['dt', D0 + 1, 0]]))
_key_big = st.one_of(st.sampled_from([2 ** 53, 2 ** 53 + 1, 2.0 ** 53, 1]), st.none())      # ints that floats cannot tell apart
_key_inf = st.one_of(st.sampled_from([['inf', 1], ['inf', -1], ['nan', 0], ['nan', 1], 1.0]), st.none())      # infinities are ordinary float keys, distinct from NaN
# columns of numbers only (what a vectorised sort / grouping would take): small ints and floats with NaN, and numbers that float64 cannot tell apart
_key_num = st.one_of(st.sampled_from([0, 1, 2, -1]), st.sampled_from([1.0, 2.5, 0.5]), st.integers(0, 1).map(lambda k: ['nan', k]))
_key_bignum = st.sampled_from([2 ** 53, 2 ** 53 + 1, 2 ** 53 + 2, 2.0 ** 53, 0.5, 1, -(2 ** 53) - 1])
_key_narrow = st.one_of(st.sampled_from([1, 1.0, 2]), st.integers(0, 1).map(lambda k: ['nan', k]), st.none())
_val = st.one_of(st.none(), st.integers(0, 3), st.sampled_from([0.5, 1.0]), st.sampled_from(['u', 'v']), st.just(['nan', 2]))

KINDS = ['shared', 'name', 'list', 'diffnames', 'callable_l', 'callable_r', 'cross']
MODES = [None, 'l', 'r', 0, 1, 'swap', 'left', 'right']
FNS = ['ident', 'half']


@st.composite
def _case(draw, max_rows=7):
    kind = draw(st.sampled_from(KINDS))
    op = draw(st.sampled_from(['join', 'join', 'xor'] if kind != 'shared' else ['join', 'mul', 'xor', 'div']))
    if kind == 'cross':
        op = 'join'
        nk = 0
    elif kind == 'name':
        nk = 1
    elif kind == 'shared' and op in ('xor', 'div'):
        nk = draw(st.integers(1, 3))
    else:
        nk = draw(st.integers(0 if kind == 'shared' else 1, 3))
    nl = draw(st.integers(0, max_rows))
    nr = draw(st.integers(0, max_rows))
    profile = draw(st.sampled_from(['even'] * 12 + ['long_right', 'long_left'] * 2 + ['big_right', 'big_left']))
    if profile == 'big_right':         # absolute size thresholds
        nl, nr = draw(st.integers(1, 4)), draw(st.sampled_from([64, 65, 100, 128]))
    elif profile == 'big_left':
        nl, nr = draw(st.sampled_from([64, 65, 100, 128])), draw(st.integers(1, 4))
    if profile == 'long_right':        # one side an order of magnitude longer than the other: size-dependent fast paths
        nl, nr = draw(st.integers(1, 2)), draw(st.integers(9, 30))
    elif profile == 'long_left':
        nl, nr = draw(st.integers(9, 30)), draw(st.integers(1, 2))
    keyst = draw(st.sampled_from([_key, _key, _key_narrow, _key_narrow, _key_big, _key_inf, _key_num, _key_bignum]))
    lnames = ['k%i' % (i + 1) for i in range(nk)]
    if kind in ('diffnames',):
        rnames = ['q%i' % (i + 1) for i in range(nk)]
    elif kind == 'callable_l':
        rnames = lnames
        lnames = ['p%i' % (i + 1) for i in range(nk)]
    elif kind == 'callable_r':
        rnames = ['p%i' % (i + 1) for i in range(nk)]
    else:
        rnames = lnames
    both = draw(st.booleans()) and kind != 'shared'
    lextra = (['x'] if draw(st.booleans()) else []) + (['both'] if both else [])
    rextra = (['y'] if draw(st.booleans()) else []) + (['both'] if both else [])
    if kind == 'cross' and not lextra:
        lextra = ['x']
    if kind == 'cross' and not rextra:
        rextra = ['y']
    if nk == 0 and not lextra:
        lextra = ['x']
    if nk == 0 and not rextra:
        rextra = ['y']
    lcols = lnames + lextra
    rcols = rnames + rextra

    def table(cols, names, n):
        return dict(cols=cols, rows=[[draw(keyst if c in names else _val) for c in cols] for _ in range(n)])
    left = table(lcols, lnames, nl)
    right = table(rcols, rnames, nr)
    # make shared keys likely: copy some left keys into right rows
    if nk and nl and nr:
        for j in range(nr):
            if draw(st.integers(0, 2)) == 0:
                src = left['rows'][draw(st.integers(0, nl - 1))]
                for i in range(nk):
                    right['rows'][j][i] = src[i]
    spec = dict(left=left, right=right, kind=kind, nk=nk, op=op, mode=draw(st.sampled_from(MODES)), again=draw(st.sampled_from([False, False, True])))
    if kind.startswith('callable'):
        spec['fns'] = [draw(st.sampled_from(FNS)) for _ in range(nk)]
    return spec


def _fn(name):
    def half(v):
        if isinstance(v, (int, float)) and not isinstance(v, bool) and v == v:
            return v // 2
        return v
    return {'ident': lambda v: v, 'half': half}[name]


def keq(a, b):
    return vtoken(a) == vtoken(b)


def _rows(tbl, env):
    return [{c: build(v, env) for c, v in zip(tbl['cols'], row)} for row in tbl['rows']]


def _mk(tbl, rows):
    from pyg_base import dictable
    return dictable({c: [r[c] for r in rows] for c in tbl['cols']})


def _snap(d):
    return {k: list(v) for k, v in dict(d).items()}


def _same(snap, d):
    now = dict(d)
    return sorted(now) == sorted(snap) and all(len(now[k]) == len(snap[k]) and all(a is b for a, b in zip(now[k], snap[k])) for k in snap)


def run_join(spec):
    env = Env()
    L = _rows(spec['left'], env)
    R = _rows(spec['right'], env)
    x = _mk(spec['left'], L)
    y = _mk(spec['right'], R)
    kind, nk, op, mode = spec['kind'], spec['nk'], spec['op'], spec['mode']
    lc, rc = spec['left']['cols'], spec['right']['cols']
    # ---- the spelling of the key and the model's key functions
    if kind == 'shared':
        names = [c for c in lc if c in rc]
        lcols = rcols = None
        lkey = lambda r: tuple(r[c] for c in names)
        rkey = lkey
        keynames = names
    elif kind == 'cross':
        lcols, rcols = [], []
        lkey = rkey = lambda r: ()
        keynames = []
    elif kind == 'name':
        lcols, rcols = 'k1', None
        lkey = rkey = lambda r: (r['k1'],)
        keynames = ['k1']
    elif kind == 'list':
        keynames = lc[:nk]
        lcols, rcols = list(keynames), None
        lkey = rkey = lambda r: tuple(r[c] for c in keynames)
    elif kind == 'diffnames':
        keynames = lc[:nk]
        rn = rc[:nk]
        lcols, rcols = list(keynames), list(rn)
        if nk == 1:
            lcols, rcols = lcols[0], rcols[0]
        lkey = lambda r: tuple(r[c] for c in keynames)
        rkey = lambda r: tuple(r[c] for c in rn)
    elif kind == 'callable_l':
        keynames = rc[:nk]
        src = lc[:nk]
        fs = [_fn(f) for f in spec['fns']]
        lcols = [eval('lambda %s: f(%s)' % (s, s), {'f': f}) for s, f in zip(src, fs)]
        rcols = list(keynames)
        lkey = lambda r: tuple(f(r[s]) for s, f in zip(src, fs))
        rkey = lambda r: tuple(r[c] for c in keynames)
    elif kind == 'callable_r':
        keynames = lc[:nk]
        src = rc[:nk]
        fs = [_fn(f) for f in spec['fns']]
        lcols = list(keynames)
        rcols = [eval('lambda %s: f(%s)' % (s, s), {'f': f}) for s, f in zip(src, fs)]
        lkey = lambda r: tuple(r[c] for c in keynames)
        rkey = lambda r: tuple(f(r[s]) for s, f in zip(src, fs))
    pymode = (lambda a, b: (b, a)) if mode == 'swap' else mode
    # a second pass on the SAME table objects after a key source column of x was reassigned in place: state kept on a table between calls
    # (memoised groupings, cached rows) must not survive the assignment
    for phase in range(2 if spec.get('again') and L else 1):
        if phase == 1:
            col = lc[0]
            vals = [r[col] for r in L]
            vals = vals[1:] + vals[:1]
            for r, v in zip(L, vals):
                r[col] = v
            x[col] = list(vals)
        sx, sy = _snap(x), _snap(y)
        limit = 6000 * (len(L) + len(R) + 2) ** 2
        what = '%s(%s, %s, lcols=%s, rcols=%s, mode=%s)%s' % (op, short(dict(x), 200), short(dict(y), 200), kind if kind.startswith('callable') else lcols, rcols, mode,
                                                              ' [second call, after x[%r] was reassigned in place]' % lc[0] if phase else '')
        from pyg_base import dictable

        lother = [c for c in lc if c not in keynames]
        rother = [c for c in rc if c not in keynames]
        shared = [c for c in lother if c in rother]

        if op in ('join', 'mul'):
            if op == 'mul':
                res = call_fuel(what, limit, lambda: x * y)
            elif lcols is None and rcols is None:
                res = call_fuel(what, limit, lambda: x.join(y, mode=pymode))
            else:
                res = call_fuel(what, limit, lambda: x.join(y, lcols, rcols, mode=pymode))
            eff_mode = None if op == 'mul' else mode
            exp = Counter()
            for l in L:
                for r in R:
                    lk, rk = lkey(l), rkey(r)
                    if all(keq(a, b) for a, b in zip(lk, rk)):
                        row = [(n, ('key',) + vtoken(v)) for n, v in zip(keynames, lk)]
                        for c in lother:
                            if c not in shared:
                                row.append((c, token(l[c])))
                        for c in rother:
                            if c not in shared:
                                row.append((c, token(r[c])))
                        for c in shared:
                            if eff_mode in ('l', 'left', 0):
                                v = token(l[c])
                            elif eff_mode in ('r', 'right', 1):
                                v = token(r[c])
                            elif eff_mode == 'swap':
                                v = token((r[c], l[c]))
                            else:
                                v = token((l[c], r[c]))
                            row.append((c, v))
                        exp[tuple(sorted(row))] += 1
            check(isinstance(res, dictable), '%s returned %s', what, type(res).__name__)
            cols = list(res.keys())
            lens = set(len(v) for v in dict(res).values())
            check(len(lens) <= 1, '%s: result is not rectangular: %s', what, dict(res))
            got = Counter()
            for row in res:
                got[tuple(sorted((c, (('key',) + vtoken(row[c])) if c in keynames else token(row[c])) for c in cols))] += 1
            if got != exp:
                missing = list((exp - got).elements())[:3]
                extra = list((got - exp).elements())[:3]
                raise Violation('%s: join differs from the nested-loop reference: %i rows expected, %i returned; missing %s; unexpected %s'
                                % (what, sum(exp.values()), sum(got.values()), short(missing, 250), short(extra, 250)))
            nmatch = sum(exp.values())
        else:
            if op == 'div':
                res = call_fuel(what, limit, lambda: x / y)
            elif lcols is None and rcols is None:
                res = call_fuel(what, limit, lambda: x.xor(y))
            else:
                res = call_fuel(what, limit, lambda: x.xor(y, lcols, rcols))
            check(isinstance(res, dictable), '%s returned %s', what, type(res).__name__)
            unmatched = [l for l in L if not any(all(keq(a, b) for a, b in zip(lkey(l), rkey(r))) for r in R)]
            exp = Counter(tuple(sorted((c, token(l[c])) for c in lc)) for l in unmatched)
            cols = list(res.keys())
            got = Counter(tuple(sorted((c, token(row[c])) for c in cols)) for row in res)
            if got != exp:
                raise Violation('%s: xor differs from the reference anti-join: expected %i rows %s, got %i rows %s'
                                % (what, len(unmatched), short(sorted(exp.elements()), 250), len(res), short(sorted(got.elements()), 250)))
            # partition law against the library's own join: every row of x is either in xor or matched in the join
            if kind in ('shared', 'name', 'list'):
                j = call_fuel('join for partition law, ' + what, limit, lambda: x.join(y, lcols, rcols) if lcols is not None else x.join(y))
                jkeys = set(tuple(vtoken(v) for v in lkey(row)) for row in j) if len(j) else set()
                xkeys = set(tuple(vtoken(v) for v in lkey(row)) for row in res) if len(res) else set()
                for l in L:
                    k = tuple(vtoken(v) for v in lkey(l))
                    check((k in jkeys) != (k in xkeys), '%s: row with key %s of x lies in %s', what, lkey(l),
                          'both x*y and x/y' if k in jkeys else 'neither x*y nor x/y')
            nmatch = len(L) - len(unmatched)
            # the mirrored spelling documented in xor's docstring: x.xor(y, mode='r') is what is in y but not in x
            if spec['mode'] in ('r', 'right', 1):
                what_r = what.replace('xor(', 'xor[mode=r](', 1)
                if lcols is None and rcols is None:
                    res_r = call_fuel(what_r, limit, lambda: x.xor(y, mode=spec['mode']))
                else:
                    res_r = call_fuel(what_r, limit, lambda: x.xor(y, lcols, rcols, mode=spec['mode']))
                check(isinstance(res_r, dictable), '%s returned %s', what_r, type(res_r).__name__)
                unmatched_r = [r for r in R if not any(all(keq(a, b) for a, b in zip(lkey(l), rkey(r))) for l in L)]
                exp_r = Counter(tuple(sorted((c, token(r[c])) for c in rc)) for r in unmatched_r)
                cols_r = list(res_r.keys())
                got_r = Counter(tuple(sorted((c, token(row[c])) for c in cols_r)) for row in res_r)
                if got_r != exp_r:
                    raise Violation("%s: differs from the rows of y without a partner in x: expected %i rows %s, got %i rows %s"
                                    % (what_r, len(unmatched_r), short(sorted(exp_r.elements()), 250), len(res_r), short(sorted(got_r.elements()), 250)))
        check(_same(sx, x), '%s modified its left operand: now %s', what, dict(x))
        check(_same(sy, y), '%s modified its right operand: now %s', what, dict(y))
        # the result must not share its column lists with an operand: scribble over the result, then look at the operands again
        for col, values in dict(res).items():
            for i in range(len(values)):
                values[i] = ('scribble', col, i)
        check(_same(sx, x), '%s returned a table that shares storage with its left operand (writing into the result changed x: %s)', what, dict(x))
        check(_same(sy, y), '%s returned a table that shares storage with its right operand (writing into the result changed y: %s)', what, dict(y))

    # ---- classes
    lks = [tuple(vtoken(v) for v in lkey(l)) for l in L]
    rks = [tuple(vtoken(v) for v in rkey(r)) for r in R]
    cl, cr = Counter(lks), Counter(rks)
    m2m = nk > 0 and any((cl[k] >= 2 and cr.get(k, 0) >= 1) or (cr[k] >= 2 and cl.get(k, 0) >= 1) for k in set(cl) | set(cr))

    def rawkeys(rows, keyf):
        return [keyf(r) for r in rows]
    eq_not_identical = False
    nan_two_ids = False
    for a in rawkeys(L, lkey):
        for b in rawkeys(R, rkey):
            if a and all(keq(p, q) for p, q in zip(a, b)):
                for p, q in zip(a, b):
                    if p != p and p is not q:
                        nan_two_ids = True
                    if type(p) is not type(q) or (p != p and p is not q):
                        eq_not_identical = True
    cls = ['op=' + op, 'kind=' + kind, 'nk=%i' % nk, 'mode=%s' % (mode,)] + (['second_call_after_reassignment'] if spec.get('again') and L else [])
    if not L or not R:
        cls.append('empty_side')
    if L and R and (len(R) > 8 * len(L) or len(L) > 8 * len(R)):
        cls.append('lopsided_sizes')
    if max(len(L), len(R)) >= 64:
        cls.append('side_of_64+_rows')
    if m2m:
        cls.append('many_to_many')
    if eq_not_identical:
        cls.append('equal_not_identical_keys')
    if nan_two_ids:
        cls.append('nan_keys_of_two_identities_match')
    allk = [v for ks in rawkeys(L, lkey) + rawkeys(R, rkey) for v in ks]
    if nk and allk and all(isinstance(v, (int, float)) and not isinstance(v, bool) for v in allk) and len(L) >= 2 and len(R) >= 1:
        cls.append('numeric_only_keys')
        big = [v for v in allk if v == v and abs(v) >= 2 ** 53]
        if any(isinstance(v, float) for v in allk) and len(set(v for v in big if isinstance(v, int))) >= 2:
            cls.append('numeric_only_keys:ints_beyond_2**53_next_to_a_float')
    if shared:
        cls.append('same_named_nonkey')
    if nmatch == 0:
        cls.append('no_match')
    return dict(nt=bool(m2m or eq_not_identical), cls=cls)


SUBS = [
    Sub('join_xor', lambda tier: _case(7 if tier == 'quick' else 12), run_join, quick=2500, thorough=8000,
        rule='two tables (0-7 rows quick / 0-12 thorough, a quarter of the cases 1-2 rows against 9-30 rows), 0-3 key columns over a small colliding universe incl. NaN objects of two identities, '
             'int/float twins, None; key spellings None/name/list/different names/callable left/callable right/[] (cross); modes None,l,r,0,1,callable; '
             'x.join(y), x*y, x.xor(y), x/y. Oracle: nested-loop reference compared as multisets, anti-join + partition law, operands unchanged (cell identity), '
             'fuel-bounded termination. non-trivial = many-to-many key or keys equal but not identical (int vs float, two NaN objects)',
        floor=0.2, class_floors={'numeric_only_keys': 0.08, 'numeric_only_keys:ints_beyond_2**53_next_to_a_float': 0.02, 'nan_keys_of_two_identities_match': 0.03, 'many_to_many': 0.1, 'op=xor': 0.1, 'lopsided_sizes': 0.08, 'side_of_64+_rows': 0.02, 'second_call_after_reassignment': 0.15}),
]
SUBS[0].qshards = 8
