# -*- coding: utf-8 -*-
"""
C08 - timeseries operators equal the pointwise operation on aligned operands.

Oracle: a per-timestamp dictionary model written from the statement. An operand is a scalar, a Series {t: v} or a frame
{t: {col: v}}; a binary step aligns the index (intersection / union of the timeseries operands' indices, a missing timestamp
reads as NaN), aligns the columns (intersection / union of the frames' column sets; under 'oj' a column missing on one side
reads as the neutral element of the operation; a Series or scalar is broadcast over the columns) and applies the plain Python
scalar operator cell by cell. Lists fold left to right (sub_/div_: both sides are folded with +/* first).
No pandas arithmetic is used by the oracle; pandas is only used to build the operands and to read index/columns/values.
"""
import datetime
import json
import math

from hypothesis import strategies as st

from pv.core import Sub, Violation, call, check, short
from pv.codec import D0

ASSUMPTIONS = [
    'indices are strictly increasing, duplicate-free daily DatetimeIndex objects (timeseries; pandas cannot reindex duplicate labels): short operands are subsets of 12 days '
    '(empty, identical, shifted, disjoint, windows, random masks, same length/first/last with another interior), a quarter of the cases has long operands of 64/65/100/128/300 '
    'stamps with 0-4 stamps left out and a cell pattern of period 1-5',
    'cells: floats from {NaN, 0.0, -0.0, -1.5, 1.0, 2.0, 2.5} (a quarter of the cases adds 0.1 and 1e16) or int64 from [-3, 6]; + - * min max comparisons are compared exactly '
    '(the oracle performs the same IEEE operations in the same left-to-right order), / pow mean with rel/abs 1e-12',
    'frames have 2-3 distinct columns out of {a,b,c,d} or {a,ab,b,abc}; single-column frames ("pseudo-series", whose column name is ignored by design) are not generated',
    'every case holds at least one timeseries (all-scalar calls are plain arithmetic)',
    'result index / columns are compared as duplicate-free sets (the statement does not fix an order)',
    'frames sharing no column under columns="ij": only "the result has no cells" is asserted (the library returns an empty Series, the docstring of presync pins len == 0)',
    'lists whose intermediate result has fewer than two columns under columns="ij" are generated but not judged: KNOWN["narrow_intermediate"] (registered known finding) takes them out '
    'before the oracle and they are counted as excluded_known',
    'a scalar zero divisor may yield a NaN scalar (for frames: one NaN per column) instead of an all-NaN timeseries (div_(ts, 0) returns nan by design)',
    'pow_: exponents are 0..3 / {0.0, 0.5, 1.0, 2.0, 3.0} / NaN (no negative exponents: 0**-1 is +inf by IEEE, int**-1 raises in numpy); oracle = C pow (math.pow; domain error -> NaN)',
    'pow_ and the comparisons have no neutral element: under columns="oj" the cells of a column present on one side only are not asserted (column set and the other cells are)',
    'min_/max_: NaN-propagating (documented as reduced np.minimum/np.maximum); frames of one case have the same column set (possibly in a different order)',
    'df_sum/df_mean/df_count are called with their default policies (join="oj", columns="oj") on homogeneous collections: all Series or all multi-column frames',
    'commutativity is asserted for the binary form op(a, b) vs op(b, a) of add_ and mul_',
    'policies are spelled ij/oj or inner/outer; the operands must be unchanged after the call (otherwise re-evaluating the same expression gives another result); '
    'whether the result shares memory with an operand is not asserted (not part of the statement)',
]

NAN = float('nan')
SHORT_N = 12                      # short operands live on the first 12 days of the axis
AXIS_N = 340                      # long operands: 64 / 65 / 100 / 128 / 300 stamps starting at day 0..17
LONG_NS = [64, 65, 100, 128, 300]
AXIS = [datetime.datetime.fromordinal(D0) + datetime.timedelta(days=i) for i in range(AXIS_N)]
POS = {t: i for i, t in enumerate(AXIS)}
COLPOOLS = [['a', 'b', 'c', 'd'], ['a', 'ab', 'b', 'abc']]     # the second pool: names that are prefixes of one another


class _Any(object):
    """marker for a cell the statement does not constrain"""
    def __repr__(self):
        return 'ANY'


ANY = _Any()

# ----------------------------------------------------------------------------- generators (plain data)
# A timeseries operand is either explicit  {k, idx: [axis positions], vals: [...], dt, cols}
# or compact ("long")                      {k, long: {start, n, holes: [offsets left out], pat: [cells, cycled by axis position]}, dt, cols}

_fcell = st.sampled_from(['nan', 0.0, 0.0, -1.5, 1.0, 2.0, 2.5, 'nan', 1.0, -0.0])
_fcell_x = st.sampled_from(['nan', 0.0, -1.5, 1.0, 2.5, 0.1, 0.1, 1e16, 1.0, -0.0])    # with values that are not exact in float32 / absorb small addends
_icell = st.integers(-3, 6).map(lambda i: 0 if i == -3 else i)   # 0 twice as likely
_scalar = st.sampled_from([0, 0.0, 1, 2, -1, 2.5, -1.5, 'nan', 3])
_scalar_x = st.sampled_from([0, 0.1, 1, 2, -1, 2.5, 1e16, 'nan', 3])
_exp_f = st.sampled_from([0.0, 0.5, 1.0, 2.0, 3.0, 'nan'])
_exp_i = st.integers(0, 3)
_policy = st.sampled_from(['ij', 'oj', 'ij', 'oj', 'inner', 'outer'])

_IDX_MODES = ['mask', 'mask', 'mask', 'mask', 'window', 'window', 'shift', 'shift', 'shift', 'shift', 'same', 'disjoint', 'empty', 'fp', 'fp']


def _expand(o):
    """compact long operand -> explicit operand"""
    if 'long' not in o:
        return o
    L = o['long']
    holes = set(L['holes'])
    idx = [L['start'] + i for i in range(L['n']) if i not in holes]
    pat = L['pat']
    r = {k: v for k, v in o.items() if k != 'long'}
    r['idx'] = idx
    r['vals'] = [pat[t % len(pat)] for t in idx]
    r['is_long'] = True
    return r


def _norm(spec):
    r = dict(spec)
    for k in ('lhs', 'rhs'):
        if r.get(k) is not None:
            r[k] = [_expand(o) for o in r[k]]
    for k in ('a', 'b'):
        if k in r:
            r[k] = _expand(r[k])
    return r


def _index(draw, first):
    mode = draw(st.sampled_from(_IDX_MODES))
    if mode == 'empty':
        return []
    if first is not None:
        if mode == 'same':
            return list(first)
        if mode == 'disjoint':
            rest = [i for i in range(SHORT_N) if i not in first]
            m = draw(st.integers(1, 2 ** len(rest) - 1)) if rest else 0
            return [i for j, i in enumerate(rest) if m >> j & 1]
        if mode == 'shift' and first:
            # a shifted copy of the first index: overlaps partially
            sh = draw(st.sampled_from([-2, -1, 1, 2]))
            return sorted(set(i + sh for i in first if 0 <= i + sh < SHORT_N))
        if mode == 'fp' and len(first) >= 3:
            # the "fingerprint" of the first index (length, first and last stamp) with a different interior
            slots = list(range(first[0] + 1, first[-1]))
            k = len(first) - 2
            if len(slots) > k:
                inner = sorted(draw(st.permutations(slots))[:k])
                if inner == list(first[1:-1]):
                    inner = sorted(inner[1:] + [[x for x in slots if x not in inner][0]])
                return [first[0]] + inner + [first[-1]]
    if mode == 'window':
        start = draw(st.integers(0, SHORT_N - 2))
        n = draw(st.integers(2, 7))
        return list(range(start, min(SHORT_N, start + n)))
    m = draw(st.integers(1, 2 ** SHORT_N - 1))
    return [i for i in range(SHORT_N) if m >> i & 1]


def _long_index(draw, first):
    """first: the `long` dict of the first long operand of the case, or None"""
    mode = draw(st.sampled_from(['other', 'other', 'same', 'fp', 'fp', 'shift'])) if first else 'other'
    if mode == 'fp' and not first['holes']:
        mode = 'same'
    if mode == 'same':
        return dict(start=first['start'], n=first['n'], holes=list(first['holes']))
    if mode == 'shift':
        return dict(start=first['start'] + draw(st.sampled_from([1, 2, 7])), n=first['n'], holes=list(first['holes']))
    if mode == 'fp':
        k = len(first['holes'])
        holes = sorted(draw(st.sets(st.integers(1, first['n'] - 2), min_size=k, max_size=k)))
        if holes == list(first['holes']):
            holes[0] = [h for h in range(1, first['n'] - 1) if h not in holes][0]
            holes = sorted(holes)
        return dict(start=first['start'], n=first['n'], holes=holes)
    n = draw(st.sampled_from(LONG_NS))
    return dict(start=draw(st.sampled_from([0, 0, 3, 10])), n=n,
                holes=sorted(draw(st.sets(st.integers(1, n - 2), min_size=draw(st.sampled_from([0, 1, 1])), max_size=4))))


def _first_ts(ops):
    for o in ops:
        if o['k'] != 'c':
            return o
    return None


def _first_long(ops):
    for o in ops:
        if 'long' in o:
            return o['long']
    return None


def _ts(draw, kind, prev, ctx, cols=None, cellmode=None):
    """kind 's' or 'f'; prev: operands drawn so far; cellmode 'f' floats, 'i' ints, 'e' float exponents, 'ei' int exponents"""
    cm = cellmode or draw(st.sampled_from(['f', 'f', 'f', 'i']))
    cell = {'f': _fcell_x if ctx['inexact'] else _fcell, 'i': _icell, 'e': _exp_f, 'ei': _exp_i}[cm]
    dt = 'i' if cm in ('i', 'ei') else 'f'
    if ctx['big'] and draw(st.integers(0, 2)) > 0:
        L = _long_index(draw, _first_long(prev))
        npat = draw(st.integers(1, 5))          # few distinct values, many ties
        if kind == 's':
            L['pat'] = [draw(cell) for _ in range(npat)]
            return dict(k='s', dt=dt, long=L)
        L['pat'] = [[draw(cell) for _ in cols] for _ in range(npat)]
        return dict(k='f', dt=dt, cols=list(cols), long=L)
    f = _first_ts(prev)
    first = None if f is None else [i for i in _expand(f)['idx'] if i < SHORT_N]
    idx = _index(draw, first)
    if kind == 's':
        return dict(k='s', idx=idx, dt=dt, vals=[draw(cell) for _ in idx])
    return dict(k='f', idx=idx, dt=dt, cols=list(cols), vals=[[draw(cell) for _ in cols] for _ in idx])


def _ctx(draw):
    return dict(pool=draw(st.sampled_from([COLPOOLS[0], COLPOOLS[0], COLPOOLS[1]])), big=draw(st.integers(0, 3)) == 0, inexact=draw(st.integers(0, 3)) == 0)


def _cols(draw, ctx):
    """2-3 column names in drawn order"""
    n = draw(st.integers(2, 3))
    return list(draw(st.permutations(ctx['pool'])))[:n]


def _operands(draw, n, ctx, allow_scalar=True, allow_frame=True, cols_fixed=None, pre=(), profile='mixed'):
    """n operands; cols_fixed: the column set of every frame (order free)"""
    ops = []
    for _ in range(n):
        if profile == 'frames':
            kinds = ['f', 'f', 'f', 'f', 's', 'c']
        else:
            kinds = ['s', 's'] + (['f', 'f'] if allow_frame else []) + (['c'] if allow_scalar else [])
        k = draw(st.sampled_from(kinds))
        prev = list(pre) + ops
        if k == 'c':
            ops.append(dict(k='c', v=draw(_scalar_x if ctx['inexact'] else _scalar)))
        elif k == 's':
            ops.append(_ts(draw, 's', prev, ctx))
        else:
            if cols_fixed is not None:
                cols = list(draw(st.permutations(cols_fixed)))
            else:
                cols = _cols(draw, ctx)
                pf = [o for o in prev if o['k'] == 'f']
                how = draw(st.integers(0, 7))
                if pf and how == 0:
                    rest = [c for c in ctx['pool'] if c not in pf[0]['cols']]
                    if len(rest) >= 2:
                        cols = rest                                            # shares no column with the first frame
                elif pf and how == 1:
                    cols = list(draw(st.permutations(pf[0]['cols'])))          # same column set, drawn order
            ops.append(_ts(draw, 'f', prev, ctx, cols))
    return ops


def _ensure_ts(draw, ops, ctx, allow_frame=True, cols=None):
    if all(o['k'] == 'c' for o in ops):
        i = draw(st.integers(0, len(ops) - 1))
        if allow_frame and draw(st.booleans()):
            ops[i] = _ts(draw, 'f', [], ctx, cols or _cols(draw, ctx))
        else:
            ops[i] = _ts(draw, 's', [], ctx)
    return ops


@st.composite
def _arith_case(draw):
    op = draw(st.sampled_from(['add_', 'sub_', 'mul_', 'div_']))
    join = draw(_policy)
    columns = draw(_policy)
    ctx = _ctx(draw)
    form = draw(st.sampled_from(['bin', 'bin', 'list', 'list', 'split']))
    if form == 'list' and op in ('sub_', 'div_'):
        form = 'split'
    profile = draw(st.sampled_from(['mixed', 'mixed', 'frames']))
    if form == 'bin':
        ops = _ensure_ts(draw, _operands(draw, 2, ctx, profile=profile), ctx)
        if op == 'div_' and ops[0]['k'] != 'c' and draw(st.integers(0, 5)) == 0:
            ops[1] = dict(k='c', v=draw(st.sampled_from([0, 0.0])))          # the scalar zero divisor
        return dict(op=op, join=join, columns=columns, form=form, lhs=[ops[0]], rhs=[ops[1]], lhs_list=False, rhs_list=False)
    n = draw(st.integers(2, 4))
    # the column sets of the frames of one reduced list are free: lists whose intermediate result has fewer than two columns
    # under columns='ij' are generated and taken out by KNOWN['narrow_intermediate'] (counted as excluded_known)
    ops = _ensure_ts(draw, _operands(draw, n, ctx, profile=profile), ctx)
    if form == 'list':
        return dict(op=op, join=join, columns=columns, form=form, lhs=ops, rhs=None, lhs_list=True, rhs_list=False)
    nl = draw(st.integers(1, n - 1))
    lhs, rhs = ops[:nl], ops[nl:]
    lhs_list = True if len(lhs) > 1 else draw(st.booleans())
    rhs_list = True if len(rhs) > 1 else draw(st.booleans())
    return dict(op=op, join=join, columns=columns, form=form, lhs=lhs, rhs=rhs, lhs_list=lhs_list, rhs_list=rhs_list)


@st.composite
def _cmp_case(draw):
    op = draw(st.sampled_from(['pow_', 'pow_', 'gt_', 'ge_', 'lt_', 'le_']))
    join = draw(_policy)
    columns = draw(_policy)
    ctx = _ctx(draw)
    if op != 'pow_':
        ops = _ensure_ts(draw, _operands(draw, 2, ctx, profile=draw(st.sampled_from(['mixed', 'mixed', 'frames']))), ctx)
        return dict(op=op, join=join, columns=columns, a=ops[0], b=ops[1])
    a = _operands(draw, 1, ctx)[0]
    kb = draw(st.sampled_from(['c', 's', 's', 'f']))
    cm = draw(st.sampled_from(['e', 'ei']))
    if kb == 'c':
        b = dict(k='c', v=draw(_exp_f if cm == 'e' else _exp_i))
    elif kb == 's':
        b = _ts(draw, 's', [a], ctx, cellmode=cm)
    else:
        b = _ts(draw, 'f', [a], ctx, _cols(draw, ctx), cellmode=cm)
    if a['k'] == 'c' and b['k'] == 'c':
        a = _ts(draw, 's', [], ctx)
    return dict(op=op, join=join, columns=columns, a=a, b=b)


@st.composite
def _minmax_case(draw):
    op = draw(st.sampled_from(['min_', 'max_']))
    join = draw(_policy)
    columns = draw(_policy)
    ctx = _ctx(draw)
    form = draw(st.sampled_from(['bin', 'list', 'split']))
    n = 2 if form == 'bin' else draw(st.integers(2, 4))
    cols = _cols(draw, ctx)
    ops = _ensure_ts(draw, _operands(draw, n, ctx, cols_fixed=cols), ctx, cols=cols)
    if form == 'bin':
        return dict(op=op, join=join, columns=columns, form=form, lhs=[ops[0]], rhs=[ops[1]], lhs_list=False, rhs_list=False)
    if form == 'list':
        return dict(op=op, join=join, columns=columns, form=form, lhs=ops, rhs=None, lhs_list=True, rhs_list=False)
    nl = draw(st.integers(1, n - 1))
    lhs, rhs = ops[:nl], ops[nl:]
    return dict(op=op, join=join, columns=columns, form=form, lhs=lhs, rhs=rhs,
                lhs_list=True if len(lhs) > 1 else draw(st.booleans()), rhs_list=True if len(rhs) > 1 else draw(st.booleans()))


@st.composite
def _agg_case(draw):
    op = draw(st.sampled_from(['df_sum', 'df_mean', 'df_count']))
    frames = draw(st.booleans())
    ctx = _ctx(draw)
    n = draw(st.integers(2, 4))
    ops = []
    for _ in range(n):
        if frames:
            pf = [o for o in ops if o['k'] == 'f']
            cols = list(draw(st.permutations(pf[0]['cols']))) if pf and draw(st.integers(0, 5)) == 0 else _cols(draw, ctx)
            ops.append(_ts(draw, 'f', ops, ctx, cols))
        else:
            ops.append(_ts(draw, 's', ops, ctx))
    form = draw(st.sampled_from(['list', 'list', 'split']))
    if form == 'list':
        return dict(op=op, form=form, lhs=ops, rhs=None, lhs_list=True, rhs_list=False)
    nl = draw(st.integers(1, n - 1))
    lhs, rhs = ops[:nl], ops[nl:]
    return dict(op=op, form=form, lhs=lhs, rhs=rhs,
                lhs_list=True if len(lhs) > 1 else draw(st.booleans()), rhs_list=True if len(rhs) > 1 else draw(st.booleans()))


# ----------------------------------------------------------------------------- builder

def _cellv(v):
    return NAN if v == 'nan' else v


_SESSION = [None]      # while a session case runs: operand spec (json) -> the ONE object built for it, shared by all calls of the session


def _build(o):
    if _SESSION[0] is not None and o['k'] != 'c':
        key = json.dumps(o, sort_keys=True)
        if key not in _SESSION[0]:
            _SESSION[0][key] = _build_fresh(o)
        return _SESSION[0][key]
    return _build_fresh(o)


def _build_fresh(o):
    import pandas as pd
    if o['k'] == 'c':
        return _cellv(o['v'])
    idx = pd.DatetimeIndex([AXIS[i] for i in o['idx']])
    dtype = 'int64' if o['dt'] == 'i' else 'float64'
    if o['k'] == 's':
        return pd.Series([_cellv(v) for v in o['vals']], index=idx, dtype=dtype)
    return pd.DataFrame({c: [_cellv(row[j]) for row in o['vals']] for j, c in enumerate(o['cols'])}, index=idx, columns=list(o['cols']), dtype=dtype)


def _model(o):
    if o['k'] == 'c':
        return ('c', _cellv(o['v']))
    if o['k'] == 's':
        return ('s', {t: _cellv(v) for t, v in zip(o['idx'], o['vals'])})
    return ('f', list(o['cols']), {t: {c: _cellv(v) for c, v in zip(o['cols'], row)} for t, row in zip(o['idx'], o['vals'])})


def _args(spec):
    lhs = [_build(o) for o in spec['lhs']]
    rhs = None if spec['rhs'] is None else [_build(o) for o in spec['rhs']]
    a = lhs if spec['lhs_list'] else lhs[0]
    if rhs is None:
        return (a,), lhs
    b = rhs if spec['rhs_list'] else rhs[0]
    return (a, b), lhs + rhs


def _snapshot(built):
    return [_canon(x) for x in built]


def _check_unchanged(what, built, before):
    """re-evaluating the same expression must see the same operands: the call may not write into the caller's objects"""
    for i, (x, b) in enumerate(zip(built, before)):
        check(_canon(x) == b, '%s changed its operand number %s in place: it was %s and is now %s', what, i, b, _canon(x))


# ----------------------------------------------------------------------------- reference model

def _isnan(x):
    return isinstance(x, float) and x != x


def _val(o, t, c, neutral):
    if o[0] == 'c':
        return o[1]
    if o[0] == 's':
        return o[1].get(t, NAN)
    if c not in o[1]:
        return neutral
    row = o[2].get(t)
    return NAN if row is None else row[c]


class _Flags(object):
    def __init__(self):
        self.narrow_intermediate = False


def m_bin(x, y, fn, join, columns, neutral, flags=None):
    """one binary step of the statement"""
    if flags is not None and any(o[0] == 'f' and len(o[1]) < 2 for o in (x, y)):
        flags.narrow_intermediate = True     # operands always have >= 2 columns, so this is an intermediate result
    if x[0] == 'c' and y[0] == 'c':
        return ('c', fn(x[1], y[1]))
    idxs = [set(o[-1]) for o in (x, y) if o[0] != 'c']
    index = idxs[0]
    for s in idxs[1:]:
        index = (index & s) if join[0] == 'i' else (index | s)
    frames = [o for o in (x, y) if o[0] == 'f']

    def cell(t, c):
        p, q = _val(x, t, c, neutral), _val(y, t, c, neutral)
        if p is ANY or q is ANY:
            return ANY
        return fn(p, q)
    if not frames:
        return ('s', {t: cell(t, None) for t in sorted(index)})
    cols = set(frames[0][1])
    for f in frames[1:]:
        cols = (cols & set(f[1])) if columns[0] == 'i' else (cols | set(f[1]))
    cols = sorted(cols)
    return ('f', cols, {t: {c: cell(t, c) for c in cols} for t in sorted(index)})


def m_fold(ms, fn, join, columns, neutral, flags=None):
    res = ms[0]
    for m in ms[1:]:
        res = m_bin(res, m, fn, join, columns, neutral, flags)
    return res


def f_add(a, b):
    return a + b


def f_sub(a, b):
    return a - b


def f_mul(a, b):
    return a * b


def f_div(a, b):
    # "division by zero yields NaN"; a NaN divisor gives NaN by IEEE
    if b == 0:
        return NAN
    return a / b


def f_pow(a, b):
    try:
        return math.pow(a, b)      # C pow: pow(x, 0) = 1 and pow(1, y) = 1 even for NaN
    except ValueError:             # negative base, fractional exponent
        return NAN


def f_min(a, b):
    if _isnan(a) or _isnan(b):
        return NAN
    return a if a <= b else b


def f_max(a, b):
    if _isnan(a) or _isnan(b):
        return NAN
    return a if a >= b else b


FN = dict(add_=(f_add, 0.0), sub_=(f_sub, 0.0), mul_=(f_mul, 1.0), div_=(f_div, 1.0), pow_=(f_pow, ANY),
          gt_=(lambda a, b: a > b, ANY), ge_=(lambda a, b: a >= b, ANY), lt_=(lambda a, b: a < b, ANY), le_=(lambda a, b: a <= b, ANY),
          min_=(f_min, ANY), max_=(f_max, ANY))


# ----------------------------------------------------------------------------- comparison of a result with the model

def _cells_equal(got, exp, tol):
    if exp is ANY:
        return True
    try:
        g = float(got)
    except (TypeError, ValueError):
        return False
    e = float(exp)
    if e != e:
        return g != g
    if g != g:
        return False
    if tol:
        return math.isclose(g, e, rel_tol=tol, abs_tol=tol)
    return g == e


def _positions(index, what):
    out = []
    for t in list(index):
        try:
            key = t.to_pydatetime() if hasattr(t, 'to_pydatetime') else t
            p = POS.get(key)
        except Exception:
            p = None
        check(p is not None, '%s: result index holds %s, which is not a timestamp of any operand', what, t)
        out.append(p)
    check(len(set(out)) == len(out), '%s: result index has duplicates: %s', what, out)
    return out


def _days(ps):
    return [AXIS[p].strftime('%m-%d') for p in sorted(ps)]


def compare(res, exp, what, tol=None, no_inf=False, nan_scalar_ok=False):
    import numpy as np
    import pandas as pd
    if nan_scalar_ok:
        # scalar zero divisor: _div_ returns the scalar nan per column, i.e. nan for Series and a per-column Series of nan for frames
        if isinstance(res, (float, np.floating)) and res != res:
            return
        if isinstance(res, pd.Series) and exp[0] == 'f' and set(res.index) == set(exp[1]) and all(isinstance(v, (float, np.floating)) and v != v for v in res.values):
            return
    if exp[0] == 'c':
        check(isinstance(res, (int, float, bool, np.number, np.bool_)), '%s: expected a scalar, got %s', what, res)
        check(_cells_equal(res, exp[1], tol), '%s: expected %s, got %s', what, exp[1], res)
        return
    if exp[0] == 's':
        check(isinstance(res, pd.Series), '%s: expected a Series on %s, got %s', what, _days(exp[1]), res)
        ps = _positions(res.index, what)
        check(set(ps) == set(exp[1]), '%s: result index is %s, the join policy prescribes %s', what, _days(ps), _days(exp[1]))
        vals = res.values
        for i, p in enumerate(ps):
            g, e = vals[i], exp[1][p]
            if no_inf:
                check(not (isinstance(g, (float, np.floating)) and abs(g) == math.inf), '%s: result holds %s at %s', what, g, AXIS[p].strftime('%m-%d'))
            check(_cells_equal(g, e, tol), '%s: at %s expected %s, got %s', what, AXIS[p].strftime('%m-%d'), e, g)
        return
    cols, rows = exp[1], exp[2]
    if not cols:
        check(isinstance(res, (pd.Series, pd.DataFrame)) and res.size == 0, '%s: operands share no column, expected a result without cells, got %s', what, res)
        return
    check(isinstance(res, pd.DataFrame), '%s: expected a DataFrame with columns %s, got %s', what, cols, res)
    rc = list(res.columns)
    check(len(set(rc)) == len(rc) and set(rc) == set(cols), '%s: result columns are %s, the column policy prescribes %s', what, rc, cols)
    ps = _positions(res.index, what)
    check(set(ps) == set(rows), '%s: result index is %s, the join policy prescribes %s', what, _days(ps), _days(rows))
    for c in cols:
        vals = res[c].values
        for i, p in enumerate(ps):
            g, e = vals[i], rows[p][c]
            if no_inf:
                check(not (isinstance(g, (float, np.floating)) and abs(g) == math.inf), '%s: result holds %s at %s, column %s', what, g, AXIS[p].strftime('%m-%d'), c)
            check(_cells_equal(g, e, tol), '%s: at %s, column %s: expected %s, got %s', what, AXIS[p].strftime('%m-%d'), c, e, g)


def _canon(res):
    """result -> comparable plain structure (columns sorted), NaN as the token 'nan'"""
    import pandas as pd

    def tok(v):
        v = float(v)
        return 'nan' if v != v else v
    if isinstance(res, pd.DataFrame):
        return ('f', sorted((str(c), [tok(v) for v in res[c].values]) for c in res.columns), [str(t) for t in res.index])
    if isinstance(res, pd.Series):
        return ('s', [tok(v) for v in res.values], [str(t) for t in res.index])
    return ('c', tok(res))


# ----------------------------------------------------------------------------- describing a case

def _desc_operand(o):
    if o['k'] == 'c':
        return repr(_cellv(o['v']))
    if len(o['idx']) > 14:
        days = '%s..%s (%i stamps)' % (AXIS[o['idx'][0]].strftime('%m-%d'), AXIS[o['idx'][-1]].strftime('%m-%d'), len(o['idx']))
        vals = '%s...' % (o['vals'][:6],)
    else:
        days = ','.join(AXIS[i].strftime('%d') for i in o['idx'])
        vals = '%s' % (o['vals'],)
    if o['k'] == 's':
        return 'Series(%s @%s)' % (vals, days)
    return 'Frame(%s %s @%s)' % (o['cols'], vals, days)


def _desc(spec, kw):
    def side(ops, as_list):
        s = ', '.join(_desc_operand(o) for o in ops)
        return '[%s]' % s if as_list else s
    a = side(spec['lhs'], spec['lhs_list'])
    if spec['rhs'] is not None:
        a += ', ' + side(spec['rhs'], spec['rhs_list'])
    k = ', '.join('%s=%r' % kv for kv in sorted(kw.items()))
    return short('%s(%s%s)' % (spec['op'], a, ', ' + k if k else ''), 700)


def _classes(all_ops, extra, policies=()):
    """class labels + the non-trivial rule: partially overlapping indices with a NaN or 0 in the overlap, or differing column sets"""
    ts = [o for o in all_ops if o['k'] != 'c']
    cls = list(extra)
    cls.append('n=%i' % len(all_ops))
    partial_nz = False
    partial = disjoint = identical = fingerprint = False
    zero_at = []
    for o in ts:
        z = set()
        for p, t in enumerate(o['idx']):
            row = o['vals'][p] if o['k'] == 'f' else [o['vals'][p]]
            if any(v == 'nan' or v == 0 for v in row):
                z.add(t)
        zero_at.append(z)
    for i in range(len(ts)):
        for j in range(i + 1, len(ts)):
            ia, ib = ts[i]['idx'], ts[j]['idx']
            a, b = set(ia), set(ib)
            ab = a & b
            if a and b and not ab:
                disjoint = True
            if a and a == b:
                identical = True
            if len(ia) >= 3 and len(ia) == len(ib) and ia[0] == ib[0] and ia[-1] == ib[-1] and a != b:
                fingerprint = True
            if ab and a != b:
                partial = True
                if any(z & ab for z in zero_at):
                    partial_nz = True
    frames = [o for o in ts if o['k'] == 'f']
    colsets = set(frozenset(o['cols']) for o in frames)
    diffcols = len(colsets) > 1
    if partial:
        cls.append('partial_overlap')
    if partial_nz:
        cls.append('nan_or_0_in_overlap')
    if disjoint:
        cls.append('disjoint_indices')
    if identical:
        cls.append('identical_indices')
    if fingerprint:
        cls.append('fingerprint_indices')       # same length, first and last stamp, different interior
    if any(not o['idx'] for o in ts):
        cls.append('empty_operand')
    if len(all_ops) >= 3 and any(o['k'] != 'c' and not o['idx'] for o in all_ops[1:-1]):
        cls.append('empty_in_the_middle')
    if diffcols:
        cls.append('differing_columns')
    if any(set(x['cols']) == set(y['cols']) and list(x['cols']) != list(y['cols']) for i, x in enumerate(frames) for y in frames[i + 1:]):
        cls.append('same_columns_other_order')
    names = sorted(set(c for o in frames for c in o['cols']))
    if any(x != y and y.startswith(x) for x in names for y in names):
        cls.append('prefix_column_names')
    if any(o['k'] == 'c' for o in all_ops):
        cls.append('scalar')
    if any(o['k'] == 'c' and o['v'] == 0 for o in all_ops):
        cls.append('falsy_scalar')
    if frames and any(o['k'] == 's' for o in ts):
        cls.append('series_with_frame')
    if any(o['dt'] == 'i' for o in ts):
        cls.append('int_dtype')
    lens = [len(o['idx']) for o in ts]
    if any(n >= 64 for n in lens):
        cls.append('long')
        if any(0 < n and 8 * n <= max(lens) for n in lens):
            cls.append('long_with_short')
        if len([n for n in lens if n >= 64]) >= 2:
            cls.append('long_with_long')

    def cells(o):
        if o['k'] == 'c':
            return [o['v']]
        return [v for row in o['vals'] for v in row] if o['k'] == 'f' else o['vals']
    if any(v in (0.1, 1e16) for o in all_ops for v in cells(o)):
        cls.append('inexact_values')
    if any(len(p) > 2 for p in policies):
        cls.append('spelled_out_policy')
    return bool(partial_nz or diffcols), cls


# ----------------------------------------------------------------------------- sub-check: add_ sub_ mul_ div_

def run_arith(spec):
    import pyg_base
    spec = _norm(spec)
    op, join, columns = spec['op'], spec['join'], spec['columns']
    f = getattr(pyg_base, op)
    kw = dict(join=join, columns=columns)
    args, built = _args(spec)
    before = _snapshot(built)
    what = _desc(spec, kw)
    res = call(what, f, *args, **kw)
    _check_unchanged(what, built, before)
    # ---- reference
    lm = [_model(o) for o in spec['lhs']]
    rm = [] if spec['rhs'] is None else [_model(o) for o in spec['rhs']]
    flags = _Flags()
    zero_scalar_div = False
    if op in ('add_', 'mul_'):
        fn, neutral = FN[op]
        exp = m_fold(lm + rm, fn, join, columns, neutral, flags)
    else:
        inner = 'add_' if op == 'sub_' else 'mul_'
        fi, ni = FN[inner]
        A = m_fold(lm, fi, join, columns, ni, flags)
        B = m_fold(rm, fi, join, columns, ni, flags)
        fn, neutral = FN[op]
        exp = m_bin(A, B, fn, join, columns, neutral, flags)
        zero_scalar_div = op == 'div_' and B[0] == 'c' and B[1] == 0
    compare(res, exp, what, tol=1e-12 if op == 'div_' else None, no_inf=(op == 'div_'), nan_scalar_ok=zero_scalar_div)
    # ---- commutativity of the binary form
    extra = ['op=' + op, 'form=' + spec['form'], 'join=' + join[0] + 'j', 'columns=' + columns[0] + 'j']
    if op in ('add_', 'mul_') and spec['form'] == 'bin':
        res2 = call('swapped operands of ' + what, f, args[1], args[0], **kw)
        c1, c2 = _canon(res), _canon(res2)
        check(c1 == c2, '%s is not commutative: %s but with the operands swapped %s', what, short(c1, 400), short(c2, 400))
        _check_unchanged(what, built, before)
        extra.append('commutativity_checked')
    all_ops = spec['lhs'] + (spec['rhs'] or [])
    nt, cls = _classes(all_ops, extra, (join, columns))
    if flags.narrow_intermediate:
        cls.append('narrow_intermediate')      # generated inputs of this class are taken out by KNOWN before they get here
    if op == 'div_':
        zero = _has_zero_divisor(B)
        if zero:
            cls.append('zero_divisor_cell')
        if zero_scalar_div:
            cls.append('zero_scalar_divisor')
    if exp[0] == 'f' and not exp[1]:
        cls.append('no_common_column')
    if columns[0] == 'o' and 'differing_columns' in cls:
        cls.append('neutral_element_used')
    return dict(nt=nt, cls=cls)


def _has_zero_divisor(B):
    if B[0] == 'c':
        return B[1] == 0
    if B[0] == 's':
        return any(v == 0 for v in B[1].values())
    return any(v == 0 for row in B[2].values() for v in row.values())


# ----------------------------------------------------------------------------- sub-check: pow_ and comparisons

def run_cmp_pow(spec):
    import pyg_base
    spec = _norm(spec)
    op, join, columns = spec['op'], spec['join'], spec['columns']
    f = getattr(pyg_base, op)
    kw = dict(join=join, columns=columns)
    s2 = dict(op=op, lhs=[spec['a']], rhs=[spec['b']], lhs_list=False, rhs_list=False)
    args, built = _args(s2)
    before = _snapshot(built)
    what = _desc(s2, kw)
    res = call(what, f, *args, **kw)
    _check_unchanged(what, built, before)
    fn, neutral = FN[op]
    exp = m_bin(_model(spec['a']), _model(spec['b']), fn, join, columns, neutral)
    compare(res, exp, what, tol=1e-12 if op == 'pow_' else None)
    nt, cls = _classes([spec['a'], spec['b']], ['op=' + op, 'join=' + join[0] + 'j', 'columns=' + columns[0] + 'j'], (join, columns))
    if op != 'pow_':
        outcomes = set()
        for v in (exp[1].values() if exp[0] == 's' else [x for row in exp[2].values() for x in row.values()] if exp[0] == 'f' else []):
            if v is not ANY:
                outcomes.add(bool(v))
        if len(outcomes) == 2:
            cls.append('both_outcomes')
    return dict(nt=nt, cls=cls)


# ----------------------------------------------------------------------------- sub-check: min_ max_

def run_minmax(spec):
    import pyg_base
    spec = _norm(spec)
    op, join, columns = spec['op'], spec['join'], spec['columns']
    f = getattr(pyg_base, op)
    kw = dict(join=join, columns=columns)
    args, built = _args(spec)
    before = _snapshot(built)
    what = _desc(spec, kw)
    res = call(what, f, *args, **kw)
    _check_unchanged(what, built, before)
    ms = [_model(o) for o in spec['lhs'] + (spec['rhs'] or [])]
    fn, neutral = FN[op]
    # min_/max_ align all operands at once: index = intersection/union over all timeseries, then fold
    exp = m_fold(ms, fn, join, columns, neutral)
    compare(res, exp, what)
    nt, cls = _classes(spec['lhs'] + (spec['rhs'] or []), ['op=' + op, 'form=' + spec['form'], 'join=' + join[0] + 'j', 'columns=' + columns[0] + 'j'], (join, columns))
    return dict(nt=nt, cls=cls)


# ----------------------------------------------------------------------------- sub-check: df_sum df_mean df_count

def run_agg(spec):
    import pyg_base
    spec = _norm(spec)
    op = spec['op']
    f = getattr(pyg_base, op)
    args, built = _args(spec)
    before = _snapshot(built)
    what = _desc(spec, {})
    res = call(what, f, *args)
    _check_unchanged(what, built, before)
    ops = spec['lhs'] + (spec['rhs'] or [])
    ms = [_model(o) for o in ops]
    index = sorted(set(t for m in ms for t in m[-1]))
    frames = ms[0][0] == 'f'
    cols = sorted(set(c for m in ms for c in m[1])) if frames else [None]

    def agg(t, c):
        vals = []
        for m in ms:
            if frames:
                row = m[2].get(t)
                v = NAN if (row is None or c not in row) else row[c]
            else:
                v = m[1].get(t, NAN)
            if not _isnan(v):
                vals.append(v)
        n = len(vals)
        if op == 'df_count':
            return n
        if n == 0:
            return NAN
        s = 0.0
        for v in vals:
            s = s + v
        return s if op == 'df_sum' else s / n
    if frames:
        exp = ('f', cols, {t: {c: agg(t, c) for c in cols} for t in index})
    else:
        exp = ('s', {t: agg(t, None) for t in index})
    compare(res, exp, what, tol=1e-12 if op == 'df_mean' else None)
    nt, cls = _classes(ops, ['op=' + op, 'form=' + spec['form'], 'frames' if frames else 'series'])
    cells = [v for row in exp[2].values() for v in row.values()] if frames else list(exp[1].values())
    if any((v == 0 and op == 'df_count') or _isnan(v) for v in cells):
        cls.append('cell_without_data')
    if any(not _isnan(v) and not (op == 'df_count' and v == 0) for v in cells):
        cls.append('cell_with_data')
    return dict(nt=nt, cls=cls)


# ----------------------------------------------------------------------------- sub-check: several calls on the same operand objects

@st.composite
def _session_case(draw):
    """a pool of 3-4 Series (or frames over one column set) and 2-4 calls on ordered selections of them - the same objects every time -
    half of the selections being prefixes / extensions of the previous call's; one join policy for the whole session in 3 cases out of 4"""
    ctx = _ctx(draw)
    ctx['big'] = False
    frames = draw(st.integers(0, 3)) == 0
    n = draw(st.integers(3, 4))
    cols = _cols(draw, ctx)
    pool = []
    for _ in range(n):
        pool.append(_ts(draw, 'f', pool, ctx, list(draw(st.permutations(cols)))) if frames else _ts(draw, 's', pool, ctx))
    join0 = draw(_policy)
    calls, prev = [], None
    for _ in range(draw(st.integers(2, 4))):
        kind = draw(st.sampled_from(['arith', 'arith', 'agg', 'agg', 'minmax']))
        how = draw(st.sampled_from(['prefix', 'prefix', 'extend', 'free', 'same'])) if prev else 'free'
        if how == 'prefix' and len(prev) >= 3:
            sel = prev[:draw(st.integers(2, len(prev) - 1))]
        elif how == 'extend' and len(prev) < n:
            sel = prev + [i for i in range(n) if i not in prev][:draw(st.integers(1, n - len(prev)))]
        elif how == 'same':
            sel = list(prev)
        else:
            sel = list(draw(st.permutations(list(range(n)))))[:draw(st.integers(2, n))]
        prev = sel
        ops = [pool[i] for i in sel]
        join = join0 if draw(st.integers(0, 3)) else draw(_policy)
        columns = draw(_policy)
        if kind == 'agg':
            c = dict(op=draw(st.sampled_from(['df_sum', 'df_mean', 'df_count'])), form='list', lhs=ops, rhs=None, lhs_list=True, rhs_list=False)
        else:
            op = draw(st.sampled_from(['add_', 'mul_', 'sub_', 'div_'] if kind == 'arith' else ['min_', 'max_']))
            if op in ('sub_', 'div_') or draw(st.booleans()):
                nl = draw(st.integers(1, len(ops) - 1))
                lhs, rhs = ops[:nl], ops[nl:]
                c = dict(op=op, join=join, columns=columns, form='split' if len(ops) > 2 else 'bin', lhs=lhs, rhs=rhs, lhs_list=len(lhs) > 1, rhs_list=len(rhs) > 1)
            else:
                c = dict(op=op, join=join, columns=columns, form='list', lhs=ops, rhs=None, lhs_list=True, rhs_list=False)
        calls.append(dict(kind=kind, sel=sel, call=c))
    return dict(calls=calls)


def run_session(spec):
    _SESSION[0] = {}
    try:
        rel = set()
        sels = [c['sel'] for c in spec['calls']]
        for c in spec['calls']:
            {'arith': run_arith, 'agg': run_agg, 'minmax': run_minmax}[c['kind']](c['call'])
        for a, b in zip(sels, sels[1:]):
            if a != b and (a[:len(b)] == b or b[:len(a)] == a):
                rel.add('operands_prefix_of_previous_call' if len(b) < len(a) else 'operands_extend_previous_call')
            if a == b:
                rel.add('same_operands_again')
        kinds = [c['kind'] for c in spec['calls']]
        cls = ['calls=%i' % len(kinds)] + sorted(rel)
        if 'agg' in kinds and len(set(kinds)) > 1:
            cls.append('aggregation_and_operator_share_operands')
        pols = set(c['call'].get('join', 'oj')[0] for c in spec['calls'])
        if len(pols) == 1:
            cls.append('one_join_policy_throughout')
        return dict(nt=bool(rel - {'same_operands_again'}), cls=cls)
    finally:
        _SESSION[0] = None


# ----------------------------------------------------------------------------- known / excluded input classes

def _narrow_intermediate(spec):
    """
    a list reduction under columns='ij' in which an intermediate result with fewer than two columns is consumed by a further step:
    the library then treats the one-column intermediate as a "pseudo-series" (column name ignored, broadcast over the columns of
    the next operand) and a column-less intermediate as an empty Series, so the result depends on the order of the operands.
    """
    if (spec.get('columns') or 'x')[0] != 'i' or 'lhs' not in spec:
        return False

    def fold_cols(ops):
        cur, hit = None, False
        for o in ops:
            if cur is not None and len(cur) < 2:
                hit = True
            if o['k'] == 'f':
                cur = set(o['cols']) if cur is None else cur & set(o['cols'])
        return cur, hit
    lhs, rhs = spec['lhs'], spec['rhs'] or []
    if spec['op'] in ('add_', 'mul_'):
        return fold_cols(lhs + rhs)[1]
    (cl, hl), (cr, hr) = fold_cols(lhs), fold_cols(rhs)
    return hl or hr or (cl is not None and len(cl) < 2) or (cr is not None and len(cr) < 2)


KNOWN = {'narrow_intermediate': _narrow_intermediate}


_COMMON_RULE = ('operands: float/int Series and 2-3 column frames (names over {a,b,c,d} or {a,ab,b,abc}, free column order), scalars incl. 0 and NaN; short indices on 12 days, '
                'a quarter of the cases with long operands (64/65/100/128/300 stamps, few distinct values) next to short ones; policies spelled ij/oj/inner/outer; '
                'operands must be unchanged after the call. ')

SUBS = [
    Sub('arith', lambda tier: _arith_case(), run_arith, quick=2000, thorough=20000,
        rule='add_/sub_/mul_/div_ on 2-4 operands; index policies x column policies; forms op(a,b), op([..]), op([..],[..]); ' + _COMMON_RULE +
             'oracle: per-timestamp dictionary model folded left to right, neutral element for one-sided columns, zero divisor -> NaN and no inf, op(a,b)==op(b,a) for add_/mul_. '
             'non-trivial = partially overlapping indices with a NaN or 0 inside the overlap, or frames with differing column sets',
        floor=0.2, class_floors={'neutral_element_used': 0.04, 'zero_divisor_cell': 0.05, 'commutativity_checked': 0.1, 'partial_overlap': 0.2,
                                 'series_with_frame': 0.1, 'scalar': 0.15, 'empty_operand': 0.04, 'disjoint_indices': 0.05,
                                 'long': 0.06, 'long_with_short': 0.02, 'long_with_long': 0.02, 'fingerprint_indices': 0.03, 'prefix_column_names': 0.05,
                                 'same_columns_other_order': 0.015, 'falsy_scalar': 0.03, 'inexact_values': 0.08, 'spelled_out_policy': 0.2,
                                 'empty_in_the_middle': 0.004, 'zero_scalar_divisor': 0.005}),
    Sub('cmp_pow', lambda tier: _cmp_case(), run_cmp_pow, quick=1000, thorough=10000,
        rule='pow_ (exponents 0..3, 0.5, NaN) and gt_/ge_/lt_/le_ on two operands; ' + _COMMON_RULE + 'oracle: the same alignment model with '
             'math.pow / Python comparisons; cells of one-sided columns under columns=oj are not judged. non-trivial as in arith',
        floor=0.2, class_floors={'both_outcomes': 0.15, 'partial_overlap': 0.2, 'op=pow_': 0.2, 'long': 0.06, 'fingerprint_indices': 0.01, 'spelled_out_policy': 0.2}),
    Sub('minmax', lambda tier: _minmax_case(), run_minmax, quick=1000, thorough=10000,
        rule='min_/max_ on 2-4 operands (frames of one case have one column set), forms (a,b), ([..]), ([..],[..]); ' + _COMMON_RULE + 'oracle: NaN-propagating '
             'min/max on the aligned cells. non-trivial = partially overlapping indices with a NaN or 0 inside the overlap',
        floor=0.2, class_floors={'partial_overlap': 0.25, 'series_with_frame': 0.1, 'long': 0.06, 'fingerprint_indices': 0.03, 'same_columns_other_order': 0.05,
                                 'spelled_out_policy': 0.2}),
    Sub('session', lambda tier: _session_case(), run_session, quick=800, thorough=8000,
        rule='a pool of 3-4 Series (a quarter of the cases: frames over one column set) built ONCE, then 2-4 calls of add_/sub_/mul_/div_/min_/max_/df_sum/df_mean/df_count on ordered '
             'selections of those same objects (half of them a prefix or an extension of the previous selection), mostly under one join policy; every call is judged by the oracle '
             'of its own sub-check (pointwise model on the aligned operands), so a result may not depend on what was computed before. non-trivial = two consecutive calls whose operand lists are prefix-related',
        floor=0.2, class_floors={'operands_prefix_of_previous_call': 0.15, 'operands_extend_previous_call': 0.1, 'aggregation_and_operator_share_operands': 0.2, 'one_join_policy_throughout': 0.2}),
    Sub('agg', lambda tier: _agg_case(), run_agg, quick=1000, thorough=10000,
        rule='df_sum/df_mean/df_count on 2-4 Series or 2-4 multi-column frames (column sets may differ), default policies; ' + _COMMON_RULE + 'oracle: union index, '
             'sum/mean over the non-NaN operands, count of them, NaN (count 0) where none. non-trivial as in arith',
        floor=0.3, class_floors={'cell_without_data': 0.3, 'cell_with_data': 0.5, 'differing_columns': 0.1, 'long': 0.06, 'fingerprint_indices': 0.05}),
]
