# -*- coding: utf-8 -*-
"""
C08 - timeseries operators equal the pointwise operation on aligned operands.

Oracle: a per-timestamp dictionary model written from the statement. An operand is a scalar, a Series {t: v} or a frame
{t: {col: v}}; a binary step aligns the index (intersection / union of the timeseries operands' indices, a missing timestamp
reads as NaN), aligns the columns (intersection / union of the frames' column sets; under 'oj' a column missing on one side
reads as the neutral element of the operation; a Series or scalar is broadcast over the columns) and applies the plain Python
scalar operator cell by cell. Lists fold left to right (sub_/div_: both sides are folded with +/* first).
No pandas arithmetic is used by the oracle; pandas is only used to build the operands and to read index/columns/values.

Round-4 generalisation (classes 11-20 of the builder brief): besides the `session` sub-check (state between calls, now also with comparisons, scalars among the
operands and the caller's very list object handed over again) every sub-check draws, in a few percent of its cases each: numpy scalars, mixed index resolutions,
intraday / 1us-apart stamps, unsorted short operands, operands on one shared index object, one object in two places, numeric column names, int64 cells beyond 2**53,
the three ways of writing a call, a list of scalars as long as the series next to it, an empty companion list. The oracle is the same dictionary model throughout.

Second generalisation pass (classes 21-29): zone-aware indices (every index of a case localized to one zone; the result must be zone-aware and hold the same instants, computed with
zoneinfo), cells / scalars closer to one another than np.isclose's tolerances (1e-9, 1.000000001, tiny divisors), two Series that are views of ONE buffer with different strides,
policies left out of the call (= the documented default 'ij'), the column label 0, and - in `session` - a cell of an operand written in place by the caller between two calls
(the same object with new content: later calls are judged by the new content). Classes 22, 23, 24 do not apply (see ASSUMPTIONS).

Round-7 answer (class 13 among the OPERANDS of the aggregates): `agg` used to hand df_sum / df_mean / df_count timeseries only. One case in six now carries 1-2 scalar operands - plain python
ints / floats and numpy scalars, 0 and NaN among them, one number in two raw types - first, between or last, inside the list or as a bare argument. The reference broadcasts a scalar over the
union index and the union of the columns: a number counts as data everywhere, a NaN scalar nowhere.
"""
import datetime
import json
import math
import zoneinfo

from hypothesis import strategies as st

from pv.core import Sub, Violation, call, check, short
from pv.codec import D0

ASSUMPTIONS = [
    'indices are duplicate-free DatetimeIndex objects (the statement\'s a[t] needs one row per t; pandas cannot reindex duplicate labels): short operands are subsets of 12 stamps '
    '(empty, identical, shifted, disjoint, windows, random masks, same length/first/last with another interior), a quarter of the cases has long operands of 64/65/100/128/300 '
    'stamps with 0-4 stamps left out and a cell pattern of period 1-5. The rows of a short operand may be handed over in another than increasing order (the library logs a warning '
    'and aligns by label all the same; formerly excluded) - the ORDER of the rows of a result is never asserted, only its set of stamps and the cell at every stamp',
    'stamps: daily from 2000-01-03 in 3 cases out of 4; otherwise every 12 hours from 1999-12-28 12:00 (two stamps per calendar day, over 31 Dec / 1 Jan and 29 Feb 2000) or pairs of stamps '
    'one microsecond apart from 2001-02-24 (over 28 Feb / 1 Mar). One case in seven mixes index resolutions (s / ms / us / ns; only us / ns where stamps are 1us apart, coarser ones cannot hold them)',
    'cells: floats from {NaN, 0.0, -0.0, -1.5, 1.0, 2.0, 2.5} (a quarter of the cases adds 0.1 and 1e16) or int64 from [-3, 6]; + - * min max comparisons are compared exactly '
    '(the oracle performs the same IEEE operations in the same left-to-right order), / pow mean with rel/abs 1e-12',
    'int64 cells beyond 2**53 (2**53, 2**53 + 1, 2**53 + 2 and negatives, compared as integers): only where the pointwise operation on the aligned operands is an int64 operation in pandas '
    'itself, i.e. every timeseries of the case is int64, scalars are ints, index policy inner (an outer join turns a column with missing stamps into float64: pandas\' representation, '
    'not fixed by the statement), add_/sub_ under columns=ij (the neutral element of a one-sided column is the float 0.0), comparisons, min_/max_; not for mul_ (int64 overflow), div_, pow_, '
    'df_sum/df_mean (float results)',
    'frames have 2-3 distinct columns out of {a,b,c,d}, {a,ab,b,abc} or the numbers {1,0,2,3} (labels that differ from the positions); single-column frames ("pseudo-series", whose column '
    'name is ignored by design) and duplicate column labels (df_columns: "dataframe with non-unique columns are treated like arrays", the statement speaks of column SETS) are not generated; '
    'int and str labels are not mixed in one case',
    'scalars are Python ints / floats or (one in four) np.int64 / np.float64 of the same value; narrower numpy scalars (float32, int32) are not generated: numpy\'s promotion rules for them '
    'would have to enter the oracle (np.float32(0.1) + 2.5 is a float32)',
    'every case holds at least one timeseries (all-scalar calls are plain arithmetic)',
    'result index / columns are compared as duplicate-free sets (the statement does not fix an order)',
    'frames sharing no column under columns="ij": only "the result has no cells" is asserted (the library returns an empty Series, the docstring of presync pins len == 0)',
    'lists whose intermediate result has fewer than two columns under columns="ij" are generated but not judged: KNOWN["narrow_intermediate"] (registered known finding) takes them out '
    'before the oracle and they are counted as excluded_known',
    'a scalar zero divisor may yield a NaN scalar (for frames: one NaN per column) instead of an all-NaN timeseries (div_(ts, 0) returns nan by design)',
    'pow_: exponents are 0..3 / {0.0, 0.5, 1.0, 2.0, 3.0} / NaN (no negative exponents: 0**-1 is +inf by IEEE, int**-1 raises in numpy); oracle = C pow (math.pow; domain error -> NaN); '
    'pow_(a, a) with one object on both sides is therefore not generated (cells may be negative)',
    'pow_ and the comparisons have no neutral element: under columns="oj" the cells of a column present on one side only are not asserted (column set and the other cells are)',
    'min_/max_: NaN-propagating (documented as reduced np.minimum/np.maximum); frames of one case have the same column set (possibly in a different order)',
    'df_sum/df_mean/df_count are called with their default policies (join="oj", columns="oj"), either left out or spelled out (oj / outer, by keyword or positionally), on homogeneous '
    'collections: all Series or all multi-column frames; the parameters method= and exc= are left at their defaults everywhere (the statement does not describe fill methods or other masks)',
    'df_sum/df_mean/df_count, scalars among the operands (one case in six; "scalars broadcast", "scalars on either side"): 1-2 plain python ints / floats or np.int64 / np.float64 (incl. 0 and NaN) '
    'standing first, between or last, in the list or as a bare argument (df_sum(ts, 5.0), df_count(5, [a, b])), the second one half of the time the first one\'s number in another raw type '
    '(5 / 5.0 / np.int64(5) / np.float64(5.0)); at most 4 operands, at least one of them a timeseries. Judged from the statement: the scalar has its value at every stamp of the union index of the '
    'timeseries (and in every column of the union of the frames\' columns), so a non-NaN scalar counts as one operand with data everywhere and a NaN scalar is skipped everywhere; the raw type of a '
    'number makes no difference. bool operands are not generated (the quantifier speaks of scalars next to values incl. NaN and 0: numbers)',
    'commutativity is asserted for the binary form op(a, b) vs op(b, a) of add_ and mul_ (results compared stamp by stamp, not in row order)',
    'policies are spelled ij/oj or inner/outer; a call is written op(a, b, join=, columns=), op(a, b, join, None, columns) or op(a=, b=, join=, columns=); the operands must be unchanged '
    'after the call, and so must the caller\'s LISTS of operands (otherwise re-evaluating the same expression gives another result; within a session a list with the same content is one list '
    'object in every call and later calls are judged by its original content); whether the result shares memory with an operand is not asserted (not part of the statement)',
    'object identity: operands may share one index object, and one object may take two places of the operand list (op(a, a), op([a, b, a])); the oracle judges them as the equal values they are',
    'a side may be an empty list next to a list with all the operands (op([a, b], []), op([], [a, b])) for add_/mul_/min_/max_/df_*; not for sub_/div_, where an empty side leaves nothing to '
    'subtract / divide by (the library raises TypeError; outside "tuples of 2..4 operands"). A list of k scalars next to a timeseries of k rows is k scalar operands (lists reduce left to right)',
    'zone-aware cases: every index of the case is the wall-clock axis localized to ONE of Asia/Tokyo, America/New_York, Asia/Kolkata (the stamps used - midnight, noon, midnight + 1us - exist once '
    'in each zone); demanded: a non-empty result index is zone-aware and holds exactly the instants of the join (compared as UTC instants computed with zoneinfo); the zone OBJECT of the result and '
    'the zone-awareness of an EMPTY result index are not asserted; operands in different zones, or naive next to aware (which instants such stamps share is not fixed by the statement), are not generated',
    'values within a tolerance: one case in ten (more for div_ and the comparisons) draws its float cells / scalars from {NaN, 0.0, +-1e-9, 1.0, 1.000000001, 2.5, 2.5000000001}: the statement says '
    'a[t] op b[t], so 1.0 < 1.000000001 is True, 1.0 / 1e-9 is 1e9 (only an exact zero divisor gives NaN) and 1e-9 counts as data for df_count; the oracle tolerances (1e-12) stay far below these gaps',
    'same buffer, other strides: two short Series of m rows built (copy=False) on ONE numpy buffer of 2m cells, a = buf[:m] and b = buf[::2][:m] (same address, dtype, shape; other strides), on the '
    'same, a shifted or another window index; Series only and not in sessions (kept small)',
    'a policy that is left out of the call is judged as the documented default of the signature, "ij" (add_(a, b, join="ij", method=None, columns="ij"); docstrings: "By default, if columns = ij"); '
    'df_sum/df_mean/df_count: "oj", as before',
    'session, in-place edits: between two calls the caller may write ONE cell (same dtype, another value) into an operand of the previous call with .iloc; the object stays the same object and every '
    'later call is judged by its new content (the statement holds per call, whatever was computed before); the lists of earlier calls are not handed over again after an edit',
    'classes 22-24 of the brief do not apply: 22 (the operators tabulate nothing - every answer is inside the domain; division by zero is fixed by the statement), 23 (no renames / assignments are '
    'given to the operators), 24 (no patterns, partials or other option-carrying objects among the arguments). Class 29: the falsy scalar 0 / 0.0 (falsy_scalar), the column label 0 '
    '(falsy_column_label), empty operands and empty companion lists were there already; \'\' / None / False as column labels are not generated (None is "no column" for df_column)',
    'classes of the brief that do not apply: 16 (no user function is handed to the operators), 20 (lists of fill methods are not part of the statement), the decorator-object and exception-'
    'formatting parts of 11 / 17, arrays / tuples as operands (18: the quantifier has Series, frames, scalars and lists of them), duplicate labels (15, see above)',
]

NAN = float('nan')
SHORT_N = 12                      # short operands live on the first 12 days of the axis
AXIS_N = 340                      # long operands: 64 / 65 / 100 / 128 / 300 stamps starting at day 0..17
LONG_NS = [64, 65, 100, 128, 300]


def _mk_axis(mode):
    """position -> timestamp. 'd': daily from Monday 2000-01-03; 'h12': every 12 hours from 1999-12-28 12:00 (two stamps per calendar day, the short range
    runs over 31 Dec / 1 Jan, the long one over 29 Feb 2000); 'us': pairs of stamps ONE MICROSECOND apart (midnight and midnight + 1us) from 2001-02-24
    (the short range runs over 28 Feb / 1 Mar of a non-leap year)"""
    if mode == 'h12':
        base = datetime.datetime(1999, 12, 28, 12)
        return [base + datetime.timedelta(hours=12 * i) for i in range(AXIS_N)]
    if mode == 'us':
        base = datetime.datetime(2001, 2, 24)
        return [base + datetime.timedelta(days=i // 2, microseconds=i % 2) for i in range(AXIS_N)]
    return [datetime.datetime.fromordinal(D0) + datetime.timedelta(days=i) for i in range(AXIS_N)]


AXES = {m: _mk_axis(m) for m in ('d', 'h12', 'us')}
POSS = {m: {t: i for i, t in enumerate(ax)} for m, ax in AXES.items()}
_AX = ['d']                       # the axis of the case that is running (spec['axis'])
UNITS = {'d': ['s', 'ms', 'us', 'ns'], 'h12': ['s', 'ms', 'us', 'ns'], 'us': ['us', 'ns']}     # index resolutions that can hold every stamp of the axis
COLPOOLS = [['a', 'b', 'c', 'd'], ['a', 'ab', 'b', 'abc'],     # the second pool: names that are prefixes of one another
            [1, 0, 2, 3]]                                      # the third: numbers only, labels that differ from the positions
BIG = 2 ** 53                     # ints from here on are not all exact as float64
TZS = ['Asia/Tokyo', 'America/New_York', 'Asia/Kolkata']       # +09:00; -05:00 / -04:00 (the long daily range crosses both changes of 2000); +05:30
NEAR = [1e-9, -1e-9, 1.000000001, 2.5000000001]                 # cells / scalars that np.isclose (rtol 1e-5, atol 1e-8) takes for 0.0, 1.0, 2.5
_TZ = [None]                      # the time zone of the case that is running (spec['tz']): every index of the case is localized to it


def _lab(p):
    return AXES[_AX[0]][p].strftime('%m-%d' if _AX[0] == 'd' else '%m-%d %H:%M:%S.%f')


class _Any(object):
    """marker for a cell the statement does not constrain"""
    def __repr__(self):
        return 'ANY'


ANY = _Any()

# ----------------------------------------------------------------------------- generators (plain data)
# A timeseries operand is either explicit  {k, idx: [axis positions], vals: [...], dt, cols}
# or compact ("long")                      {k, long: {start, n, holes: [offsets left out], pat: [cells, cycled by axis position]}, dt, cols}

_fcell = st.sampled_from(['nan', 0.0, 0.0, -1.5, 1.0, 2.0, 2.5, 'nan', 1.0, -0.0])
_fcell_x = st.sampled_from(['nan', 0.0, -1.5, 1.0, 2.5, 0.1, 0.1, 1e16, 1.0, -0.0])    # with values that are not exact in float32 / absorb small addends
_fcell_near = st.sampled_from(['nan', 0.0, 1e-9, 1.0, 1.000000001, 2.5, 2.5000000001, -1e-9, 0.0, 'nan', 1e-9, 1.000000001, 1.0])     # pairs closer than any "robust" tolerance
_scalar_near = st.sampled_from([0, 1e-9, 1, 1.000000001, 2.5, -1e-9, 'nan', 1.0])
_icell = st.integers(-3, 6).map(lambda i: 0 if i == -3 else i)   # 0 twice as likely
_scalar = st.sampled_from([0, 0.0, 1, 2, -1, 2.5, -1.5, 'nan', 3])
_scalar_x = st.sampled_from([0, 0.1, 1, 2, -1, 2.5, 1e16, 'nan', 3])
_icell_big = st.sampled_from([BIG + 1, BIG, -(BIG + 1), 1, 0, BIG + 2, -1, BIG + 1])     # int64 cells; BIG + 1 is not a float64
_scalar_big = st.sampled_from([0, 1, 2, -1, 3, BIG, BIG + 1])
_exp_f = st.sampled_from([0.0, 0.5, 1.0, 2.0, 3.0, 'nan'])
_exp_i = st.integers(0, 3)
_policy = st.sampled_from(['ij', 'oj', 'ij', 'oj', 'inner', 'outer'])

_IDX_MODES = ['mask', 'mask', 'mask', 'mask', 'window', 'window', 'shift', 'shift', 'shift', 'shift', 'same', 'disjoint', 'empty', 'fp', 'fp']


def _expand(o):
    """compact long operand -> explicit operand"""
    if 'long' not in o:
        return o
    L = o['long']
    holes = set(L['holes'])
    idx = [L['start'] + i for i in range(L['n']) if i not in holes]
    pat = L['pat']
    r = {k: v for k, v in o.items() if k != 'long'}
    r['idx'] = idx
    r['vals'] = [pat[t % len(pat)] for t in idx]
    r['is_long'] = True
    return r


def _norm(spec):
    r = dict(spec)
    for k in ('lhs', 'rhs'):
        if r.get(k) is not None:
            r[k] = [_expand(o) for o in r[k]]
    for k in ('a', 'b'):
        if k in r:
            r[k] = _expand(r[k])
    return r


def _index(draw, first):
    mode = draw(st.sampled_from(_IDX_MODES))
    if mode == 'empty':
        return []
    if first is not None:
        if mode == 'same':
            return list(first)
        if mode == 'disjoint':
            rest = [i for i in range(SHORT_N) if i not in first]
            m = draw(st.integers(1, 2 ** len(rest) - 1)) if rest else 0
            return [i for j, i in enumerate(rest) if m >> j & 1]
        if mode == 'shift' and first:
            # a shifted copy of the first index: overlaps partially
            sh = draw(st.sampled_from([-2, -1, 1, 2]))
            return sorted(set(i + sh for i in first if 0 <= i + sh < SHORT_N))
        if mode == 'fp' and len(first) >= 3:
            # the "fingerprint" of the first index (length, first and last stamp) with a different interior
            slots = list(range(first[0] + 1, first[-1]))
            k = len(first) - 2
            if len(slots) > k:
                inner = sorted(draw(st.permutations(slots))[:k])
                if inner == list(first[1:-1]):
                    inner = sorted(inner[1:] + [[x for x in slots if x not in inner][0]])
                return [first[0]] + inner + [first[-1]]
    if mode == 'window':
        start = draw(st.integers(0, SHORT_N - 2))
        n = draw(st.integers(2, 7))
        return list(range(start, min(SHORT_N, start + n)))
    m = draw(st.integers(1, 2 ** SHORT_N - 1))
    return [i for i in range(SHORT_N) if m >> i & 1]


def _long_index(draw, first):
    """first: the `long` dict of the first long operand of the case, or None"""
    mode = draw(st.sampled_from(['other', 'other', 'same', 'fp', 'fp', 'shift'])) if first else 'other'
    if mode == 'fp' and not first['holes']:
        mode = 'same'
    if mode == 'same':
        return dict(start=first['start'], n=first['n'], holes=list(first['holes']))
    if mode == 'shift':
        return dict(start=first['start'] + draw(st.sampled_from([1, 2, 7])), n=first['n'], holes=list(first['holes']))
    if mode == 'fp':
        k = len(first['holes'])
        holes = sorted(draw(st.sets(st.integers(1, first['n'] - 2), min_size=k, max_size=k)))
        if holes == list(first['holes']):
            holes[0] = [h for h in range(1, first['n'] - 1) if h not in holes][0]
            holes = sorted(holes)
        return dict(start=first['start'], n=first['n'], holes=holes)
    n = draw(st.sampled_from(LONG_NS))
    return dict(start=draw(st.sampled_from([0, 0, 3, 10])), n=n,
                holes=sorted(draw(st.sets(st.integers(1, n - 2), min_size=draw(st.sampled_from([0, 1, 1])), max_size=4))))


def _first_ts(ops):
    for o in ops:
        if o['k'] != 'c':
            return o
    return None


def _first_long_op(ops):
    for o in ops:
        if 'long' in o:
            return o
    return None


def _index_attrs(draw, o, ctx, anchor):
    """resolution of the index (mixed within a case) and row order (a short operand may be given unsorted); an operand that shares the index OBJECT of
    `anchor` takes the anchor's"""
    if anchor is not None:
        for k in ('unit', 'ord'):
            if k in anchor:
                o[k] = anchor[k]
        return o
    if ctx.get('units') and draw(st.integers(0, 2)) > 0:
        o['unit'] = draw(st.sampled_from(UNITS[ctx.get('axis') or 'd']))
    if ctx.get('unsorted') and 'idx' in o and len(o['idx']) >= 2 and draw(st.booleans()):
        o['ord'] = draw(st.integers(1, 23))
    return o


def _ts(draw, kind, prev, ctx, cols=None, cellmode=None):
    """kind 's' or 'f'; prev: operands drawn so far; cellmode 'f' floats, 'i' ints, 'e' float exponents, 'ei' int exponents"""
    cm = cellmode or ('i' if ctx.get('bigint') else draw(st.sampled_from(['f', 'f', 'f', 'i'])))
    cell = {'f': _fcell_near if ctx.get('near') else _fcell_x if ctx['inexact'] else _fcell, 'i': _icell_big if ctx.get('bigint') else _icell, 'e': _exp_f, 'ei': _exp_i}[cm]
    dt = 'i' if cm in ('i', 'ei') else 'f'
    f = _first_ts(prev)
    # identity: this operand is built on the very index OBJECT of an earlier operand (group 1: the first timeseries, group 2: the first long one)
    share = bool(ctx.get('ident')) and f is not None and draw(st.integers(0, 2)) > 0
    if ctx['big'] and draw(st.integers(0, 2)) > 0:
        fl = _first_long_op(prev)
        anchor = None
        if share and fl is not None:
            anchor = fl
            L = dict(start=fl['long']['start'], n=fl['long']['n'], holes=list(fl['long']['holes']))
        else:
            L = _long_index(draw, None if fl is None else fl['long'])
        npat = draw(st.integers(1, 5))          # few distinct values, many ties
        if kind == 's':
            L['pat'] = [draw(cell) for _ in range(npat)]
            o = dict(k='s', dt=dt, long=L)
        else:
            L['pat'] = [[draw(cell) for _ in cols] for _ in range(npat)]
            o = dict(k='f', dt=dt, cols=list(cols), long=L)
        if anchor is not None:
            anchor['six'] = o['six'] = 2
        return _index_attrs(draw, o, ctx, anchor)
    anchor = None
    if share and 'long' not in f:
        anchor = f
        idx = list(f['idx'])
    else:
        first = None if f is None else [i for i in _expand(f)['idx'] if i < SHORT_N]
        idx = _index(draw, first)
    if kind == 's':
        o = dict(k='s', idx=idx, dt=dt, vals=[draw(cell) for _ in idx])
    else:
        o = dict(k='f', idx=idx, dt=dt, cols=list(cols), vals=[[draw(cell) for _ in cols] for _ in idx])
    if anchor is not None:
        anchor['six'] = o['six'] = 1
    return _index_attrs(draw, o, ctx, anchor)


def _ctx(draw, bigint_ok=False):
    """the switches of one case; every new switch is ON for the LARGEST drawn value, so that shrinking turns it off"""
    c = dict(pool=draw(st.sampled_from([COLPOOLS[0], COLPOOLS[0], COLPOOLS[1], COLPOOLS[0], COLPOOLS[1], COLPOOLS[2]])),
             big=draw(st.integers(0, 3)) == 0, inexact=draw(st.integers(0, 3)) == 0)
    c['axis'] = draw(st.sampled_from(['d', 'd', 'd', 'd', 'd', 'd', 'h12', 'us']))
    c['units'] = draw(st.integers(0, 6)) == 6           # index resolutions s / ms / us / ns mixed within the case
    c['ident'] = draw(st.integers(0, 4)) == 4           # shared index objects, the same object passed twice
    c['unsorted'] = draw(st.integers(0, 7)) == 7        # short operands given in another row order
    c['bigint'] = bigint_ok and draw(st.integers(0, 11)) == 11
    if c['bigint']:
        c['inexact'] = False
    # classes 21-29 of the brief
    c['tz'] = TZS[draw(st.integers(0, 2))] if draw(st.integers(0, 11)) == 11 else None      # every index of the case zone-aware, in one zone
    c['near'] = not c['bigint'] and draw(st.integers(0, 9)) == 9                               # cells / scalars within 1e-8 / 1e-5 relative of one another
    c['views'] = draw(st.integers(0, 7)) == 7                                                  # two Series cut out of ONE buffer with different strides
    return c


def _c(draw, ctx):
    """a scalar operand: a Python number or (one in four) the numpy scalar of the same value"""
    o = dict(k='c', v=draw(_scalar_big if ctx.get('bigint') else _scalar_near if ctx.get('near') else _scalar_x if ctx['inexact'] else _scalar))
    if draw(st.integers(0, 3)) == 3:
        o['raw'] = 'np'
    return o


def _inner(draw):
    return draw(st.sampled_from(['ij', 'inner']))


def _identity(draw, ops, ctx):
    """the same OBJECT passed twice: one timeseries operand takes a second place in the operand list (op(a, a), op([a, b, a]))"""
    ts = [i for i, o in enumerate(ops) if o['k'] != 'c']
    if not ctx.get('ident') or len(ops) < 2 or not ts or draw(st.integers(0, 2)) == 0:
        return ops
    if len(ops) >= 3 and ops[0]['k'] != 'c' and draw(st.integers(0, 2)) > 0:
        i, j = 0, len(ops) - 1                 # op([a, b, a]): the first and the last operand are one object, another one stands between them
    else:
        i = draw(st.sampled_from(ts))
        j = draw(st.sampled_from([p for p in range(len(ops)) if p != i]))
    ops[i]['obj'] = 1
    ops[j] = json.loads(json.dumps(ops[i]))
    return ops


def _views(draw, ops, ctx, series_slots_only=False):
    """same buffer, other strides: a short Series a of m rows and a second Series b of m rows are cut out of ONE numpy buffer of 2m cells, a = buf[:m], b = buf[::2][:m]:
    same address, dtype and shape, different strides (b[i] is a[2i] in the first half, cells of its own after that). b takes the place of another operand"""
    if not ctx.get('views') or len(ops) < 2:
        return ops
    cand = [i for i, o in enumerate(ops) if o['k'] == 's' and 'idx' in o and len(o['idx']) >= 2 and not o.get('ord') and not o.get('obj')]
    if not cand:
        return ops
    i = draw(st.sampled_from(cand))
    slots = [j for j, o in enumerate(ops) if j != i and not o.get('obj') and not o.get('six') and (o['k'] == 's' or not series_slots_only)]
    if not slots:
        return ops
    j = draw(st.sampled_from(slots))
    a = ops[i]
    m = len(a['idx'])
    cell = (_icell_big if ctx.get('bigint') else _icell) if a['dt'] == 'i' else (_fcell_near if ctx.get('near') else _fcell_x if ctx['inexact'] else _fcell)
    buf = list(a['vals']) + [draw(cell) for _ in range(m)]
    how = draw(st.sampled_from(['same', 'same', 'window', 'shift']))
    idx = list(a['idx'])
    if how == 'window':
        start = draw(st.integers(0, SHORT_N - m))
        idx = list(range(start, start + m))
    elif how == 'shift':
        sh = [d for d in (-1, 1, 2) if 0 <= a['idx'][0] + d and a['idx'][-1] + d < SHORT_N]
        if sh:
            d = draw(st.sampled_from(sh))
            idx = [t + d for t in a['idx']]
    b = dict(k='s', idx=idx, dt=a['dt'], vals=buf[::2][:m], buf=buf, step=2)
    if 'unit' in a:
        b['unit'] = a['unit']
    a['buf'], a['step'] = buf, 1
    ops[j] = b
    return ops


def _omit(draw, join, columns):
    """a policy left out of the call is the documented default 'ij' (add_(a, b, join='ij', method=None, columns='ij')): -> join, columns, names left out"""
    k = draw(st.integers(0, 24))
    if k == 24:
        return 'ij', 'ij', ['join', 'columns']
    if k == 23:
        return 'ij', columns, ['join']
    if k == 22:
        return join, 'ij', ['columns']
    return join, columns, []


def _style_for(draw, omit):
    """the everything-positional spelling needs every policy"""
    s = _style(draw)
    return 'kw' if omit and s == 'pos' else s


def _style(draw):
    """how the call is written: operands positional + policies by keyword; everything positional (a, b, join, None, columns); everything by keyword"""
    return draw(st.sampled_from(['kw', 'kw', 'kw', 'kw', 'kw', 'kw', 'pos', 'named']))


def _cols(draw, ctx):
    """2-3 column names in drawn order"""
    n = draw(st.integers(2, 3))
    return list(draw(st.permutations(ctx['pool'])))[:n]


def _operands(draw, n, ctx, allow_scalar=True, allow_frame=True, cols_fixed=None, pre=(), profile='mixed'):
    """n operands; cols_fixed: the column set of every frame (order free)"""
    ops = []
    for _ in range(n):
        if profile == 'frames':
            kinds = ['f', 'f', 'f', 'f', 's', 'c']
        else:
            kinds = ['s', 's'] + (['f', 'f'] if allow_frame else []) + (['c'] if allow_scalar else [])
        k = draw(st.sampled_from(kinds))
        prev = list(pre) + ops
        if k == 'c':
            ops.append(_c(draw, ctx))
        elif k == 's':
            ops.append(_ts(draw, 's', prev, ctx))
        else:
            if cols_fixed is not None:
                cols = list(draw(st.permutations(cols_fixed)))
            else:
                cols = _cols(draw, ctx)
                pf = [o for o in prev if o['k'] == 'f']
                how = draw(st.integers(0, 7))
                if pf and how == 0:
                    rest = [c for c in ctx['pool'] if c not in pf[0]['cols']]
                    if len(rest) >= 2:
                        cols = rest                                            # shares no column with the first frame
                elif pf and how == 1:
                    cols = list(draw(st.permutations(pf[0]['cols'])))          # same column set, drawn order
            ops.append(_ts(draw, 'f', prev, ctx, cols))
    return ops


def _ensure_ts(draw, ops, ctx, allow_frame=True, cols=None):
    if all(o['k'] == 'c' for o in ops):
        i = draw(st.integers(0, len(ops) - 1))
        if allow_frame and draw(st.booleans()):
            ops[i] = _ts(draw, 'f', [], ctx, cols or _cols(draw, ctx))
        else:
            ops[i] = _ts(draw, 's', [], ctx)
    return ops


def _small_ts(draw, ctx, k):
    """a short Series / frame with exactly k rows (a window of the axis)"""
    start = draw(st.integers(0, SHORT_N - k))
    idx = list(range(start, start + k))
    cell = _fcell_near if ctx.get('near') else _fcell_x if ctx['inexact'] else _fcell
    if draw(st.booleans()):
        return dict(k='s', idx=idx, dt='f', vals=[draw(cell) for _ in idx])
    cols = _cols(draw, ctx)
    return dict(k='f', idx=idx, dt='f', cols=cols, vals=[[draw(cell) for _ in cols] for _ in idx])


def _empty_side(draw, spec, ops):
    """op([a, b, ..], []) / op([], [a, b, ..]): a companion list without operands"""
    if draw(st.booleans()):
        spec.update(form='list', lhs=ops, rhs=[], lhs_list=True, rhs_list=True, special='empty_rhs')
    else:
        spec.update(form='list', lhs=[], rhs=ops, lhs_list=True, rhs_list=True, special='empty_lhs')
    return spec


@st.composite
def _arith_case(draw):
    ctx = _ctx(draw, bigint_ok=True)
    op = draw(st.sampled_from(['add_', 'sub_'] if ctx['bigint'] else ['add_', 'sub_', 'mul_', 'div_']))
    join = _inner(draw) if ctx['bigint'] else draw(_policy)
    columns = _inner(draw) if ctx['bigint'] else draw(_policy)
    join, columns, omit = _omit(draw, join, columns)
    if op == 'div_' and draw(st.integers(0, 7)) == 7:
        ctx['near'] = True                       # divisors of 1e-9: not zero, so the quotient is 1e9 times the numerator and not NaN
    form = draw(st.sampled_from(['bin', 'bin', 'list', 'list', 'split']))
    if form == 'list' and op in ('sub_', 'div_'):
        form = 'split'
    profile = draw(st.sampled_from(['mixed', 'mixed', 'frames']))
    base = dict(op=op, join=join, columns=columns, axis=ctx['axis'], style=_style_for(draw, omit), tz=ctx['tz'], omit=omit)
    special = 0 if ctx['bigint'] else draw(st.integers(0, 24))
    if special >= 24:
        # a LIST OF SCALARS exactly as long as the timeseries next to it (1-3 rows): still a list of operands, not a vector
        k = draw(st.integers(1, 3))
        t = _small_ts(draw, ctx, k)
        return dict(base, form='split', lhs=[t], rhs=[_c(draw, ctx) for _ in range(k)], lhs_list=draw(st.booleans()), rhs_list=True, special='scalar_list')
    if form == 'bin':
        ops = _views(draw, _identity(draw, _ensure_ts(draw, _operands(draw, 2, ctx, profile=profile), ctx), ctx), ctx)
        if op == 'div_' and ops[0]['k'] != 'c' and draw(st.integers(0, 5)) == 0:
            ops[1] = dict(k='c', v=draw(st.sampled_from([0, 0.0])))          # the scalar zero divisor
            if draw(st.integers(0, 3)) == 3:
                ops[1]['raw'] = 'np'
        return dict(base, form=form, lhs=[ops[0]], rhs=[ops[1]], lhs_list=False, rhs_list=False)
    n = draw(st.integers(2, 4))
    # the column sets of the frames of one reduced list are free: lists whose intermediate result has fewer than two columns
    # under columns='ij' are generated and taken out by KNOWN['narrow_intermediate'] (counted as excluded_known)
    ops = _views(draw, _identity(draw, _ensure_ts(draw, _operands(draw, n, ctx, profile=profile), ctx), ctx), ctx)
    if special >= 21 and op in ('add_', 'mul_'):
        return _empty_side(draw, dict(base), ops)
    if form == 'list':
        return dict(base, form=form, lhs=ops, rhs=None, lhs_list=True, rhs_list=False)
    nl = draw(st.integers(1, n - 1))
    lhs, rhs = ops[:nl], ops[nl:]
    lhs_list = True if len(lhs) > 1 else draw(st.booleans())
    rhs_list = True if len(rhs) > 1 else draw(st.booleans())
    return dict(base, form=form, lhs=lhs, rhs=rhs, lhs_list=lhs_list, rhs_list=rhs_list)


@st.composite
def _cmp_case(draw):
    ctx = _ctx(draw, bigint_ok=True)
    op = draw(st.sampled_from(['gt_', 'ge_', 'lt_', 'le_'] if ctx['bigint'] else ['pow_', 'pow_', 'gt_', 'ge_', 'lt_', 'le_']))
    join = _inner(draw) if ctx['bigint'] else draw(_policy)
    columns = draw(_policy)
    join, columns, omit = _omit(draw, join, columns)
    base = dict(op=op, join=join, columns=columns, axis=ctx['axis'], style=_style_for(draw, omit), tz=ctx['tz'], omit=omit)
    if op != 'pow_' and not ctx['bigint'] and draw(st.integers(0, 7)) == 7:
        ctx['near'] = True                       # 1.0 against 1.000000001: different numbers, one of them is the greater
    if op != 'pow_':
        ops = _views(draw, _identity(draw, _ensure_ts(draw, _operands(draw, 2, ctx, profile=draw(st.sampled_from(['mixed', 'mixed', 'frames']))), ctx), ctx), ctx)
        return dict(base, a=ops[0], b=ops[1])
    a = _operands(draw, 1, ctx)[0]
    kb = draw(st.sampled_from(['c', 's', 's', 'f']))
    cm = draw(st.sampled_from(['e', 'ei']))
    if kb == 'c':
        b = dict(k='c', v=draw(_exp_f if cm == 'e' else _exp_i))
        if draw(st.integers(0, 3)) == 3:
            b['raw'] = 'np'
    elif kb == 's':
        b = _ts(draw, 's', [a], ctx, cellmode=cm)
    else:
        b = _ts(draw, 'f', [a], ctx, _cols(draw, ctx), cellmode=cm)
    if a['k'] == 'c' and b['k'] == 'c':
        a = _ts(draw, 's', [], ctx)
    return dict(base, a=a, b=b)


@st.composite
def _minmax_case(draw):
    ctx = _ctx(draw, bigint_ok=True)
    op = draw(st.sampled_from(['min_', 'max_']))
    join = _inner(draw) if ctx['bigint'] else draw(_policy)
    columns = draw(_policy)
    join, columns, omit = _omit(draw, join, columns)
    form = draw(st.sampled_from(['bin', 'list', 'split']))
    n = 2 if form == 'bin' else draw(st.integers(2, 4))
    cols = _cols(draw, ctx)
    ops = _views(draw, _identity(draw, _ensure_ts(draw, _operands(draw, n, ctx, cols_fixed=cols), ctx, cols=cols), ctx), ctx)
    base = dict(op=op, join=join, columns=columns, axis=ctx['axis'], style=_style_for(draw, omit), tz=ctx['tz'], omit=omit)
    if form == 'bin':
        return dict(base, form=form, lhs=[ops[0]], rhs=[ops[1]], lhs_list=False, rhs_list=False)
    if not ctx['bigint'] and draw(st.integers(0, 24)) >= 23:
        return _empty_side(draw, dict(base), ops)
    if form == 'list':
        return dict(base, form=form, lhs=ops, rhs=None, lhs_list=True, rhs_list=False)
    nl = draw(st.integers(1, n - 1))
    lhs, rhs = ops[:nl], ops[nl:]
    return dict(base, form=form, lhs=lhs, rhs=rhs,
                lhs_list=True if len(lhs) > 1 else draw(st.booleans()), rhs_list=True if len(rhs) > 1 else draw(st.booleans()))


_RAW_FORMS = [('int', None), ('float', None), ('int', 'np'), ('float', 'np')]      # python int / python float / np.int64 / np.float64


def _raw_form(o):
    return ('int' if isinstance(o['v'], int) and not isinstance(o['v'], bool) else 'float', o.get('raw'))


def _retype(draw, c):
    """the SAME number as the scalar operand c, written in another raw type: python int / python float / np.int64 / np.float64 (the integer forms only for
    whole numbers that are exact in both, NaN only as a float)"""
    v = c['v']
    whole = v != 'nan' and float(v) == int(v) and abs(v) <= BIG
    forms = [f for f in _RAW_FORMS if f != _raw_form(c) and (whole or f[0] == 'float')]
    kind, raw = draw(st.sampled_from(forms))
    o = dict(k='c', v=v if v == 'nan' else int(v) if kind == 'int' else float(v))
    if raw:
        o['raw'] = raw
    return o


def _agg_scalars(draw, ops, ctx):
    """scalars among the OPERANDS of an aggregate (one case in five): 1-2 plain python ints / floats or numpy scalars (incl. NaN - an operand without data anywhere -
    and 0) next to the timeseries, at a drawn place (first, between, last); the second one is, half of the time, the first one's number in another raw type.
    The operand list keeps at most 4 entries (a list of 4 timeseries gives up one between the first and the last) and so at least two timeseries; where the first and the last operand are one object the scalar goes between them"""
    k = draw(st.integers(0, 9))
    for j in range(max(0, k - 7)):
        have = [o for o in ops if o['k'] == 'c']
        c = _retype(draw, have[0]) if have and draw(st.booleans()) else _c(draw, ctx)
        if not have and draw(st.integers(0, 5)) == 5:
            c['v'] = 'nan'                            # a scalar without data: skipped at every stamp
        n = len(ops)
        ends_one_object = n >= 3 and bool(ops[0].get('obj')) and json.dumps(ops[0], sort_keys=True) == json.dumps(ops[-1], sort_keys=True)
        if n < 4:
            where = draw(st.sampled_from(['first', 'first', 'last', 'between']))
            pos = draw(st.integers(1, n - 1)) if (where == 'between' or ends_one_object) else 0 if where == 'first' else n
            ops.insert(pos, c)
        else:
            ts = [i for i in range(1, n - 1) if ops[i]['k'] != 'c']       # a full list: the scalar takes the place of a timeseries between the first and the last
            if ts:
                ops[draw(st.sampled_from(ts))] = c
    return ops


@st.composite
def _agg_case(draw):
    op = draw(st.sampled_from(['df_sum', 'df_mean', 'df_count']))
    frames = draw(st.booleans())
    ctx = _ctx(draw)
    n = draw(st.integers(2, 4))
    ops = []
    for _ in range(n):
        if frames:
            pf = [o for o in ops if o['k'] == 'f']
            cols = list(draw(st.permutations(pf[0]['cols']))) if pf and draw(st.integers(0, 5)) == 0 else _cols(draw, ctx)
            ops.append(_ts(draw, 'f', ops, ctx, cols))
        else:
            ops.append(_ts(draw, 's', ops, ctx))
    ops = _views(draw, _identity(draw, ops, ctx), ctx, series_slots_only=True)
    ops = _agg_scalars(draw, ops, ctx)
    n = len(ops)
    form = draw(st.sampled_from(['list', 'list', 'split']))
    # 'kw': no policy is passed (as documented); 'explicit': the default policies are spelled out (join / columns = oj or outer); 'pos'; 'named'
    base = dict(op=op, axis=ctx['axis'], tz=ctx['tz'], style=draw(st.sampled_from(['kw', 'kw', 'kw', 'kw', 'explicit', 'explicit', 'pos', 'named'])),
                join=draw(st.sampled_from(['oj', 'outer'])), columns=draw(st.sampled_from(['oj', 'outer'])))
    # a scalar standing first / last is, two times out of three, handed over as a bare argument: df_sum(ts, 5.0), df_count(5, [a, b])
    bare = None
    if (ops[0]['k'] == 'c' or ops[-1]['k'] == 'c') and draw(st.integers(0, 2)) > 0:
        bare = 'lhs' if ops[0]['k'] == 'c' and (ops[-1]['k'] != 'c' or draw(st.booleans())) else 'rhs'
    if draw(st.integers(0, 24)) >= 23:
        return _empty_side(draw, dict(base), ops)
    if bare is not None:
        nl = 1 if bare == 'lhs' else n - 1
        lhs, rhs = ops[:nl], ops[nl:]
        return dict(base, form='split', lhs=lhs, rhs=rhs, lhs_list=False if bare == 'lhs' else (True if len(lhs) > 1 else draw(st.booleans())),
                    rhs_list=False if bare == 'rhs' else (True if len(rhs) > 1 else draw(st.booleans())))
    if form == 'list':
        return dict(base, form=form, lhs=ops, rhs=None, lhs_list=True, rhs_list=False)
    nl = draw(st.integers(1, n - 1))
    lhs, rhs = ops[:nl], ops[nl:]
    return dict(base, form=form, lhs=lhs, rhs=rhs,
                lhs_list=True if len(lhs) > 1 else draw(st.booleans()), rhs_list=True if len(rhs) > 1 else draw(st.booleans()))


# ----------------------------------------------------------------------------- builder

def _cellv(v):
    return NAN if v == 'nan' else v


_SESSION = [None]      # while a session case runs: operand spec (json) -> the ONE object built for it, shared by all calls of the session
_IDX = {}              # (group, stamps, resolution, row order) -> the ONE index object of the operands of that group (per case / per session)
_OBJ = {}              # operand spec (json) -> the ONE object of an operand that takes several places of the operand list (per case)
_BUF = {}              # (cells (json), dtype) -> the ONE numpy buffer that the operands carrying these cells as 'buf' are views of (per case)


def _begin(spec):
    """start of a case (a session is ONE case)"""
    if _SESSION[0] is None:
        _AX[0] = spec.get('axis') or 'd'
        _TZ[0] = spec.get('tz')
        _IDX.clear()
        _OBJ.clear()
        _BUF.clear()
        _quiet()


_QUIET = []


def _quiet():
    # is_ts logs a warning for every unsorted operand it looks at
    if not _QUIET:
        import logging
        import pyg_base                                  # noqa: F401  (creates the logger)
        logging.getLogger('pyg').setLevel(logging.ERROR)
        _QUIET.append(1)


def _build(o):
    if o['k'] == 'c':
        return _build_fresh(o)
    if _SESSION[0] is not None:
        cache = _SESSION[0]
    elif 'obj' in o:
        cache = _OBJ
    else:
        return _build_fresh(o)
    key = json.dumps(o, sort_keys=True)
    if key not in cache:
        cache[key] = _build_fresh(o)
    return cache[key]


def _row_order(n, ord_):
    """the order in which the rows of a short operand are handed over: rotated by ord // 2, reversed when ord is odd"""
    r = list(range(n))
    if not ord_ or n < 2:
        return r
    k = (ord_ // 2) % n
    r = r[k:] + r[:k]
    return r[::-1] if ord_ % 2 else r


def _is_unsorted(o):
    n = len(o['idx'])
    return _row_order(n, o.get('ord')) != list(range(n))


def _idx_key(o):
    return (o.get('six'), tuple(o['idx']), o.get('unit'), o.get('ord') if _is_unsorted(o) else None)


def _build_index(o, order):
    import pandas as pd

    def fresh():
        idx = pd.DatetimeIndex([AXES[_AX[0]][o['idx'][r]] for r in order])
        if _TZ[0]:
            idx = idx.tz_localize(_TZ[0])          # the wall-clock stamps of the axis, in the zone of the case
        return idx.as_unit(o['unit']) if o.get('unit') else idx
    if not o.get('six'):
        return fresh()
    key = _idx_key(o)
    if key not in _IDX:
        _IDX[key] = fresh()
    return _IDX[key]


def _build_fresh(o):
    import numpy as np
    import pandas as pd
    if o['k'] == 'c':
        v = _cellv(o['v'])
        if o.get('raw') == 'np':
            return np.float64(v) if isinstance(v, float) else np.int64(v)
        return v
    order = _row_order(len(o['idx']), o.get('ord'))
    idx = _build_index(o, order)
    dtype = 'int64' if o['dt'] == 'i' else 'float64'
    if o['k'] == 's' and o.get('buf') is not None and not _is_unsorted(o):
        key = (json.dumps(o['buf']), dtype)
        if key not in _BUF:
            _BUF[key] = np.array([_cellv(v) for v in o['buf']], dtype=dtype)
        view = _BUF[key][::o['step']][:len(o['idx'])]
        res = pd.Series(view, index=idx, copy=False)
        if not np.shares_memory(res.values, _BUF[key]) or [_canon(x)[1] for x in view] != [_canon(_cellv(v))[1] for v in o['vals']]:
            raise RuntimeError('harness: the operand is not the view of the buffer it is meant to be: %s' % (o,))
        return res
    if o['k'] == 's':
        return pd.Series([_cellv(o['vals'][r]) for r in order], index=idx, dtype=dtype)
    return pd.DataFrame({c: [_cellv(o['vals'][r][j]) for r in order] for j, c in enumerate(o['cols'])}, index=idx, columns=list(o['cols']), dtype=dtype)


def _model(o):
    if o['k'] == 'c':
        return ('c', _cellv(o['v']))
    if o['k'] == 's':
        return ('s', {t: _cellv(v) for t, v in zip(o['idx'], o['vals'])})
    return ('f', list(o['cols']), {t: {c: _cellv(v) for c, v in zip(o['cols'], row)} for t, row in zip(o['idx'], o['vals'])})


def _side(ops):
    """the caller's list of operands; within a session a list with the same content is the same list OBJECT in every call"""
    lst = [_build(o) for o in ops]
    if _SESSION[0] is None:
        return lst
    key = 'L' + json.dumps(ops, sort_keys=True)
    if key in _SESSION[0]:
        _SESSION[0]['#lists_passed_again'] = _SESSION[0].get('#lists_passed_again', 0) + 1
        return _SESSION[0][key]
    _SESSION[0][key] = lst
    return lst


def _args(spec):
    """-> (positional operands of the call, the timeseries / scalar objects, the list containers handed over)"""
    lhs = _side(spec['lhs'])
    rhs = None if spec['rhs'] is None else _side(spec['rhs'])
    conts = []
    if spec['lhs_list']:
        a = lhs
        conts.append(lhs)
    else:
        a = lhs[0]
    if rhs is None:
        return (a,), list(lhs), conts
    if spec['rhs_list']:
        b = rhs
        conts.append(rhs)
    else:
        b = rhs[0]
    return (a, b), list(lhs) + list(rhs), conts


def _kw(spec):
    """the policies that are written out in the call; one that is left out is the documented default 'ij' (and spec[...] says 'ij' for it)"""
    omit = spec.get('omit') or ()
    for k in omit:
        if spec[k] != 'ij':
            raise RuntimeError('harness: %s is left out of the call but the case expects %s' % (k, spec[k]))
    return {k: spec[k] for k in ('join', 'columns') if k not in omit}


def _invoke(what, f, args, kw, style):
    """the three ways of writing the same call"""
    if style == 'pos' and len(kw) == 2:
        return call(what, f, args[0], args[1] if len(args) > 1 else None, kw['join'], None, kw['columns'])
    if style == 'named':
        named = dict(a=args[0])
        if len(args) > 1:
            named['b'] = args[1]
        named.update(kw)
        return call(what, f, **named)
    return call(what, f, *args, **kw)


def _snapshot(built, conts=()):
    return [_canon(x) for x in built], [list(c) for c in conts]


def _check_unchanged(what, built, before, conts=()):
    """re-evaluating the same expression must see the same operands: the call may not write into the caller's objects - nor into the caller's lists"""
    for i, (x, b) in enumerate(zip(built, before[0])):
        check(_canon(x) == b, '%s changed its operand number %s in place: it was %s and is now %s', what, i, b, _canon(x))
    for c, b in zip(conts, before[1]):
        check(len(c) == len(b) and all(x is y for x, y in zip(c, b)), "%s wrote into the caller's list of operands: it had %s elements and now has %s", what, len(b), len(c))


# ----------------------------------------------------------------------------- reference model

def _isnan(x):
    return isinstance(x, float) and x != x


def _val(o, t, c, neutral):
    if o[0] == 'c':
        return o[1]
    if o[0] == 's':
        return o[1].get(t, NAN)
    if c not in o[1]:
        return neutral
    row = o[2].get(t)
    return NAN if row is None else row[c]


class _Flags(object):
    def __init__(self):
        self.narrow_intermediate = False


def m_bin(x, y, fn, join, columns, neutral, flags=None):
    """one binary step of the statement"""
    if flags is not None and any(o[0] == 'f' and len(o[1]) < 2 for o in (x, y)):
        flags.narrow_intermediate = True     # operands always have >= 2 columns, so this is an intermediate result
    if x[0] == 'c' and y[0] == 'c':
        return ('c', fn(x[1], y[1]))
    idxs = [set(o[-1]) for o in (x, y) if o[0] != 'c']
    index = idxs[0]
    for s in idxs[1:]:
        index = (index & s) if join[0] == 'i' else (index | s)
    frames = [o for o in (x, y) if o[0] == 'f']

    def cell(t, c):
        p, q = _val(x, t, c, neutral), _val(y, t, c, neutral)
        if p is ANY or q is ANY:
            return ANY
        return fn(p, q)
    if not frames:
        return ('s', {t: cell(t, None) for t in sorted(index)})
    cols = set(frames[0][1])
    for f in frames[1:]:
        cols = (cols & set(f[1])) if columns[0] == 'i' else (cols | set(f[1]))
    cols = sorted(cols)
    return ('f', cols, {t: {c: cell(t, c) for c in cols} for t in sorted(index)})


def m_fold(ms, fn, join, columns, neutral, flags=None):
    res = ms[0]
    for m in ms[1:]:
        res = m_bin(res, m, fn, join, columns, neutral, flags)
    return res


def f_add(a, b):
    return a + b


def f_sub(a, b):
    return a - b


def f_mul(a, b):
    return a * b


def f_div(a, b):
    # "division by zero yields NaN"; a NaN divisor gives NaN by IEEE
    if b == 0:
        return NAN
    return a / b


def f_pow(a, b):
    try:
        return math.pow(a, b)      # C pow: pow(x, 0) = 1 and pow(1, y) = 1 even for NaN
    except ValueError:             # negative base, fractional exponent
        return NAN


def _within_tolerance(a, b):
    return not _isnan(a) and not _isnan(b) and a != b and abs(a - b) <= 1e-8 + 1e-5 * abs(b)


def f_min(a, b):
    if _isnan(a) or _isnan(b):
        return NAN
    return a if a <= b else b


def f_max(a, b):
    if _isnan(a) or _isnan(b):
        return NAN
    return a if a >= b else b


FN = dict(add_=(f_add, 0.0), sub_=(f_sub, 0.0), mul_=(f_mul, 1.0), div_=(f_div, 1.0), pow_=(f_pow, ANY),
          gt_=(lambda a, b: a > b, ANY), ge_=(lambda a, b: a >= b, ANY), lt_=(lambda a, b: a < b, ANY), le_=(lambda a, b: a <= b, ANY),
          min_=(f_min, ANY), max_=(f_max, ANY))


# ----------------------------------------------------------------------------- comparison of a result with the model

def _cells_equal(got, exp, tol):
    if exp is ANY:
        return True
    if isinstance(exp, int) and not isinstance(exp, bool) and not isinstance(got, bool) and isinstance(got, (int, _np().integer)):
        return int(got) == exp        # integers are compared as integers (2**53 + 1 is not a float)
    try:
        g = float(got)
    except (TypeError, ValueError):
        return False
    e = float(exp)
    if e != e:
        return g != g
    if g != g:
        return False
    if tol:
        return math.isclose(g, e, rel_tol=tol, abs_tol=tol)
    return g == e


_NP = []


def _np():
    if not _NP:
        import numpy
        _NP.append(numpy)
    return _NP[0]


_UTC = {}


def _utc_positions(axis, tz):
    """the instant (as naive UTC) of every stamp of the axis read as wall-clock time in tz -> position; computed with zoneinfo, not with pandas"""
    if (axis, tz) not in _UTC:
        z = zoneinfo.ZoneInfo(tz)
        d = {t.replace(tzinfo=z).astimezone(datetime.timezone.utc).replace(tzinfo=None): i for i, t in enumerate(AXES[axis])}
        if len(d) != len(AXES[axis]):
            raise RuntimeError('harness: two stamps of the axis are one instant in %s' % tz)
        _UTC[(axis, tz)] = d
    return _UTC[(axis, tz)]


def _positions(index, what):
    pos = POSS[_AX[0]]
    tz = _TZ[0]
    if tz and len(index):
        # the operands are zone-aware: so is the result, and it carries the same INSTANTS (an index rebuilt from .values is naive and shifted by the offset)
        check(getattr(index, 'tz', None) is not None, '%s: every operand is zone-aware (%s), the result index is not: %s', what, tz, short(list(index), 200))
        pos = _utc_positions(_AX[0], tz)
    out = []
    for t in list(index):
        try:
            key = t.to_pydatetime() if hasattr(t, 'to_pydatetime') else t
            if tz:
                key = key.astimezone(datetime.timezone.utc).replace(tzinfo=None)
            p = pos.get(key)
        except Exception:
            p = None
        check(p is not None, '%s: result index holds %s, which is not a timestamp of any operand', what, t)
        out.append(p)
    check(len(set(out)) == len(out), '%s: result index has duplicates: %s', what, out)
    return out


def _days(ps):
    return [_lab(p) for p in sorted(ps)]


def compare(res, exp, what, tol=None, no_inf=False, nan_scalar_ok=False):
    import numpy as np
    import pandas as pd
    if nan_scalar_ok:
        # scalar zero divisor: _div_ returns the scalar nan per column, i.e. nan for Series and a per-column Series of nan for frames
        if isinstance(res, (float, np.floating)) and res != res:
            return
        if isinstance(res, pd.Series) and exp[0] == 'f' and set(res.index) == set(exp[1]) and all(isinstance(v, (float, np.floating)) and v != v for v in res.values):
            return
    if exp[0] == 'c':
        check(isinstance(res, (int, float, bool, np.number, np.bool_)), '%s: expected a scalar, got %s', what, res)
        check(_cells_equal(res, exp[1], tol), '%s: expected %s, got %s', what, exp[1], res)
        return
    if exp[0] == 's':
        check(isinstance(res, pd.Series), '%s: expected a Series on %s, got %s', what, _days(exp[1]), res)
        ps = _positions(res.index, what)
        check(set(ps) == set(exp[1]), '%s: result index is %s, the join policy prescribes %s', what, _days(ps), _days(exp[1]))
        vals = res.values
        for i, p in enumerate(ps):
            g, e = vals[i], exp[1][p]
            if no_inf:
                check(not (isinstance(g, (float, np.floating)) and abs(g) == math.inf), '%s: result holds %s at %s', what, g, _lab(p))
            check(_cells_equal(g, e, tol), '%s: at %s expected %s, got %s', what, _lab(p), e, g)
        return
    cols, rows = exp[1], exp[2]
    if not cols:
        check(isinstance(res, (pd.Series, pd.DataFrame)) and res.size == 0, '%s: operands share no column, expected a result without cells, got %s', what, res)
        return
    check(isinstance(res, pd.DataFrame), '%s: expected a DataFrame with columns %s, got %s', what, cols, res)
    rc = list(res.columns)
    check(len(set(rc)) == len(rc) and set(rc) == set(cols), '%s: result columns are %s, the column policy prescribes %s', what, rc, cols)
    ps = _positions(res.index, what)
    check(set(ps) == set(rows), '%s: result index is %s, the join policy prescribes %s', what, _days(ps), _days(rows))
    for c in cols:
        vals = res[c].values
        for i, p in enumerate(ps):
            g, e = vals[i], rows[p][c]
            if no_inf:
                check(not (isinstance(g, (float, np.floating)) and abs(g) == math.inf), '%s: result holds %s at %s, column %s', what, g, _lab(p), c)
            check(_cells_equal(g, e, tol), '%s: at %s, column %s: expected %s, got %s', what, _lab(p), c, e, g)


def _canon(res, by_time=False):
    """result -> comparable plain structure (columns sorted), NaN as the token 'nan'; by_time: rows in the order of their timestamps (the order
    of the rows of a result is not fixed by the statement: an inner join of unsorted operands follows the left operand)"""
    import pandas as pd

    def tok(v):
        if isinstance(v, (int, _np().integer)) and not isinstance(v, bool):
            return int(v)
        v = float(v)
        return 'nan' if v != v else v
    if isinstance(res, (pd.DataFrame, pd.Series)):
        stamps = [str(t) for t in res.index]
        order = sorted(range(len(stamps)), key=lambda i: (stamps[i], i)) if by_time else list(range(len(stamps)))
        stamps = [stamps[i] for i in order]
        if isinstance(res, pd.DataFrame):
            cols = []
            for j, c in enumerate(res.columns):
                vals = res.iloc[:, j].values
                cols.append((str(c), [tok(vals[i]) for i in order]))
            return ('f', sorted(cols), stamps)
        vals = res.values
        return ('s', [tok(vals[i]) for i in order], stamps)
    return ('c', tok(res))


# ----------------------------------------------------------------------------- describing a case

def _desc_operand(o):
    if o['k'] == 'c':
        return ('np.%s(%r)' % ('float64' if isinstance(_cellv(o['v']), float) else 'int64', _cellv(o['v']))) if o.get('raw') == 'np' else repr(_cellv(o['v']))
    if len(o['idx']) > 14:
        days = '%s..%s (%i stamps)' % (_lab(o['idx'][0]), _lab(o['idx'][-1]), len(o['idx']))
        vals = '%s...' % (o['vals'][:6],)
    else:
        days = ','.join(AXES[_AX[0]][i].strftime('%d') if _AX[0] == 'd' else _lab(i) for i in o['idx'])
        vals = '%s' % (o['vals'],)
    tags = ''.join([' unit=%s' % o['unit'] if o.get('unit') else '', ' rows handed over in the order %s' % _row_order(len(o['idx']), o.get('ord')) if _is_unsorted(o) else '',
                    ' index-object#%s' % o['six'] if o.get('six') else '', ' the-same-object#%s' % o['obj'] if o.get('obj') else '',
                    ' view buf[::%s][:%s] of one %s-cell buffer' % (o['step'], len(o['idx']), len(o['buf'])) if o.get('buf') is not None and not _is_unsorted(o) else ''])
    if o['k'] == 's':
        return 'Series(%s @%s%s)' % (vals, days, tags)
    return 'Frame(%s %s @%s%s)' % (o['cols'], vals, days, tags)


def _desc(spec, kw):
    def side(ops, as_list):
        s = ', '.join(_desc_operand(o) for o in ops)
        return '[%s]' % s if as_list else s
    a = side(spec['lhs'], spec['lhs_list'])
    if spec['rhs'] is not None:
        a += ', ' + side(spec['rhs'], spec['rhs_list'])
    k = ', '.join('%s=%r' % kv for kv in sorted(kw.items()))
    if _TZ[0]:
        k += ' [every index localized to %s]' % _TZ[0]
    if _SESSION[0] is not None and _SESSION[0].get('#edits'):
        k += ' [earlier in this session the caller wrote, in place, %s]' % '; '.join(_SESSION[0]['#edits'])
    style = {'pos': ' [written positionally: a, b, join, None, columns]', 'named': ' [operands by keyword a=, b=]'}.get(spec.get('style'), '')
    return short('%s(%s%s)%s' % (spec['op'], a, ', ' + k if k else '', style), 700)


def _classes(all_ops, extra, policies=()):
    """class labels + the non-trivial rule: partially overlapping indices with a NaN or 0 in the overlap, or differing column sets"""
    ts = [o for o in all_ops if o['k'] != 'c']
    cls = list(extra)
    cls.append('n=%i' % len(all_ops))
    partial_nz = False
    partial = disjoint = identical = fingerprint = False
    zero_at = []
    for o in ts:
        z = set()
        for p, t in enumerate(o['idx']):
            row = o['vals'][p] if o['k'] == 'f' else [o['vals'][p]]
            if any(v == 'nan' or v == 0 for v in row):
                z.add(t)
        zero_at.append(z)
    for i in range(len(ts)):
        for j in range(i + 1, len(ts)):
            ia, ib = ts[i]['idx'], ts[j]['idx']
            a, b = set(ia), set(ib)
            ab = a & b
            if a and b and not ab:
                disjoint = True
            if a and a == b:
                identical = True
            if len(ia) >= 3 and len(ia) == len(ib) and ia[0] == ib[0] and ia[-1] == ib[-1] and a != b:
                fingerprint = True
            if ab and a != b:
                partial = True
                if any(z & ab for z in zero_at):
                    partial_nz = True
    frames = [o for o in ts if o['k'] == 'f']
    colsets = set(frozenset(o['cols']) for o in frames)
    diffcols = len(colsets) > 1
    if partial:
        cls.append('partial_overlap')
    if partial_nz:
        cls.append('nan_or_0_in_overlap')
    if disjoint:
        cls.append('disjoint_indices')
    if identical:
        cls.append('identical_indices')
    if fingerprint:
        cls.append('fingerprint_indices')       # same length, first and last stamp, different interior
    if any(not o['idx'] for o in ts):
        cls.append('empty_operand')
    if len(all_ops) >= 3 and any(o['k'] != 'c' and not o['idx'] for o in all_ops[1:-1]):
        cls.append('empty_in_the_middle')
    if diffcols:
        cls.append('differing_columns')
    if any(set(x['cols']) == set(y['cols']) and list(x['cols']) != list(y['cols']) for i, x in enumerate(frames) for y in frames[i + 1:]):
        cls.append('same_columns_other_order')
    names = sorted(set(c for o in frames for c in o['cols']))
    if any(isinstance(x, str) and x != y and y.startswith(x) for x in names for y in names):
        cls.append('prefix_column_names')
    if names and all(isinstance(x, int) for x in names):
        cls.append('numeric_column_names')
    if any(o['k'] == 'c' for o in all_ops):
        cls.append('scalar')
    if any(o['k'] == 'c' and o['v'] == 0 for o in all_ops):
        cls.append('falsy_scalar')
    if frames and any(o['k'] == 's' for o in ts):
        cls.append('series_with_frame')
    if any(o['dt'] == 'i' for o in ts):
        cls.append('int_dtype')
    lens = [len(o['idx']) for o in ts]
    if any(n >= 64 for n in lens):
        cls.append('long')
        if any(0 < n and 8 * n <= max(lens) for n in lens):
            cls.append('long_with_short')
        if len([n for n in lens if n >= 64]) >= 2:
            cls.append('long_with_long')

    def cells(o):
        if o['k'] == 'c':
            return [o['v']]
        return [v for row in o['vals'] for v in row] if o['k'] == 'f' else o['vals']
    if any(v in (0.1, 1e16) for o in all_ops for v in cells(o)):
        cls.append('inexact_values')
    if any(len(p) > 2 for p in policies):
        cls.append('spelled_out_policy')
    # ---- classes 11-20 of the brief
    if any(o['k'] == 'c' and o.get('raw') == 'np' for o in all_ops):
        cls.append('numpy_scalar')
    scal = [o for o in all_ops if o['k'] == 'c']
    if any(not o.get('raw') for o in scal):
        cls.append('python_scalar')                  # a plain python int / float (not a numpy scalar) among the operands
    if any(o['v'] == 'nan' for o in scal):
        cls.append('nan_scalar')
    if any(_raw_form(x) != _raw_form(y) and (x['v'] == y['v']) for i, x in enumerate(scal) for y in scal[i + 1:]):
        cls.append('one_number_in_several_raw_types')     # 5 and 5.0, 2.5 and np.float64(2.5), nan and np.float64(nan) in one call
    if any(isinstance(v, int) and not isinstance(v, bool) and abs(v) >= BIG for o in all_ops for v in cells(o)):
        cls.append('int_beyond_2**53')
    if len(set(o.get('unit') for o in ts)) > 1:
        cls.append('mixed_index_units')
    if any(_is_unsorted(o) for o in ts):
        cls.append('unsorted_index')
    if _AX[0] != 'd' and ts:
        cls.append('intraday_stamps')
        if _AX[0] == 'us':
            cls.append('stamps_1us_apart')
    objs = [json.dumps(o, sort_keys=True) for o in all_ops if o.get('obj')]
    if len(objs) > len(set(objs)):
        cls.append('same_object_twice')
        if len(all_ops) >= 3 and all_ops[0].get('obj') and json.dumps(all_ops[0], sort_keys=True) == json.dumps(all_ops[-1], sort_keys=True):
            cls.append('same_object_first_and_last')
    distinct = {}
    for o in ts:
        if o.get('six'):
            distinct.setdefault(_idx_key(o), set()).add(json.dumps(o, sort_keys=True))
    if any(len(v) > 1 for v in distinct.values()):
        cls.append('shared_index_object')           # two different timeseries built on ONE index object

    # ---- classes 21-29 of the brief
    if _TZ[0] and ts:
        cls.append('zone_aware_stamps')
    if any(isinstance(v, float) and v in NEAR for o in all_ops for v in cells(o)):
        cls.append('values_within_tolerance')
    bufs = {}
    for o in ts:
        if o.get('buf') is not None and not _is_unsorted(o):
            bufs.setdefault(json.dumps(o['buf']), set()).add(o['step'])
    if any(len(v) > 1 for v in bufs.values()):
        cls.append('same_buffer_other_strides')
    if any(0 in o['cols'] for o in frames):
        cls.append('falsy_column_label')            # the column label 0

    def ixid(o):
        return ('obj', json.dumps(o, sort_keys=True)) if o.get('obj') else ('six',) + _idx_key(o) if o.get('six') else None
    if len(ts) >= 3 and ixid(ts[0]) is not None and ixid(ts[0]) == ixid(ts[-1]) and any(set(o['idx']) != set(ts[0]['idx']) for o in ts[1:-1]):
        cls.append('first_and_last_on_one_index_object_other_between')
    return bool(partial_nz or diffcols), cls


# ----------------------------------------------------------------------------- sub-check: add_ sub_ mul_ div_

def _special_classes(spec, cls):
    if spec.get('style') in ('pos', 'named'):
        cls.append('call_written_positionally' if spec['style'] == 'pos' else 'operands_by_keyword')
    if spec.get('style') == 'explicit':
        cls.append('default_policies_spelled_out')
    if spec.get('special') == 'scalar_list':
        cls.append('scalar_list_as_long_as_the_series')
    if spec.get('special') in ('empty_lhs', 'empty_rhs'):
        cls.append('empty_list_companion')
    if spec.get('omit'):
        cls.append('policy_left_to_default')
    return cls


def run_arith(spec):
    import pyg_base
    _begin(spec)
    spec = _norm(spec)
    op, join, columns = spec['op'], spec['join'], spec['columns']
    f = getattr(pyg_base, op)
    kw = _kw(spec)
    args, built, conts = _args(spec)
    before = _snapshot(built, conts)
    what = _desc(spec, kw)
    res = _invoke(what, f, args, kw, spec.get('style'))
    _check_unchanged(what, built, before, conts)
    # ---- reference
    lm = [_model(o) for o in spec['lhs']]
    rm = [] if spec['rhs'] is None else [_model(o) for o in spec['rhs']]
    flags = _Flags()
    zero_scalar_div = False
    if op in ('add_', 'mul_'):
        fn, neutral = FN[op]
        exp = m_fold(lm + rm, fn, join, columns, neutral, flags)
    else:
        inner = 'add_' if op == 'sub_' else 'mul_'
        fi, ni = FN[inner]
        A = m_fold(lm, fi, join, columns, ni, flags)
        B = m_fold(rm, fi, join, columns, ni, flags)
        fn, neutral = FN[op]
        exp = m_bin(A, B, fn, join, columns, neutral, flags)
        zero_scalar_div = op == 'div_' and B[0] == 'c' and B[1] == 0
    compare(res, exp, what, tol=1e-12 if op == 'div_' else None, no_inf=(op == 'div_'), nan_scalar_ok=zero_scalar_div)
    # ---- commutativity of the binary form
    extra = ['op=' + op, 'form=' + spec['form'], 'join=' + join[0] + 'j', 'columns=' + columns[0] + 'j']
    if op in ('add_', 'mul_') and spec['form'] == 'bin':
        res2 = call('swapped operands of ' + what, f, args[1], args[0], **kw)
        c1, c2 = _canon(res, by_time=True), _canon(res2, by_time=True)
        check(c1 == c2, '%s is not commutative: %s but with the operands swapped %s', what, short(c1, 400), short(c2, 400))
        _check_unchanged(what, built, before, conts)
        extra.append('commutativity_checked')
    all_ops = spec['lhs'] + (spec['rhs'] or [])
    nt, cls = _classes(all_ops, extra, (join, columns))
    _special_classes(spec, cls)
    if flags.narrow_intermediate:
        cls.append('narrow_intermediate')      # generated inputs of this class are taken out by KNOWN before they get here
    if op == 'div_':
        zero = _has_zero_divisor(B)
        if zero:
            cls.append('zero_divisor_cell')
        if zero_scalar_div:
            cls.append('zero_scalar_divisor')
        if _has_tiny_divisor(B):
            cls.append('tiny_divisor_cell')      # 0 < |divisor| <= 1e-8
    if exp[0] == 'f' and not exp[1]:
        cls.append('no_common_column')
    if columns[0] == 'o' and 'differing_columns' in cls:
        cls.append('neutral_element_used')
    return dict(nt=nt, cls=cls)


def _has_tiny_divisor(B):
    def tiny(v):
        return v is not ANY and not _isnan(v) and 0 < abs(v) <= 1e-8
    if B[0] == 'c':
        return tiny(B[1])
    if B[0] == 's':
        return any(tiny(v) for v in B[1].values())
    return any(tiny(v) for row in B[2].values() for v in row.values())


def _has_zero_divisor(B):
    if B[0] == 'c':
        return B[1] == 0
    if B[0] == 's':
        return any(v == 0 for v in B[1].values())
    return any(v == 0 for row in B[2].values() for v in row.values())


# ----------------------------------------------------------------------------- sub-check: pow_ and comparisons

def run_cmp_pow(spec):
    import pyg_base
    _begin(spec)
    spec = _norm(spec)
    op, join, columns = spec['op'], spec['join'], spec['columns']
    f = getattr(pyg_base, op)
    kw = _kw(spec)
    s2 = dict(op=op, lhs=[spec['a']], rhs=[spec['b']], lhs_list=False, rhs_list=False, style=spec.get('style'))
    args, built, conts = _args(s2)
    before = _snapshot(built, conts)
    what = _desc(s2, kw)
    res = _invoke(what, f, args, kw, spec.get('style'))
    _check_unchanged(what, built, before, conts)
    fn, neutral = FN[op]
    exp = m_bin(_model(spec['a']), _model(spec['b']), fn, join, columns, neutral)
    compare(res, exp, what, tol=1e-12 if op == 'pow_' else None)
    nt, cls = _classes([spec['a'], spec['b']], ['op=' + op, 'join=' + join[0] + 'j', 'columns=' + columns[0] + 'j'], (join, columns))
    _special_classes(spec, cls)
    if op != 'pow_':
        outcomes = set()
        for v in (exp[1].values() if exp[0] == 's' else [x for row in exp[2].values() for x in row.values()] if exp[0] == 'f' else []):
            if v is not ANY:
                outcomes.add(bool(v))
        if len(outcomes) == 2:
            cls.append('both_outcomes')
        near = m_bin(_model(spec['a']), _model(spec['b']), _within_tolerance, join, columns, ANY)
        if any(v is True for v in (near[1].values() if near[0] == 's' else [x for row in near[2].values() for x in row.values()] if near[0] == 'f' else [near[1]])):
            cls.append('compared_cells_within_tolerance')       # different values that np.isclose takes for equal, at one stamp
    return dict(nt=nt, cls=cls)


# ----------------------------------------------------------------------------- sub-check: min_ max_

def run_minmax(spec):
    import pyg_base
    _begin(spec)
    spec = _norm(spec)
    op, join, columns = spec['op'], spec['join'], spec['columns']
    f = getattr(pyg_base, op)
    kw = _kw(spec)
    args, built, conts = _args(spec)
    before = _snapshot(built, conts)
    what = _desc(spec, kw)
    res = _invoke(what, f, args, kw, spec.get('style'))
    _check_unchanged(what, built, before, conts)
    ms = [_model(o) for o in spec['lhs'] + (spec['rhs'] or [])]
    fn, neutral = FN[op]
    # min_/max_ align all operands at once: index = intersection/union over all timeseries, then fold
    exp = m_fold(ms, fn, join, columns, neutral)
    compare(res, exp, what)
    nt, cls = _classes(spec['lhs'] + (spec['rhs'] or []), ['op=' + op, 'form=' + spec['form'], 'join=' + join[0] + 'j', 'columns=' + columns[0] + 'j'], (join, columns))
    return dict(nt=nt, cls=_special_classes(spec, cls))


# ----------------------------------------------------------------------------- sub-check: df_sum df_mean df_count

def run_agg(spec):
    import pyg_base
    _begin(spec)
    spec = _norm(spec)
    op = spec['op']
    f = getattr(pyg_base, op)
    args, built, conts = _args(spec)
    before = _snapshot(built, conts)
    style = spec.get('style') or 'kw'
    # the statement is about the default policies: they are either left out or spelled out (join / columns = 'oj' or 'outer')
    kw = {} if style == 'kw' else dict(join=spec.get('join', 'oj'), columns=spec.get('columns', 'oj'))
    what = _desc(spec, kw)
    res = _invoke(what, f, args, kw, style)
    _check_unchanged(what, built, before, conts)
    ops = spec['lhs'] + (spec['rhs'] or [])
    ms = [_model(o) for o in ops]
    tms = [m for m in ms if m[0] != 'c']           # a scalar operand is broadcast: it has its value at every stamp of the union index and in every column
    index = sorted(set(t for m in tms for t in m[-1]))
    frames = tms[0][0] == 'f'
    cols = sorted(set(c for m in tms for c in m[1])) if frames else [None]

    def agg(t, c):
        vals = []
        for m in ms:
            if m[0] == 'c':
                v = m[1]
            elif frames:
                row = m[2].get(t)
                v = NAN if (row is None or c not in row) else row[c]
            else:
                v = m[1].get(t, NAN)
            if not _isnan(v):
                vals.append(v)
        n = len(vals)
        if op == 'df_count':
            return n
        if n == 0:
            return NAN
        s = 0.0
        for v in vals:
            s = s + v
        return s if op == 'df_sum' else s / n
    if frames:
        exp = ('f', cols, {t: {c: agg(t, c) for c in cols} for t in index})
    else:
        exp = ('s', {t: agg(t, None) for t in index})
    compare(res, exp, what, tol=1e-12 if op == 'df_mean' else None)
    nt, cls = _classes(ops, ['op=' + op, 'form=' + spec['form'], 'frames' if frames else 'series'])
    _special_classes(spec, cls)
    if ops[0]['k'] == 'c':
        cls.append('scalar_first')
    if any(o['k'] == 'c' for o in ops[1:-1]):
        cls.append('scalar_between_timeseries')
    if (not spec['lhs_list'] and spec['lhs'][0]['k'] == 'c') or (spec['rhs'] and not spec['rhs_list'] and spec['rhs'][0]['k'] == 'c'):
        cls.append('scalar_as_bare_argument')         # df_sum(ts, 5.0), df_count(5, [a, b])
    cells = [v for row in exp[2].values() for v in row.values()] if frames else list(exp[1].values())
    if any((v == 0 and op == 'df_count') or _isnan(v) for v in cells):
        cls.append('cell_without_data')
    if any(not _isnan(v) and not (op == 'df_count' and v == 0) for v in cells):
        cls.append('cell_with_data')
    return dict(nt=nt, cls=cls)


# ----------------------------------------------------------------------------- sub-check: several calls on the same operand objects

_EDIT_VALUES = {'f': [1.0, 'nan', 2.0, 0.0, -1.5, 2.5], 'i': [1, 0, 2, 5]}


def _same_cell(a, b):
    return (a == 'nan' and b == 'nan') or (a != 'nan' and b != 'nan' and a == b)


def _edit_step(draw, pool, prev):
    """one cell of one (non-empty) operand of the previous call gets another value of the operand's dtype; every pool entry that is this very object
    (an equal spec is ONE object within a session) is replaced by the edited spec"""
    cand = [i for i in prev[:2] if _n_rows(pool[i]) > 0] or [i for i in prev if _n_rows(pool[i]) > 0]
    if not cand:
        return None
    p = draw(st.sampled_from(cand))
    before = _expand(pool[p])
    row = draw(st.integers(0, len(before['idx']) - 1))
    col = draw(st.integers(0, len(before['cols']) - 1)) if before['k'] == 'f' else None
    old = before['vals'][row][col] if col is not None else before['vals'][row]
    values = _EDIT_VALUES[before['dt']]
    k = draw(st.integers(0, len(values) - 1))
    new = [v for v in values[k:] + values[:k] if not _same_cell(v, old)][0]
    after = _edited(before, row, col, new)
    key = json.dumps(before, sort_keys=True)
    same = [i for i in range(len(pool)) if json.dumps(_expand(pool[i]), sort_keys=True) == key]
    for i in same:
        pool[i] = after
    return dict(kind='edit', p=same, before=before, row=row, col=col, v=new)


def _n_rows(o):
    return len(o['idx']) if 'idx' in o else o['long']['n'] - len(o['long']['holes'])


def _edited(before, row, col, v):
    after = json.loads(json.dumps(before))
    if col is None:
        after['vals'][row] = v
    else:
        after['vals'][row][col] = v
    return after


def _apply_edit(e):
    """the caller's own in-place write between two calls: the object stays, its content changes"""
    before = _expand(e['before'])
    after = _edited(before, e['row'], e['col'], e['v'])
    cache = _SESSION[0]
    key = json.dumps(before, sort_keys=True)
    obj = cache.pop(key) if key in cache else _build_fresh(before)
    pos = _row_order(len(before['idx']), before.get('ord')).index(e['row'])
    was = _canon(obj)
    if e['col'] is None:
        obj.iloc[pos] = _cellv(e['v'])
    else:
        obj.iloc[pos, e['col']] = _cellv(e['v'])
    now = _canon(_build_fresh(after))
    if _canon(obj) != now or was == now:
        raise RuntimeError('harness: the in-place edit did not produce the operand it describes: %s' % (e,))
    cache[json.dumps(after, sort_keys=True)] = obj
    cache.setdefault('#edits', []).append('%r into row %s%s of %s' % (_cellv(e['v']), e['row'], '' if e['col'] is None else ', column %r' % (before['cols'][e['col']],), _desc_operand(before)))


@st.composite
def _session_case(draw):
    """a pool of 3-4 Series (or frames over one column set) and 2-4 calls on ordered selections of them - the same objects every time -
    half of the selections being prefixes / extensions of the previous call's; one join policy for the whole session in 3 cases out of 4.
    'container': the call hands over the very LIST object of the previous call (first with a companion, then on its own, or the other way round)"""
    ctx = _ctx(draw)
    ctx['big'] = draw(st.integers(0, 7)) == 7
    frames = draw(st.integers(0, 3)) == 0
    n = draw(st.integers(3, 4))
    cols = _cols(draw, ctx)
    pool = []
    for _ in range(n):
        pool.append(_ts(draw, 'f', pool, ctx, list(draw(st.permutations(cols)))) if frames else _ts(draw, 's', pool, ctx))
    join0 = draw(_policy)
    calls, prev, prevcall = [], None, None
    edited = False
    for _ in range(draw(st.integers(2, 4))):
        kind = draw(st.sampled_from(['arith', 'arith', 'arith', 'agg', 'agg', 'agg', 'minmax', 'cmp']))
        how = draw(st.sampled_from(['prefix', 'prefix', 'extend', 'free', 'same', 'container', 'container'])) if prev else 'free'
        if prev and draw(st.integers(0, 5)) == 5:
            # between two calls the caller writes ONE cell of an operand of the previous call in place (same object, new content); what follows is judged by the new content
            e = _edit_step(draw, pool, prev)
            if e is not None:
                calls.append(e)
                prevcall, edited = None, True           # the lists of the earlier calls held the old content
                how = draw(st.sampled_from(['same', 'same', 'prefix', 'extend', 'free']))
        just_edited = bool(calls) and calls[-1]['kind'] == 'edit'
        join = join0 if (just_edited or draw(st.integers(0, 3))) else draw(_policy)
        columns = draw(_policy)
        if how == 'container' and prevcall is not None and prevcall['call'].get('lhs_list') and all(o['k'] != 'c' for o in prevcall['call']['lhs']):
            # the previous call's list of operands is handed over again: the same list object (see _side)
            if kind == 'cmp':
                kind = 'arith'
            lhs = prevcall['call']['lhs']
            lsel = prevcall['lsel']
            had_rhs = prevcall['call']['rhs'] is not None
            if kind == 'agg':
                op = draw(st.sampled_from(['df_sum', 'df_mean', 'df_count']))
            elif kind == 'minmax':
                op = draw(st.sampled_from(['min_', 'max_']))
            else:
                op = draw(st.sampled_from(['add_', 'mul_', 'sub_', 'div_']))
            alone = had_rhs or len(lsel) >= 4 or draw(st.integers(0, 3)) == 0
            if alone and kind == 'arith':
                op = draw(st.sampled_from(['add_', 'mul_']))
            if alone:
                rsel, rhs, rhs_list = [], None, False
            else:
                rest = [i for i in range(n) if i not in lsel] or list(range(n))
                rsel = list(draw(st.permutations(rest)))[:draw(st.integers(1, max(1, min(len(rest), 4 - len(lsel)))))]
                rhs = [pool[i] for i in rsel]
                rhs_list = True if len(rhs) > 1 else draw(st.booleans())
            c = dict(op=op, join=join, columns=columns, form='list' if rhs is None else 'split', lhs=lhs, rhs=rhs, lhs_list=True, rhs_list=rhs_list)
            sel = lsel + rsel
            calls.append(dict(kind=kind, sel=sel, lsel=lsel, call=c, container=True, after_companion=bool(had_rhs and alone)))
            prev, prevcall = sel, calls[-1]
            continue
        if how == 'prefix' and len(prev) >= 3:
            sel = prev[:draw(st.integers(2, len(prev) - 1))]
        elif how == 'extend' and len(prev) < n:
            sel = prev + [i for i in range(n) if i not in prev][:draw(st.integers(1, n - len(prev)))]
        elif how == 'same':
            sel = list(prev)
        else:
            sel = list(draw(st.permutations(list(range(n)))))[:draw(st.integers(2, n))]
        if kind == 'cmp':
            sel = sel[:2]
        prev = sel
        ops = [pool[i] for i in sel]
        lsel = list(sel)
        if kind == 'cmp':
            c = dict(op=draw(st.sampled_from(['gt_', 'ge_', 'lt_', 'le_'])), join=join, columns=columns, a=ops[0], b=ops[1])
        elif kind == 'agg':
            c = dict(op=draw(st.sampled_from(['df_sum', 'df_mean', 'df_count'])), form='list', lhs=ops, rhs=None, lhs_list=True, rhs_list=False)
        else:
            op = draw(st.sampled_from(['add_', 'mul_', 'sub_', 'div_'] if kind == 'arith' else ['min_', 'max_']))
            if draw(st.integers(0, 5)) == 5 and len(ops) < 4:
                # a scalar among the timeseries: the timeseries operands of two calls are prefix-related, the operand lists are not
                ops = list(ops)
                ops.insert(draw(st.integers(0, len(ops))), _c(draw, ctx))
            if op in ('sub_', 'div_') or draw(st.booleans()):
                nl = draw(st.integers(1, len(ops) - 1))
                lhs, rhs = ops[:nl], ops[nl:]
                lsel = sel[:len([o for o in lhs if o['k'] != 'c'])]
                c = dict(op=op, join=join, columns=columns, form='split' if len(ops) > 2 else 'bin', lhs=lhs, rhs=rhs, lhs_list=len(lhs) > 1, rhs_list=len(rhs) > 1)
            else:
                c = dict(op=op, join=join, columns=columns, form='list', lhs=ops, rhs=None, lhs_list=True, rhs_list=False)
        calls.append(dict(kind=kind, sel=sel, lsel=lsel, call=c))
        prevcall = calls[-1]
    return dict(calls=calls, axis=ctx['axis'], tz=ctx['tz'])


def run_session(spec):
    _SESSION[0] = None
    _begin(spec)
    _SESSION[0] = {}
    try:
        rel = set()
        steps = spec['calls']
        spec = dict(spec, calls=[c for c in steps if c['kind'] != 'edit'])
        sels = [c['sel'] for c in spec['calls']]
        sub = []
        for c in steps:
            if c['kind'] == 'edit':
                _apply_edit(c)
                continue
            sub.append({'arith': run_arith, 'agg': run_agg, 'minmax': run_minmax, 'cmp': run_cmp_pow}[c['kind']](c['call']))
        for a, b in zip(sels, sels[1:]):
            if a != b and (a[:len(b)] == b or b[:len(a)] == a):
                rel.add('operands_prefix_of_previous_call' if len(b) < len(a) else 'operands_extend_previous_call')
            if a == b:
                rel.add('same_operands_again')
        kinds = [c['kind'] for c in spec['calls']]
        cls = ['calls=%i' % len(kinds)] + sorted(rel)
        if 'agg' in kinds and len(set(kinds)) > 1:
            cls.append('aggregation_and_operator_share_operands')
        if 'cmp' in kinds:
            cls.append('comparison_among_the_calls')
        pols = set(c['call'].get('join', 'oj')[0] for c in spec['calls'])
        if len(pols) == 1:
            cls.append('one_join_policy_throughout')
        if _SESSION[0].get('#lists_passed_again'):
            cls.append('same_list_object_passed_again')
            if any(c.get('after_companion') for c in spec['calls']):
                cls.append('list_first_with_companion_then_alone')
        earlier, last, pending, used_again, same_again = set(), None, [], False, False
        for c in steps:
            if c['kind'] == 'edit':
                if set(c['p']) & earlier:
                    pending.append(c)
                continue
            for e in pending:
                if set(e['p']) & set(c['sel']):
                    used_again = True
                    same_again = same_again or c['sel'] == last
            pending = []
            earlier |= set(c['sel'])
            last = c['sel']
        if used_again:
            cls.append('operand_edited_in_place_between_calls')         # an operand of an earlier call, edited by the caller, is an operand of the next call
            if same_again:
                cls.append('same_operands_again_after_an_edit')
        for lab in ('shared_index_object', 'scalar', 'long', 'mixed_index_units', 'unsorted_index', 'intraday_stamps', 'numeric_column_names', 'zone_aware_stamps',
                    'values_within_tolerance'):
            if any(lab in (r.get('cls') or ()) for r in sub):
                cls.append(lab)
        return dict(nt=bool(rel - {'same_operands_again'}), cls=cls)
    finally:
        _SESSION[0] = None


# ----------------------------------------------------------------------------- known / excluded input classes

def _narrow_intermediate(spec):
    """
    a list reduction under columns='ij' in which an intermediate result with fewer than two columns is consumed by a further step:
    the library then treats the one-column intermediate as a "pseudo-series" (column name ignored, broadcast over the columns of
    the next operand) and a column-less intermediate as an empty Series, so the result depends on the order of the operands.
    """
    if (spec.get('columns') or 'x')[0] != 'i' or 'lhs' not in spec:
        return False

    def fold_cols(ops):
        cur, hit = None, False
        for o in ops:
            if cur is not None and len(cur) < 2:
                hit = True
            if o['k'] == 'f':
                cur = set(o['cols']) if cur is None else cur & set(o['cols'])
        return cur, hit
    lhs, rhs = spec['lhs'], spec['rhs'] or []
    if spec['op'] in ('add_', 'mul_'):
        return fold_cols(lhs + rhs)[1]
    (cl, hl), (cr, hr) = fold_cols(lhs), fold_cols(rhs)
    return hl or hr or (cl is not None and len(cl) < 2) or (cr is not None and len(cr) < 2)


KNOWN = {'narrow_intermediate': _narrow_intermediate}


_GEN2_RULE = ('Classes 21-29: every index of a case zone-aware in one zone (result zone-aware, same instants), cells within np.isclose tolerances of one another, two Series as views of one buffer '
              'with other strides, policies left out (= ij), the column label 0, a few percent each. ')

_COMMON_RULE = ('operands: float/int Series and 2-3 column frames (names over {a,b,c,d}, {a,ab,b,abc} or {1,0,2,3}, free column order), scalars incl. 0 and NaN (Python or numpy); short indices on 12 stamps, '
                'a quarter of the cases with long operands (64/65/100/128/300 stamps, few distinct values) next to short ones; daily, 12-hourly or 1us-apart stamps, mixed index resolutions, unsorted short '
                'operands, shared index objects and one object in two places in a few percent of the cases each; policies spelled ij/oj/inner/outer, calls written with keywords, positionally or with a=, b=; '
                'operands and the lists holding them must be unchanged after the call. ' + _GEN2_RULE)

_NEW_FLOORS = {'numpy_scalar': 0.027, 'mixed_index_units': 0.012, 'unsorted_index': 0.01, 'intraday_stamps': 0.08, 'stamps_1us_apart': 0.035, 'same_object_twice': 0.02,
               'shared_index_object': 0.011, 'numeric_column_names': 0.024, 'call_written_positionally': 0.03, 'operands_by_keyword': 0.03}


# classes 21-29 of the brief (second generalisation pass); floors at about a third of the rate observed over seeds 1-3
_GEN2_FLOORS = {'zone_aware_stamps': 0.02, 'values_within_tolerance': 0.022, 'same_buffer_other_strides': 0.004, 'falsy_column_label': 0.015, 'policy_left_to_default': 0.03}


# scalars among the operands of the aggregates (one number in several raw types: python int / float, np.int64 / np.float64); floors at about a third of the rate observed over seeds 1-3
_AGG_SCALAR_FLOORS = {'scalar': 0.05, 'python_scalar': 0.045, 'numpy_scalar': 0.014, 'nan_scalar': 0.01, 'falsy_scalar': 0.01, 'one_number_in_several_raw_types': 0.009,
                      'scalar_first': 0.016, 'scalar_between_timeseries': 0.034, 'scalar_as_bare_argument': 0.014}


def _floors(old, **more):
    d = dict(old)
    d.update(_NEW_FLOORS)
    d.update(_GEN2_FLOORS)
    d.update(more)
    return {k: v for k, v in d.items() if v is not None}


SUBS = [
    Sub('arith', lambda tier: _arith_case(), run_arith, quick=2000, thorough=20000,
        rule='add_/sub_/mul_/div_ on 2-4 operands; index policies x column policies; forms op(a,b), op([..]), op([..],[..]), also op(ts, [k scalars]) with k = rows of ts and op([..], []); ' + _COMMON_RULE +
             'int64 cells beyond 2**53 for add_/sub_ under inner policies. '
             'oracle: per-timestamp dictionary model folded left to right, neutral element for one-sided columns, zero divisor -> NaN and no inf, op(a,b)==op(b,a) for add_/mul_. '
             'non-trivial = partially overlapping indices with a NaN or 0 inside the overlap, or frames with differing column sets',
        floor=0.2, class_floors=_floors({'neutral_element_used': 0.04, 'zero_divisor_cell': 0.05, 'commutativity_checked': 0.1, 'partial_overlap': 0.2,
                                         'series_with_frame': 0.1, 'scalar': 0.15, 'empty_operand': 0.04, 'disjoint_indices': 0.05,
                                         'long': 0.06, 'long_with_short': 0.02, 'long_with_long': 0.02, 'fingerprint_indices': 0.03, 'prefix_column_names': 0.05,
                                         'same_columns_other_order': 0.015, 'falsy_scalar': 0.03, 'inexact_values': 0.08, 'spelled_out_policy': 0.2,
                                         'empty_in_the_middle': 0.004, 'zero_scalar_divisor': 0.005, 'tiny_divisor_cell': 0.005},
                                        **{'int_beyond_2**53': 0.025, 'same_object_twice': 0.035, 'numeric_column_names': 0.04, 'mixed_index_units': 0.02, 'unsorted_index': 0.014,
                                           'scalar_list_as_long_as_the_series': 0.007, 'empty_list_companion': 0.009,
                                           'zone_aware_stamps': 0.027, 'values_within_tolerance': 0.028, 'same_buffer_other_strides': 0.012, 'falsy_column_label': 0.027})),
    Sub('cmp_pow', lambda tier: _cmp_case(), run_cmp_pow, quick=1000, thorough=10000,
        rule='pow_ (exponents 0..3, 0.5, NaN) and gt_/ge_/lt_/le_ on two operands; ' + _COMMON_RULE + 'int64 cells beyond 2**53 for the comparisons under the inner index policy. '
             'oracle: the same alignment model with math.pow / Python comparisons; cells of one-sided columns under columns=oj are not judged. non-trivial as in arith',
        floor=0.2, class_floors=_floors({'both_outcomes': 0.15, 'partial_overlap': 0.2, 'op=pow_': 0.2, 'long': 0.06, 'fingerprint_indices': 0.01, 'spelled_out_policy': 0.2},
                                        **{'int_beyond_2**53': 0.03, 'numeric_column_names': 0.035, 'compared_cells_within_tolerance': 0.01, 'values_within_tolerance': 0.028, 'policy_left_to_default': 0.035})),
    Sub('minmax', lambda tier: _minmax_case(), run_minmax, quick=1000, thorough=10000,
        rule='min_/max_ on 2-4 operands (frames of one case have one column set), forms (a,b), ([..]), ([..],[..]), ([..],[]); ' + _COMMON_RULE + 'int64 cells beyond 2**53 under the inner index policy. '
             'oracle: NaN-propagating min/max on the aligned cells. non-trivial = partially overlapping indices with a NaN or 0 inside the overlap',
        floor=0.2, class_floors=_floors({'partial_overlap': 0.25, 'series_with_frame': 0.1, 'long': 0.06, 'fingerprint_indices': 0.03, 'same_columns_other_order': 0.05,
                                         'spelled_out_policy': 0.2},
                                        **{'int_beyond_2**53': 0.023, 'mixed_index_units': 0.018, 'unsorted_index': 0.015, 'same_object_twice': 0.029, 'same_object_first_and_last': 0.003,
                                           'first_and_last_on_one_index_object_other_between': 0.0015, 'shared_index_object': 0.022, 'empty_list_companion': 0.008,
                                           'zone_aware_stamps': 0.03, 'same_buffer_other_strides': 0.018, 'falsy_column_label': 0.022})),
    Sub('session', lambda tier: _session_case(), run_session, quick=800, thorough=8000,
        rule='a pool of 3-4 Series (a quarter of the cases: frames over one column set; one session in eight with long operands) built ONCE, then 2-4 calls of add_/sub_/mul_/div_/min_/max_/gt_/ge_/lt_/le_/'
             'df_sum/df_mean/df_count on ordered selections of those same objects (half of them a prefix or an extension of the previous selection, a scalar among them now and then; two in seven '
             'hand over the very list object of the previous call, first with a companion and then alone or the other way round), mostly under one join policy; every call is judged by the oracle '
             'of its own sub-check (pointwise model on the aligned operands, a list by its original content), so a result may not depend on what was computed before; one step in six is preceded by the caller '
             'writing one cell of an operand of the previous call in place (same object, new content - the calls that follow are judged by the new content); zone-aware and within-tolerance cases as in the other sub-checks. non-trivial = two consecutive calls whose operand lists are prefix-related',
        floor=0.2, class_floors={'operands_prefix_of_previous_call': 0.15, 'operands_extend_previous_call': 0.1, 'aggregation_and_operator_share_operands': 0.2, 'one_join_policy_throughout': 0.2,
                                 'same_list_object_passed_again': 0.18, 'list_first_with_companion_then_alone': 0.017, 'comparison_among_the_calls': 0.07, 'scalar': 0.04,
                                 'shared_index_object': 0.045, 'mixed_index_units': 0.03, 'unsorted_index': 0.02, 'intraday_stamps': 0.085, 'long': 0.03, 'numeric_column_names': 0.012,
                                 'operand_edited_in_place_between_calls': 0.06, 'same_operands_again_after_an_edit': 0.03, 'zone_aware_stamps': 0.02, 'values_within_tolerance': 0.03}),
    Sub('agg', lambda tier: _agg_case(), run_agg, quick=1000, thorough=10000,
        rule='df_sum/df_mean/df_count on 2-4 Series or 2-4 multi-column frames (column sets may differ), default policies left out or spelled out; one case in six with 1-2 scalar operands (python int / float, '
             'np.int64 / np.float64, 0, NaN, one number in two raw types) first, between or last, in the list or as a bare argument: broadcast over the union index and columns, a NaN scalar is skipped; ' + _COMMON_RULE + 'oracle: union index, '
             'sum/mean over the non-NaN operands, count of them, NaN (count 0) where none. non-trivial as in arith',
        floor=0.3, class_floors=_floors({'cell_without_data': 0.3, 'cell_with_data': 0.5, 'differing_columns': 0.1, 'long': 0.06, 'fingerprint_indices': 0.05},
                                        policy_left_to_default=None, mixed_index_units=0.03, unsorted_index=0.023, stamps_1us_apart=0.04, same_object_twice=0.035, same_object_first_and_last=0.015,
                                        first_and_last_on_one_index_object_other_between=0.012, shared_index_object=0.03, call_written_positionally=0.027, default_policies_spelled_out=0.065,
                                        empty_list_companion=0.012, values_within_tolerance=0.03, same_buffer_other_strides=0.011, falsy_column_label=0.025, **_AGG_SCALAR_FLOORS)),
]
