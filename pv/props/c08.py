# -*- coding: utf-8 -*-
"""
C08 - timeseries operators equal the pointwise operation on aligned operands.

Oracle: a per-timestamp dictionary model written from the statement. An operand is a scalar, a Series {t: v} or a frame
{t: {col: v}}; a binary step aligns the index (intersection / union of the timeseries operands' indices, a missing timestamp
reads as NaN), aligns the columns (intersection / union of the frames' column sets; under 'oj' a column missing on one side
reads as the neutral element of the operation; a Series or scalar is broadcast over the columns) and applies the plain Python
scalar operator cell by cell. Lists fold left to right (sub_/div_: both sides are folded with +/* first).
No pandas arithmetic is used by the oracle; pandas is only used to build the operands and to read index/columns/values.
"""
import datetime
import math

from hypothesis import strategies as st

from pv.core import Sub, Violation, call, check, short
from pv.codec import D0

ASSUMPTIONS = [
    'indices are strictly increasing, duplicate-free daily DatetimeIndex subsets of a 12-day axis (incl. empty, identical, disjoint, partially overlapping)',
    'cells: floats from {NaN, 0.0, -0.0, -1.5, 1.0, 2.0, 2.5} or int64 from [-3, 6] (all sums/products are exact dyadic numbers, so + - * are compared exactly; / pow mean with rel/abs 1e-12)',
    'frames have 2-3 distinct columns out of {a,b,c,d}; single-column frames ("pseudo-series", whose column name is ignored by design) are not generated',
    'every case holds at least one timeseries (all-scalar calls are plain arithmetic)',
    'result index / columns are compared as duplicate-free sets (the statement does not fix an order)',
    'frames sharing no column under columns="ij": only "the result has no cells" is asserted (the library returns an empty Series, the docstring of presync pins len == 0)',
    'an intermediate result of a list reduction never has fewer than two columns (under columns="ij" the frames of one reduced list share two columns by construction): '
    'a one-column intermediate is a "pseudo-series" for the library and a column-less one an empty Series, see KNOWN["narrow_intermediate"] (reported as a finding)',
    'a scalar zero divisor may yield a NaN scalar (for frames: one NaN per column) instead of an all-NaN timeseries (div_(ts, 0) returns nan by design)',
    'pow_: exponents are 0..3 / {0.0, 0.5, 1.0, 2.0, 3.0} / NaN (no negative exponents: 0**-1 is +inf by IEEE, int**-1 raises in numpy); oracle = C pow (math.pow; domain error -> NaN)',
    'pow_ and the comparisons have no neutral element: under columns="oj" the cells of a column present on one side only are not asserted (column set and the other cells are)',
    'min_/max_: NaN-propagating (documented as reduced np.minimum/np.maximum); frames of one case have the same column set (possibly in a different order)',
    'df_sum/df_mean/df_count are called with their default policies (join="oj", columns="oj") on homogeneous collections: all Series or all multi-column frames',
    'commutativity is asserted for the binary form op(a, b) vs op(b, a) of add_ and mul_',
]

NAN = float('nan')
AXIS_N = 12
AXIS = [datetime.datetime.fromordinal(D0) + datetime.timedelta(days=i) for i in range(AXIS_N)]
POS = {t: i for i, t in enumerate(AXIS)}
COLPOOL = ['a', 'b', 'c', 'd']


class _Any(object):
    """marker for a cell the statement does not constrain"""
    def __repr__(self):
        return 'ANY'


ANY = _Any()

# ----------------------------------------------------------------------------- generators (plain data)

_fcell = st.sampled_from(['nan', 0.0, 0.0, -1.5, 1.0, 2.0, 2.5, 'nan', 1.0, -0.0])
_icell = st.integers(-3, 6).map(lambda i: 0 if i == -3 else i)   # 0 twice as likely
_scalar = st.sampled_from([0, 0.0, 1, 2, -1, 2.5, -1.5, 'nan', 3])
_exp_f = st.sampled_from([0.0, 0.5, 1.0, 2.0, 3.0, 'nan'])
_exp_i = st.integers(0, 3)


_IDX_MODES = ['mask', 'mask', 'mask', 'mask', 'window', 'window', 'shift', 'shift', 'shift', 'shift', 'same', 'disjoint', 'empty']


def _index(draw, first):
    mode = draw(st.sampled_from(_IDX_MODES))
    if mode == 'empty':
        return []
    if first is not None:
        if mode == 'same':
            return list(first)
        if mode == 'disjoint':
            rest = [i for i in range(AXIS_N) if i not in first]
            m = draw(st.integers(1, 2 ** len(rest) - 1)) if rest else 0
            return [i for j, i in enumerate(rest) if m >> j & 1]
        if mode == 'shift' and first:
            # a shifted copy of the first index: overlaps partially
            sh = draw(st.sampled_from([-2, -1, 1, 2]))
            return sorted(set(i + sh for i in first if 0 <= i + sh < AXIS_N))
    if mode == 'window':
        start = draw(st.integers(0, AXIS_N - 2))
        n = draw(st.integers(2, 7))
        return list(range(start, min(AXIS_N, start + n)))
    m = draw(st.integers(1, 2 ** AXIS_N - 1))
    return [i for i in range(AXIS_N) if m >> i & 1]


def _ts(draw, kind, first, cols=None, cellmode=None):
    """kind 's' or 'f'; cellmode 'f' floats, 'i' ints, 'e' float exponents, 'ei' int exponents"""
    idx = _index(draw, first)
    cm = cellmode or draw(st.sampled_from(['f', 'f', 'f', 'i']))
    cell = {'f': _fcell, 'i': _icell, 'e': _exp_f, 'ei': _exp_i}[cm]
    dt = 'i' if cm in ('i', 'ei') else 'f'
    if kind == 's':
        return dict(k='s', idx=idx, dt=dt, vals=[draw(cell) for _ in idx])
    return dict(k='f', idx=idx, dt=dt, cols=list(cols), vals=[[draw(cell) for _ in cols] for _ in idx])


def _cols(draw, must=None):
    """2-3 column names in drawn order; `must` = names every frame of the list has to hold"""
    n = draw(st.integers(2, 3))
    perm = list(draw(st.permutations(COLPOOL)))
    if must:
        cols = list(must) + [c for c in perm if c not in must][:n - len(must)]
        return list(draw(st.permutations(cols)))
    return perm[:n]


def _common(draw):
    """two columns shared by every frame of one reduced list (so that no intermediate result has fewer than two columns)"""
    return sorted(draw(st.permutations(COLPOOL))[:2])


def _first_idx(ops):
    for o in ops:
        if o['k'] != 'c':
            return o['idx']
    return None


def _operands(draw, n, allow_scalar=True, allow_frame=True, common=None, cols_fixed=None, pre=(), profile='mixed'):
    """n operands; `common`: columns every frame must have; cols_fixed: the column set of every frame (order free)"""
    ops = []
    for _ in range(n):
        if profile == 'frames':
            kinds = ['f', 'f', 'f', 'f', 's', 'c']
        else:
            kinds = ['s', 's'] + (['f', 'f'] if allow_frame else []) + (['c'] if allow_scalar else [])
        k = draw(st.sampled_from(kinds))
        first = _first_idx(list(pre) + ops)
        if k == 'c':
            ops.append(dict(k='c', v=draw(_scalar)))
        elif k == 's':
            ops.append(_ts(draw, 's', first))
        else:
            if cols_fixed is not None:
                cols = list(draw(st.permutations(cols_fixed)))
            else:
                cols = _cols(draw, common)
                prev = [o for o in list(pre) + ops if o['k'] == 'f']
                rest = [c for c in COLPOOL if prev and c not in prev[0]['cols']]
                if not common and len(rest) >= 2 and draw(st.integers(0, 5)) == 0:
                    cols = rest          # shares no column with the first frame
            ops.append(_ts(draw, 'f', first, cols))
    return ops


def _ensure_ts(draw, ops, allow_frame=True, cols=None):
    if all(o['k'] == 'c' for o in ops):
        i = draw(st.integers(0, len(ops) - 1))
        if allow_frame and draw(st.booleans()):
            ops[i] = _ts(draw, 'f', None, cols or _cols(draw))
        else:
            ops[i] = _ts(draw, 's', None)
    return ops


@st.composite
def _arith_case(draw):
    op = draw(st.sampled_from(['add_', 'sub_', 'mul_', 'div_']))
    join = draw(st.sampled_from(['ij', 'oj']))
    columns = draw(st.sampled_from(['ij', 'oj']))
    form = draw(st.sampled_from(['bin', 'bin', 'list', 'list', 'split']))
    if form == 'list' and op in ('sub_', 'div_'):
        form = 'split'
    profile = draw(st.sampled_from(['mixed', 'mixed', 'frames']))
    if form == 'bin':
        ops = _ensure_ts(draw, _operands(draw, 2, profile=profile))
        return dict(op=op, join=join, columns=columns, form=form, lhs=[ops[0]], rhs=[ops[1]], lhs_list=False, rhs_list=False)
    n = draw(st.integers(2, 4))
    # under columns='ij' the frames of one folded list share two columns, so that no intermediate result has < 2 columns
    if form == 'list':
        common = _common(draw) if columns == 'ij' and n > 2 else None
        ops = _ensure_ts(draw, _operands(draw, n, common=common, profile=profile), cols=None if common is None else _cols(draw, common))
        return dict(op=op, join=join, columns=columns, form=form, lhs=ops, rhs=None, lhs_list=True, rhs_list=False)
    nl = draw(st.integers(1, n - 1))
    if op in ('add_', 'mul_'):
        # one fold over lhs + rhs
        common = _common(draw) if columns == 'ij' and n > 2 else None
        ops = _ensure_ts(draw, _operands(draw, n, common=common, profile=profile), cols=None if common is None else _cols(draw, common))
        lhs, rhs = ops[:nl], ops[nl:]
    else:
        cl = _common(draw) if columns == 'ij' and nl > 1 else None
        cr = _common(draw) if columns == 'ij' and n - nl > 1 else None
        lhs = _operands(draw, nl, common=cl, profile=profile)
        rhs = _operands(draw, n - nl, common=cr, pre=lhs, profile=profile)
        both = _ensure_ts(draw, lhs + rhs, allow_frame=False)
        lhs, rhs = both[:nl], both[nl:]
    lhs_list = True if len(lhs) > 1 else draw(st.booleans())
    rhs_list = True if len(rhs) > 1 else draw(st.booleans())
    return dict(op=op, join=join, columns=columns, form=form, lhs=lhs, rhs=rhs, lhs_list=lhs_list, rhs_list=rhs_list)


@st.composite
def _cmp_case(draw):
    op = draw(st.sampled_from(['pow_', 'pow_', 'gt_', 'ge_', 'lt_', 'le_']))
    join = draw(st.sampled_from(['ij', 'oj']))
    columns = draw(st.sampled_from(['ij', 'oj']))
    if op != 'pow_':
        ops = _ensure_ts(draw, _operands(draw, 2, profile=draw(st.sampled_from(['mixed', 'mixed', 'frames']))))
        return dict(op=op, join=join, columns=columns, a=ops[0], b=ops[1])
    a = _operands(draw, 1)[0]
    kb = draw(st.sampled_from(['c', 's', 's', 'f']))
    cm = draw(st.sampled_from(['e', 'ei']))
    if kb == 'c':
        b = dict(k='c', v=draw(_exp_f if cm == 'e' else _exp_i))
    elif kb == 's':
        b = _ts(draw, 's', _first_idx([a]), cellmode=cm)
    else:
        b = _ts(draw, 'f', _first_idx([a]), _cols(draw), cellmode=cm)
    if a['k'] == 'c' and b['k'] == 'c':
        a = _ts(draw, 's', None)
    return dict(op=op, join=join, columns=columns, a=a, b=b)


@st.composite
def _minmax_case(draw):
    op = draw(st.sampled_from(['min_', 'max_']))
    join = draw(st.sampled_from(['ij', 'oj']))
    columns = draw(st.sampled_from(['ij', 'oj']))
    form = draw(st.sampled_from(['bin', 'list', 'split']))
    n = 2 if form == 'bin' else draw(st.integers(2, 4))
    cols = _cols(draw)
    ops = _ensure_ts(draw, _operands(draw, n, cols_fixed=cols), cols=cols)
    if form == 'bin':
        return dict(op=op, join=join, columns=columns, form=form, lhs=[ops[0]], rhs=[ops[1]], lhs_list=False, rhs_list=False)
    if form == 'list':
        return dict(op=op, join=join, columns=columns, form=form, lhs=ops, rhs=None, lhs_list=True, rhs_list=False)
    nl = draw(st.integers(1, n - 1))
    lhs, rhs = ops[:nl], ops[nl:]
    return dict(op=op, join=join, columns=columns, form=form, lhs=lhs, rhs=rhs,
                lhs_list=True if len(lhs) > 1 else draw(st.booleans()), rhs_list=True if len(rhs) > 1 else draw(st.booleans()))


@st.composite
def _agg_case(draw):
    op = draw(st.sampled_from(['df_sum', 'df_mean', 'df_count']))
    frames = draw(st.booleans())
    n = draw(st.integers(2, 4))
    ops = []
    for _ in range(n):
        first = _first_idx(ops)
        ops.append(_ts(draw, 'f', first, _cols(draw)) if frames else _ts(draw, 's', first))
    form = draw(st.sampled_from(['list', 'list', 'split']))
    if form == 'list':
        return dict(op=op, form=form, lhs=ops, rhs=None, lhs_list=True, rhs_list=False)
    nl = draw(st.integers(1, n - 1))
    lhs, rhs = ops[:nl], ops[nl:]
    return dict(op=op, form=form, lhs=lhs, rhs=rhs,
                lhs_list=True if len(lhs) > 1 else draw(st.booleans()), rhs_list=True if len(rhs) > 1 else draw(st.booleans()))


# ----------------------------------------------------------------------------- builder

def _cellv(v):
    return NAN if v == 'nan' else v


def _build(o):
    import pandas as pd
    if o['k'] == 'c':
        return _cellv(o['v'])
    idx = pd.DatetimeIndex([AXIS[i] for i in o['idx']])
    dtype = 'int64' if o['dt'] == 'i' else 'float64'
    if o['k'] == 's':
        return pd.Series([_cellv(v) for v in o['vals']], index=idx, dtype=dtype)
    return pd.DataFrame({c: [_cellv(row[j]) for row in o['vals']] for j, c in enumerate(o['cols'])}, index=idx, columns=list(o['cols']), dtype=dtype)


def _model(o):
    if o['k'] == 'c':
        return ('c', _cellv(o['v']))
    if o['k'] == 's':
        return ('s', {t: _cellv(v) for t, v in zip(o['idx'], o['vals'])})
    return ('f', list(o['cols']), {t: {c: _cellv(v) for c, v in zip(o['cols'], row)} for t, row in zip(o['idx'], o['vals'])})


def _args(spec):
    lhs = [_build(o) for o in spec['lhs']]
    rhs = None if spec['rhs'] is None else [_build(o) for o in spec['rhs']]
    a = lhs if spec['lhs_list'] else lhs[0]
    if rhs is None:
        return (a,), lhs
    b = rhs if spec['rhs_list'] else rhs[0]
    return (a, b), lhs + rhs


# ----------------------------------------------------------------------------- reference model

def _isnan(x):
    return isinstance(x, float) and x != x


def _val(o, t, c, neutral):
    if o[0] == 'c':
        return o[1]
    if o[0] == 's':
        return o[1].get(t, NAN)
    if c not in o[1]:
        return neutral
    row = o[2].get(t)
    return NAN if row is None else row[c]


class _Flags(object):
    def __init__(self):
        self.narrow_intermediate = False


def m_bin(x, y, fn, join, columns, neutral, flags=None):
    """one binary step of the statement"""
    if flags is not None and any(o[0] == 'f' and len(o[1]) < 2 for o in (x, y)):
        flags.narrow_intermediate = True     # operands always have >= 2 columns, so this is an intermediate result
    if x[0] == 'c' and y[0] == 'c':
        return ('c', fn(x[1], y[1]))
    idxs = [set(o[-1]) for o in (x, y) if o[0] != 'c']
    index = idxs[0]
    for s in idxs[1:]:
        index = (index & s) if join == 'ij' else (index | s)
    frames = [o for o in (x, y) if o[0] == 'f']

    def cell(t, c):
        p, q = _val(x, t, c, neutral), _val(y, t, c, neutral)
        if p is ANY or q is ANY:
            return ANY
        return fn(p, q)
    if not frames:
        return ('s', {t: cell(t, None) for t in sorted(index)})
    cols = set(frames[0][1])
    for f in frames[1:]:
        cols = (cols & set(f[1])) if columns == 'ij' else (cols | set(f[1]))
    cols = sorted(cols)
    return ('f', cols, {t: {c: cell(t, c) for c in cols} for t in sorted(index)})


def m_fold(ms, fn, join, columns, neutral, flags=None):
    res = ms[0]
    for m in ms[1:]:
        res = m_bin(res, m, fn, join, columns, neutral, flags)
    return res


def f_add(a, b):
    return a + b


def f_sub(a, b):
    return a - b


def f_mul(a, b):
    return a * b


def f_div(a, b):
    # "division by zero yields NaN"; a NaN divisor gives NaN by IEEE
    if b == 0:
        return NAN
    return a / b


def f_pow(a, b):
    try:
        return math.pow(a, b)      # C pow: pow(x, 0) = 1 and pow(1, y) = 1 even for NaN
    except ValueError:             # negative base, fractional exponent
        return NAN


def f_min(a, b):
    if _isnan(a) or _isnan(b):
        return NAN
    return a if a <= b else b


def f_max(a, b):
    if _isnan(a) or _isnan(b):
        return NAN
    return a if a >= b else b


FN = dict(add_=(f_add, 0.0), sub_=(f_sub, 0.0), mul_=(f_mul, 1.0), div_=(f_div, 1.0), pow_=(f_pow, ANY),
          gt_=(lambda a, b: a > b, ANY), ge_=(lambda a, b: a >= b, ANY), lt_=(lambda a, b: a < b, ANY), le_=(lambda a, b: a <= b, ANY),
          min_=(f_min, ANY), max_=(f_max, ANY))


# ----------------------------------------------------------------------------- comparison of a result with the model

def _cells_equal(got, exp, tol):
    if exp is ANY:
        return True
    try:
        g = float(got)
    except (TypeError, ValueError):
        return False
    e = float(exp)
    if e != e:
        return g != g
    if g != g:
        return False
    if tol:
        return math.isclose(g, e, rel_tol=tol, abs_tol=tol)
    return g == e


def _positions(index, what):
    out = []
    for t in list(index):
        try:
            key = t.to_pydatetime() if hasattr(t, 'to_pydatetime') else t
            p = POS.get(key)
        except Exception:
            p = None
        check(p is not None, '%s: result index holds %s, which is not a timestamp of any operand', what, t)
        out.append(p)
    check(len(set(out)) == len(out), '%s: result index has duplicates: %s', what, out)
    return out


def _days(ps):
    return [AXIS[p].strftime('%m-%d') for p in sorted(ps)]


def compare(res, exp, what, tol=None, no_inf=False, nan_scalar_ok=False):
    import numpy as np
    import pandas as pd
    if nan_scalar_ok:
        # scalar zero divisor: _div_ returns the scalar nan per column, i.e. nan for Series and a per-column Series of nan for frames
        if isinstance(res, (float, np.floating)) and res != res:
            return
        if isinstance(res, pd.Series) and exp[0] == 'f' and set(res.index) == set(exp[1]) and all(isinstance(v, (float, np.floating)) and v != v for v in res.values):
            return
    if exp[0] == 'c':
        check(isinstance(res, (int, float, bool, np.number, np.bool_)), '%s: expected a scalar, got %s', what, res)
        check(_cells_equal(res, exp[1], tol), '%s: expected %s, got %s', what, exp[1], res)
        return
    if exp[0] == 's':
        check(isinstance(res, pd.Series), '%s: expected a Series on %s, got %s', what, _days(exp[1]), res)
        ps = _positions(res.index, what)
        check(set(ps) == set(exp[1]), '%s: result index is %s, the join policy prescribes %s', what, _days(ps), _days(exp[1]))
        vals = res.values
        for i, p in enumerate(ps):
            g, e = vals[i], exp[1][p]
            if no_inf:
                check(not (isinstance(g, (float, np.floating)) and abs(g) == math.inf), '%s: result holds %s at %s', what, g, AXIS[p].strftime('%m-%d'))
            check(_cells_equal(g, e, tol), '%s: at %s expected %s, got %s', what, AXIS[p].strftime('%m-%d'), e, g)
        return
    cols, rows = exp[1], exp[2]
    if not cols:
        check(isinstance(res, (pd.Series, pd.DataFrame)) and res.size == 0, '%s: operands share no column, expected a result without cells, got %s', what, res)
        return
    check(isinstance(res, pd.DataFrame), '%s: expected a DataFrame with columns %s, got %s', what, cols, res)
    rc = list(res.columns)
    check(len(set(rc)) == len(rc) and set(rc) == set(cols), '%s: result columns are %s, the column policy prescribes %s', what, rc, cols)
    ps = _positions(res.index, what)
    check(set(ps) == set(rows), '%s: result index is %s, the join policy prescribes %s', what, _days(ps), _days(rows))
    for c in cols:
        vals = res[c].values
        for i, p in enumerate(ps):
            g, e = vals[i], rows[p][c]
            if no_inf:
                check(not (isinstance(g, (float, np.floating)) and abs(g) == math.inf), '%s: result holds %s at %s, column %s', what, g, AXIS[p].strftime('%m-%d'), c)
            check(_cells_equal(g, e, tol), '%s: at %s, column %s: expected %s, got %s', what, AXIS[p].strftime('%m-%d'), c, e, g)


def _canon(res):
    """result -> comparable plain structure (columns sorted), NaN as the token 'nan'"""
    import pandas as pd

    def tok(v):
        v = float(v)
        return 'nan' if v != v else v
    if isinstance(res, pd.DataFrame):
        return ('f', sorted((str(c), [tok(v) for v in res[c].values]) for c in res.columns), [str(t) for t in res.index])
    if isinstance(res, pd.Series):
        return ('s', [tok(v) for v in res.values], [str(t) for t in res.index])
    return ('c', tok(res))


# ----------------------------------------------------------------------------- describing a case

def _desc_operand(o):
    if o['k'] == 'c':
        return repr(_cellv(o['v']))
    days = [AXIS[i].strftime('%d') for i in o['idx']]
    if o['k'] == 's':
        return 'Series(%s @%s)' % (o['vals'], ','.join(days))
    return 'Frame(%s %s @%s)' % (o['cols'], o['vals'], ','.join(days))


def _desc(spec, kw):
    def side(ops, as_list):
        s = ', '.join(_desc_operand(o) for o in ops)
        return '[%s]' % s if as_list else s
    a = side(spec['lhs'], spec['lhs_list'])
    if spec['rhs'] is not None:
        a += ', ' + side(spec['rhs'], spec['rhs_list'])
    k = ', '.join('%s=%r' % kv for kv in sorted(kw.items()))
    return short('%s(%s%s)' % (spec['op'], a, ', ' + k if k else ''), 700)


def _classes(all_ops, extra):
    """class labels + the non-trivial rule: partially overlapping indices with a NaN or 0 in the overlap, or differing column sets"""
    ts = [o for o in all_ops if o['k'] != 'c']
    cls = list(extra)
    cls.append('n=%i' % len(all_ops))
    partial_nz = False
    partial = disjoint = identical = False
    for i in range(len(ts)):
        for j in range(i + 1, len(ts)):
            a, b = set(ts[i]['idx']), set(ts[j]['idx'])
            if a and b and not (a & b):
                disjoint = True
            if a and a == b:
                identical = True
            if (a & b) and a != b:
                partial = True
                for o in ts:
                    for p, t in enumerate(o['idx']):
                        if t in (a & b):
                            row = o['vals'][p] if o['k'] == 'f' else [o['vals'][p]]
                            if any(v == 'nan' or v == 0 for v in row):
                                partial_nz = True
    colsets = set(frozenset(o['cols']) for o in ts if o['k'] == 'f')
    diffcols = len(colsets) > 1
    if partial:
        cls.append('partial_overlap')
    if partial_nz:
        cls.append('nan_or_0_in_overlap')
    if disjoint:
        cls.append('disjoint_indices')
    if identical:
        cls.append('identical_indices')
    if any(not o['idx'] for o in ts):
        cls.append('empty_operand')
    if diffcols:
        cls.append('differing_columns')
    if any(o['k'] == 'c' for o in all_ops):
        cls.append('scalar')
    if any(o['k'] == 'f' for o in ts) and any(o['k'] == 's' for o in ts):
        cls.append('series_with_frame')
    if any(o['dt'] == 'i' for o in ts):
        cls.append('int_dtype')
    return bool(partial_nz or diffcols), cls


# ----------------------------------------------------------------------------- sub-check: add_ sub_ mul_ div_

def run_arith(spec):
    import pyg_base
    op, join, columns = spec['op'], spec['join'], spec['columns']
    f = getattr(pyg_base, op)
    kw = dict(join=join, columns=columns)
    args, built = _args(spec)
    what = _desc(spec, kw)
    res = call(what, f, *args, **kw)
    # ---- reference
    lm = [_model(o) for o in spec['lhs']]
    rm = [] if spec['rhs'] is None else [_model(o) for o in spec['rhs']]
    flags = _Flags()
    zero_scalar_div = False
    if op in ('add_', 'mul_'):
        fn, neutral = FN[op]
        exp = m_fold(lm + rm, fn, join, columns, neutral, flags)
    else:
        inner = 'add_' if op == 'sub_' else 'mul_'
        fi, ni = FN[inner]
        A = m_fold(lm, fi, join, columns, ni, flags)
        B = m_fold(rm, fi, join, columns, ni, flags)
        fn, neutral = FN[op]
        exp = m_bin(A, B, fn, join, columns, neutral, flags)
        zero_scalar_div = op == 'div_' and B[0] == 'c' and B[1] == 0
    compare(res, exp, what, tol=1e-12 if op == 'div_' else None, no_inf=(op == 'div_'), nan_scalar_ok=zero_scalar_div)
    # ---- commutativity of the binary form
    extra = ['op=' + op, 'form=' + spec['form'], 'join=' + join, 'columns=' + columns]
    if op in ('add_', 'mul_') and spec['form'] == 'bin':
        res2 = call('swapped operands of ' + what, f, args[1], args[0], **kw)
        c1, c2 = _canon(res), _canon(res2)
        check(c1 == c2, '%s is not commutative: %s but with the operands swapped %s', what, c1, c2)
        extra.append('commutativity_checked')
    all_ops = spec['lhs'] + (spec['rhs'] or [])
    nt, cls = _classes(all_ops, extra)
    if flags.narrow_intermediate:
        cls.append('narrow_intermediate')      # never generated (see KNOWN); reachable through a hand-written replay only
    if op == 'div_':
        zero = _has_zero_divisor(B)
        if zero:
            cls.append('zero_divisor_cell')
        if zero_scalar_div:
            cls.append('zero_scalar_divisor')
    if exp[0] == 'f' and not exp[1]:
        cls.append('no_common_column')
    if columns == 'oj' and 'differing_columns' in cls:
        cls.append('neutral_element_used')
    return dict(nt=nt, cls=cls)


def _has_zero_divisor(B):
    if B[0] == 'c':
        return B[1] == 0
    if B[0] == 's':
        return any(v == 0 for v in B[1].values())
    return any(v == 0 for row in B[2].values() for v in row.values())


# ----------------------------------------------------------------------------- sub-check: pow_ and comparisons

def run_cmp_pow(spec):
    import pyg_base
    op, join, columns = spec['op'], spec['join'], spec['columns']
    f = getattr(pyg_base, op)
    kw = dict(join=join, columns=columns)
    s2 = dict(op=op, lhs=[spec['a']], rhs=[spec['b']], lhs_list=False, rhs_list=False)
    args, built = _args(s2)
    what = _desc(s2, kw)
    res = call(what, f, *args, **kw)
    fn, neutral = FN[op]
    exp = m_bin(_model(spec['a']), _model(spec['b']), fn, join, columns, neutral)
    compare(res, exp, what, tol=1e-12 if op == 'pow_' else None)
    nt, cls = _classes([spec['a'], spec['b']], ['op=' + op, 'join=' + join, 'columns=' + columns])
    if op != 'pow_':
        outcomes = set()
        for v in (exp[1].values() if exp[0] == 's' else [x for row in exp[2].values() for x in row.values()] if exp[0] == 'f' else []):
            if v is not ANY:
                outcomes.add(bool(v))
        if len(outcomes) == 2:
            cls.append('both_outcomes')
    return dict(nt=nt, cls=cls)


# ----------------------------------------------------------------------------- sub-check: min_ max_

def run_minmax(spec):
    import pyg_base
    op, join, columns = spec['op'], spec['join'], spec['columns']
    f = getattr(pyg_base, op)
    kw = dict(join=join, columns=columns)
    args, built = _args(spec)
    what = _desc(spec, kw)
    res = call(what, f, *args, **kw)
    ms = [_model(o) for o in spec['lhs'] + (spec['rhs'] or [])]
    fn, neutral = FN[op]
    # min_/max_ align all operands at once: index = intersection/union over all timeseries, then fold
    exp = m_fold(ms, fn, join, columns, neutral)
    compare(res, exp, what)
    nt, cls = _classes(spec['lhs'] + (spec['rhs'] or []), ['op=' + op, 'form=' + spec['form'], 'join=' + join, 'columns=' + columns])
    return dict(nt=nt, cls=cls)


# ----------------------------------------------------------------------------- sub-check: df_sum df_mean df_count

def run_agg(spec):
    import pyg_base
    op = spec['op']
    f = getattr(pyg_base, op)
    args, built = _args(spec)
    what = _desc(spec, {})
    res = call(what, f, *args)
    ops = spec['lhs'] + (spec['rhs'] or [])
    ms = [_model(o) for o in ops]
    index = sorted(set(t for m in ms for t in m[-1]))
    frames = ms[0][0] == 'f'
    cols = sorted(set(c for m in ms for c in m[1])) if frames else [None]

    def agg(t, c):
        vals = []
        for m in ms:
            if frames:
                row = m[2].get(t)
                v = NAN if (row is None or c not in row) else row[c]
            else:
                v = m[1].get(t, NAN)
            if not _isnan(v):
                vals.append(v)
        n = len(vals)
        if op == 'df_count':
            return n
        if n == 0:
            return NAN
        s = 0.0
        for v in vals:
            s = s + v
        return s if op == 'df_sum' else s / n
    if frames:
        exp = ('f', cols, {t: {c: agg(t, c) for c in cols} for t in index})
    else:
        exp = ('s', {t: agg(t, None) for t in index})
    compare(res, exp, what, tol=1e-12 if op == 'df_mean' else None)
    nt, cls = _classes(ops, ['op=' + op, 'form=' + spec['form'], 'frames' if frames else 'series'])
    cells = [v for row in exp[2].values() for v in row.values()] if frames else list(exp[1].values())
    if any((v == 0 and op == 'df_count') or _isnan(v) for v in cells):
        cls.append('cell_without_data')
    if any(not _isnan(v) and not (op == 'df_count' and v == 0) for v in cells):
        cls.append('cell_with_data')
    # a cell where some operands are NaN / absent and others have data: the NaN-skipping itself
    return dict(nt=nt, cls=cls)


# ----------------------------------------------------------------------------- known / excluded input classes

def _narrow_intermediate(spec):
    """
    a list reduction under columns='ij' in which an intermediate result with fewer than two columns is consumed by a further step:
    the library then treats the one-column intermediate as a "pseudo-series" (column name ignored, broadcast over the columns of
    the next operand) and a column-less intermediate as an empty Series, so the result depends on the order of the operands.
    """
    if spec.get('columns') != 'ij' or 'lhs' not in spec:
        return False

    def fold_cols(ops):
        cur, hit = None, False
        for o in ops:
            if cur is not None and len(cur) < 2:
                hit = True
            if o['k'] == 'f':
                cur = set(o['cols']) if cur is None else cur & set(o['cols'])
        return cur, hit
    lhs, rhs = spec['lhs'], spec['rhs'] or []
    if spec['op'] in ('add_', 'mul_'):
        return fold_cols(lhs + rhs)[1]
    (cl, hl), (cr, hr) = fold_cols(lhs), fold_cols(rhs)
    return hl or hr or (cl is not None and len(cl) < 2) or (cr is not None and len(cr) < 2)


KNOWN = {'narrow_intermediate': _narrow_intermediate}


SUBS = [
    Sub('arith', lambda tier: _arith_case(), run_arith, quick=2400, thorough=20000,
        rule='add_/sub_/mul_/div_ on 2-4 operands (float/int Series, 2-3 column frames over {a,b,c,d}, scalars incl. 0 and NaN) on a 12-day axis; '
             'index policies ij/oj x column policies ij/oj; forms op(a,b), op([..]), op([..],[..]); oracle: per-timestamp dictionary model folded left to right, '
             'neutral element for one-sided columns, zero divisor -> NaN and no inf, op(a,b)==op(b,a) for add_/mul_. '
             'non-trivial = partially overlapping indices with a NaN or 0 inside the overlap, or frames with differing column sets',
        floor=0.2, class_floors={'neutral_element_used': 0.04, 'zero_divisor_cell': 0.05, 'commutativity_checked': 0.1, 'partial_overlap': 0.2,
                                 'series_with_frame': 0.1, 'scalar': 0.15, 'empty_operand': 0.05, 'disjoint_indices': 0.05}),
    Sub('cmp_pow', lambda tier: _cmp_case(), run_cmp_pow, quick=1200, thorough=10000,
        rule='pow_ (exponents 0..3, 0.5, NaN) and gt_/ge_/lt_/le_ on two operands, same operand universe and policies; oracle: the same alignment model with '
             'math.pow / Python comparisons; cells of one-sided columns under columns=oj are not judged. non-trivial as in arith',
        floor=0.2, class_floors={'both_outcomes': 0.15, 'partial_overlap': 0.2, 'op=pow_': 0.2}),
    Sub('minmax', lambda tier: _minmax_case(), run_minmax, quick=1200, thorough=10000,
        rule='min_/max_ on 2-4 operands (Series, scalars, frames with one common column set), forms (a,b), ([..]), ([..],[..]); oracle: NaN-propagating '
             'min/max on the aligned cells. non-trivial = partially overlapping indices with a NaN or 0 inside the overlap',
        floor=0.2, class_floors={'partial_overlap': 0.25, 'series_with_frame': 0.1}),
    Sub('agg', lambda tier: _agg_case(), run_agg, quick=1200, thorough=10000,
        rule='df_sum/df_mean/df_count on 2-4 Series or 2-4 multi-column frames (column sets may differ), default policies; oracle: union index, '
             'sum/mean over the non-NaN operands, count of them, NaN (count 0) where none. non-trivial as in arith',
        floor=0.3, class_floors={'cell_without_data': 0.3, 'cell_with_data': 0.5, 'differing_columns': 0.1}),
]
