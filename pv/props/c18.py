# -*- coding: utf-8 -*-
"""
C18 - decorators are transparent: same results, same signature, no double wrapping;
      getcallargs / call_with_callargs agree with python's own binding; cache evaluates once per key;
      try_* fall back exactly when f raises; kwargs_support ignores exactly the undeclared keywords.

Functions under decoration are generated as source and exec-ed (0-4 positional parameters a,b,c,d, any number of
trailing defaults 'Da'..'Dd', with/without *va and **vk). Their body reports everything it received, so any
mis-binding is visible in the result, and raises when a received string starts with '!'.

Three independent oracles are used: (1) a binding model written here (model_bind), (2) the direct call f(*a, **k),
(3) inspect.getcallargs / inspect.getfullargspec.  (1) and (2)/(3) must agree or the harness is broken (exit 2).

Round-4 generalisation (bug classes 11-20 of tools/BUILDER_BRIEF.md): sub-check `session` (several calls on ONE wrapper whose argument lists are
prefixes / extensions / permutations of one another, the caller's argument containers built once), sessions in try_fallback, one decorator object on
two functions, getcallargs' dict handed to call_with_callargs twice, container defaults, pd2np(exc=..), sequences as fallback values, dicts keyed by
numbers only, undeclared keywords travelling with a raising call. INCLUDE_MIXED_KEY_DICTS guards a genuine defect (see ASSUMPTIONS).

Round-5/6 generalisation (bug classes 21-29): 26 a parameter's own default passed explicitly (twin call under every cache layer, session kind 'explicit_default'),
27 float arguments and their neighbours within rtol 1e-5 / atol 1e-8 as distinct cache keys, 28 the caller's own in-place edit of a shared argument object between two calls
of a session, 29 label for try_back falling back to a falsy first argument. 21-25 do not apply (no dates, nothing tabulated, no renames, no objects rebuilt from text, no arrays).

Round-7 generalisation (bug classes 30-40; 36 and 34 looked at): 36 the FORM of f - functions carrying __wrapped__ (the outer function of a functools.wraps decorator whose inner function has
another signature), functools.partial objects, functions with no parameter at all (s_sig: keys 'wraps' / 'partial' of the signature spec, labels form_labels) in every hypothesis sub-check;
34 `large` gives one cached function 400 / 1000 / 2000 distinct argument combinations, then all of them again (the early ones first, or rotated).
"""
import copy
import functools
import inspect
import itertools
import json
import os

from hypothesis import strategies as st

from pv.core import Sub, EnumSub, MachineSub, HarnessError, call, call_or, must_raise, check, short
from pv.codec import build

ASSUMPTIONS = [
    'parameter names are a,b,c,d (or a,ab,abc,abcd: prefixes of one another), *va, **vk; extra / undeclared keywords x,y,z, b,bc,abcde,a_,v, '
    'function,value,exc,cache,types,repeat (spelled like wrapper / getcallargs parameters), k000..k299 (never "axis": loops pops an "axis" keyword by design, never "self")',
    'a keyword named "function" is an ordinary keyword for **vk functions, also in direct getcallargs / call_with_callargs calls (finding F20, '
    'fixed: getcallargs takes the function positionally, as inspect.getcallargs does); replay replays/C18/F20-*.json',
    'defaults are the strings Da..Dd, or None/0/\'\'/False, or containers (a fifth of the signatures with defaults: tuple as long as the parameter list, list as long as the defaults, '
    'dict keyed like the parameters / like extra keywords, empty tuple / list / dict, one element), or (same_code) drawn from None,0,1,\'\',D,E,False,[],[1],(1,2),{a:1},()',
    'in sessions and in same_code histories a parameter whose default is False is never passed the int 0 (the generator writes 5 instead): 0 and False are one dict key (see below), '
    'and call_with_callargs passes the default positionally, so under a cache layer f(.., 0) and call_with_callargs for a call relying on the default False would share one entry',
    'no keyword-only parameters and no annotations: the statement and its quantifier list positional parameters, trailing defaults, *args and **kwargs '
    '(call_with_callargs does not pass keyword-only parameters on)',
    'argument values: ints (no bools), non-integral floats (0.5, 2.5, -1.5, 1234.5678, 1e-9, 3e-9, -7e-10, 2.5e-9 and their neighbours within rtol 1e-5 / atol 1e-8 - distinct arguments; the former "no floats" restriction is lifted, '
    'integral floats stay out because of 1 / 1.0), strings, None, lists / tuples of ints, dicts str->int, one level of nesting, dicts keyed by numbers only ({1:1,2:2}, {2**53+1:1, 2.0**53:2}, {-1:1,-2:2,0:3}) - '
    'a universe on which "distinct combination of arguments" is unambiguous: no 1/1.0/True (one dict key in python, documented as not-a-defect in DESIGN section 4), no numpy scalars, no NaN, no sets; '
    'ints include -1, -2 and n + 2**61-1, whose python hashes collide but which are distinct values; since fix F27 a list, a tuple and a dict of the same content ([] / () / {}) '
    'are distinct arguments and ARE paired in cached histories (the former restriction is lifted)',
    'finding F34 (fixed in /repo, replay replays/C18/F34-*.json; the class is generated by default, left out only with PV_C18_EXCLUDE_FIXED=1): a dict argument whose keys cannot be ordered among themselves ({1: "a", "b": 2}, {None: 1, "k": 2}) '
    'written in another insertion order is the same argument, but cache(f) evaluates f again: _cache._items falls back to the insertion order when sorted() raises TypeError (src/pyg_base/_cache.py:7-11)',
    'a cache layer is held to "as passed" counts only where it sees the arguments as passed: in sessions with a loops layer above the cache layer (loops hands the first argument on positionally) '
    'results are checked but evaluations are not counted; under any cache layer a repeated combination returns the FIRST result, i.e. the report with the extra keywords in the order of the first call',
    'pd2np(exc = ..) names declared parameters, a name that is never passed, or the only extra keyword of a call: excluded keywords are handed on after the others by design, '
    'which would change the order in which two extra keywords reach **vk (the order is part of what f reports)',
    'sessions with shared argument objects judge later calls by the ORIGINAL content of the containers; the statement does not say that arguments stay unchanged, so nothing else is asserted about them; '
    'where the CALLER edits a shared list / dict in place between two calls (spec["edits"]) the later calls are judged by the content the caller gave it, and f reports copies of what it received '
    '(a cached first result would otherwise alias the object the caller goes on editing)',
    'a parameter\'s own default passed explicitly is "another combination of arguments as passed" for a cache layer (the statement counts combinations as passed, not bindings); defaults that are bools are never passed explicitly (False / 0)',
    'loop(list,tuple,dict) is judged only on calls whose first argument (first positional, else the first declared parameter by keyword) '
    'is not a list/tuple/dict ("loops on non-container input"); a first parameter left to a list default counts as a container, '
    'because call_with_callargs passes defaults positionally',
    'pd2np is judged only on calls that supply the first argument (positionally or as the first declared parameter by keyword): '
    'pd2np/getcallarg need it by design; values are never pandas/numpy objects ("pd2np on non-pandas input")',
    'try_back fallback is judged only on calls that supply the first argument (it returns "the first argument")',
    'kwargs_support on a function that already has **vk is judged only on calls without undeclared keywords (documented in kwpartial)',
    'exceptions raised by f are subclasses of Exception (not KeyboardInterrupt/SystemExit)',
    'cache is judged with a non-raising f (statement); histories call plain cache(f) / cache(cache(f)) wrappers, never clear_cache',
    'stacks are built bottom-up by the library itself, so a stack never holds two layers of one class (try_none..try_list are one class)',
    'bug class 36, the FORM of f: 2 in 24 signatures belong to the OUTER function of a functools.wraps decorator, which carries __wrapped__ = an inner function with ANOTHER signature (a leading parameter more, '
    'parameters renamed / reversed, another number of defaults, more named parameters and no *va / **vk). Python binds a call to the outer signature (inspect.getfullargspec and inspect.getcallargs do not follow '
    '__wrapped__; only inspect.signature does), so "f\'s argument specification" is the outer one and every oracle (binding model, direct call, inspect) is taken from it; the inner function is never to be called',
    '1 in 24 signatures belong to a functools.partial object that supplies 1-2 LEADING POSITIONAL arguments of a function with that many parameters more (keywords bound by a partial would turn the remaining parameters '
    'keyword-only, which are outside the quantifier). inspect.getcallargs refuses partial objects (it reads f.__name__), so there the binding model alone states what python binds; the library works on copies of the function '
    'it is given and python compares partial objects by identity, so for partial objects "ends in f" means a partial of the same function and arguments and W(W(f)) == W(f) is not asked (layers, parameters, results are)',
    'rewrap: with REWRAP_DEEP = True (the wrapper.__init__ defect F12 is fixed) the class that is wrapped again may sit at any depth of the stack',
]

NAMES = ['a', 'b', 'c', 'd']
NESTED = ['a', 'ab', 'abc', 'abcd']          # naming scheme 1: every name is a prefix of the next
EXTRA_KW = ['x', 'y', 'z']
# keywords for **vk that are spelled like parameters of the wrappers themselves
# and like the first parameter of getcallargs / call_with_callargs themselves ('function', finding F20)
WRAPPER_WORDS = ['function', 'value', 'exc', 'cache', 'types', 'repeat']
# undeclared / extra keywords for naming scheme 1: sub-, super- and near-strings of the declared names
NESTED_EXTRA = ['b', 'bc', 'abcde', 'a_', 'v', 'x']
FALSY_DEFAULTS = [None, 0, '', False]

# ----------------------------------------------------------------------------- generated functions


class Told(Exception):
    """custom exception class f can be told to raise"""


EXC = {'ValueError': ValueError, 'KeyError': KeyError, 'TypeError': TypeError, 'ZeroDivisionError': ZeroDivisionError,
       'IndexError': IndexError, 'AttributeError': AttributeError, 'RuntimeError': RuntimeError, 'AssertionError': AssertionError,
       'OSError': OSError, 'StopIteration': StopIteration, 'Told': Told, 'Exception': Exception}


EXC_ARGS = {'': ('f was told to raise',), '0': (), '2': (2, 'f was told to raise'), '3': ('f', 'was', 'told'), 'p': ('100%s of %d %(x)s',), 't': (('a', 'tuple'),)}


def _exception(told):
    """'!ValueError' or '!ValueError:2' -> the exception instance f raises; the suffix picks its args (none, one message, 2-3 args as OSError(errno, text)
    has, a message with % signs, one tuple)"""
    name, _, shape = told[1:].partition(':')
    return EXC[name](*EXC_ARGS[shape])


def _sig(s):
    n, d, va, vk = int(s['n']), int(s['d']), bool(s['va']), bool(s['vk'])
    if not (0 <= n <= 4 and 0 <= d <= n):
        raise HarnessError('bad signature spec %r' % (s,))
    return n, d, va, vk


def pnames(s):
    """names of the declared parameters; s['nm'] = 1 selects the scheme in which every name is a prefix of the next"""
    return (NESTED if s.get('nm') else NAMES)[:_sig(s)[0]]


def extra_names(s):
    """keywords a **vk function may additionally be given / a function without **vk does not declare"""
    return NESTED_EXTRA if s.get('nm') else EXTRA_KW


def default_spec(s, i):
    """
    value spec of the default of parameter i: s['dvals'] (one value per defaulted parameter) if present, else None / 0 / '' / False
    when s['dv'] = 1, else the string 'D<name>'
    """
    n, d, va, vk = _sig(s)
    if i < n - d:
        raise HarnessError('parameter %i has no default' % i)
    if 'dvals' in s:
        return s['dvals'][i - (n - d)]
    if s.get('dv'):
        return FALSY_DEFAULTS[i]
    return 'D' + pnames(s)[i]


def sig_text(s):
    n, d, va, vk = _sig(s)
    nms = pnames(s)
    ps = [nms[i] if i < n - d else "%s=%r" % (nms[i], build(default_spec(s, i))) for i in range(n)]
    if va:
        ps.append('*va')
    if vk:
        ps.append('**vk')
    return ', '.join(ps)


FALSY = [None, 0, False, '', ['list', []], ['dict', []]]


def by_first(res):
    """
    return mode 'by_first': what f returns is decided by the first value it received (declared parameters first, then *va, then
    **vk by sorted name): None -> None, 0 -> 0 / False (odd / even number of received values), 'a' -> '', a list -> [], a dict -> {},
    anything else -> the full report. Evaluations are counted through `log`, never through the result.
    """
    vk = res['vk'] or {}
    vals = [v for _, v in res['p']] + list(res['va'] or ()) + [vk[k] for k in sorted(vk)]
    if not vals:
        return res
    sel = vals[0]
    if sel is None:
        return None
    if isinstance(sel, bool):
        return res
    if isinstance(sel, int) and sel == 0:
        return 0 if len(vals) % 2 else False
    if isinstance(sel, str) and sel == 'a':
        return ''
    if isinstance(sel, list):
        return []
    if isinstance(sel, dict):
        return {}
    return res          # tuples included: a tuple argument gets the full report


def apply_ret(ret, res):
    """what a generated f returns in return mode `ret` given its full report `res` (used by the body AND by the reference model)"""
    if ret is None or ret[0] == 'echo':
        return res
    if ret[0] == 'const':
        return build(ret[1])
    if ret[0] == 'by_first':
        return by_first(res)
    raise HarnessError('unknown return mode %r' % (ret,))


def ret_label(v):
    return 'None' if v is None else 'falsy:%r' % (v,) if (not isinstance(v, dict) or 'p' not in v) else 'report'


def make_fn(s, log, counter=False, ret=None, snap=False):
    """
    exec-s `def f(<signature>)`; the body appends to log (the side channel that counts evaluations), raises when told to, and returns
    all it received - or, in the return modes ['const', v] / ['by_first'], None / 0 / False / '' / [] / {} (see apply_ret)
    """
    return make_family(s, [log], [None], counter=counter, ret=ret, snap=snap)[0]


def _params_src(s, dflt):
    """parameter list in which the defaults are the expressions dflt[0], dflt[1], ... evaluated when the def / lambda is executed"""
    n, d, va, vk = _sig(s)
    nms = pnames(s)
    ps = [nms[i] if i < n - d else '%s=_dflt[%i]' % (nms[i], i - (n - d)) for i in range(n)]
    if va:
        ps.append('*va')
    if vk:
        ps.append('**vk')
    return ', '.join(ps)


def make_family(s, logs, dvals_list, form='def', counter=False, ret=None, snap=False):
    """
    functions made by ONE factory (they share one code object) with different default values and different closures (each its own log).
    dvals_list[j] = value specs of the defaults of function j (None: the defaults of s). form 'def' or 'lambda'.
    snap: the report holds copies of the lists / dicts f received (what they held at the time of the call), not the caller's objects themselves -
    needed where the caller edits its argument objects afterwards.
    """
    n, d, va, vk = _sig(s)
    nms = pnames(s)
    report = '_body(_log, [%s], %s, %s)' % (', '.join("['%s', %s]" % (nm, nm) for nm in nms), 'va' if va else 'None', 'vk' if vk else 'None')
    # s['partial'] = k: the function proper takes k leading arguments more, which functools.partial supplies; what is left is the signature s
    params = ', '.join(['_p%i' % j for j in range(int(s.get('partial') or 0))] + ([_params_src(s, None)] if _params_src(s, None) else []))
    if form == 'def':
        src = 'def factory(_log, _dflt):\n    def f(%s):\n        return %s\n    return f\n' % (params, report)
    else:
        src = 'def factory(_log, _dflt):\n    return lambda %s: %s\n' % (params, report)

    def _body(log, p, va_, vk_):
        log.append(1)
        vals = [v for _, v in p] + list(va_ or ()) + [vk_[k] for k in (vk_ or {})]
        for v in vals:
            if isinstance(v, str) and v.startswith('!'):
                raise _exception(v)
        if snap:
            p, va_, vk_ = copy.deepcopy((p, va_, vk_))
        # 'vko': the order in which the extra keywords arrived is part of what f received
        res = {'p': p, 'va': va_, 'vk': vk_, 'vko': None if vk_ is None else list(vk_)}
        if counter:
            res['n'] = len(log)
        return apply_ret(ret, res)
    ns = {'_body': _body}
    exec(src, ns)
    out = []
    for log, dvals in zip(logs, dvals_list):
        sj = s if dvals is None else dict(s, dvals=dvals)
        fn = ns['factory'](log, [build(default_spec(sj, i)) for i in range(n - d, n)])
        if s.get('wraps') and s.get('partial'):
            raise HarnessError('one form per function: %r' % (s,))
        if s.get('wraps'):
            # fn is the OUTER function of a functools.wraps decorator: it carries __wrapped__ (and the name / doc) of an inner function with another signature
            inner = make_inner(s)
            fn = functools.wraps(inner)(fn)
            if fn.__wrapped__ is not inner or inspect.getfullargspec(fn) == inspect.getfullargspec(inner):
                raise HarnessError('the inner function must have another signature: %r' % (s,))
        if s.get('partial'):
            fn = functools.partial(fn, *['P%i' % j for j in range(int(s['partial']))])
        out.append(fn)
    return out


def inner_sig_text(s):
    w = s['wraps']
    names, d = list(w['names']), int(w['d'])
    if not (0 <= d <= len(names)) or len(set(names)) != len(names):
        raise HarnessError('bad inner signature %r' % (w,))
    ps = [nm if i < len(names) - d else '%s=%r' % (nm, 'W' + nm) for i, nm in enumerate(names)]
    return ', '.join(ps + (['*va'] if w['va'] else []) + (['**vk'] if w['vk'] else []))


def make_inner(s):
    """the inner function g of a functools.wraps decorator (s['wraps'] = its kind, parameter names, number of defaults 'W<name>', *va, **vk); nobody is to call it"""
    ns = {}
    exec('def g(%s):\n    """the inner function"""\n    return [\'the INNER function was called\', sorted(locals())]\n' % inner_sig_text(s), ns)
    return ns['g']


def form_text(s):
    if s.get('wraps'):
        return ' [f carries __wrapped__: @functools.wraps(g) with g(%s), kind %s]' % (inner_sig_text(s), s['wraps']['kind'])
    if s.get('partial'):
        return ' [f = functools.partial(g, %s), g takes %s leading argument(s) more]' % (', '.join(repr('P%i' % j) for j in range(int(s['partial']))), s['partial'])
    return ''


def form_labels(s):
    """class labels of the function's form (bug class 36)"""
    n, d, va, vk = _sig(s)
    out = []
    if s.get('wraps'):
        out += ['wrapped_function_with_another_signature', 'wraps:' + s['wraps']['kind']]
    if s.get('partial'):
        out.append('partial_object')
    if n == 0 and not va and not vk:
        out.append('no_parameter_at_all')
    if n == 0:
        out.append('no_named_parameter')
    return out


def same_function(g, f):
    """g is f - or, for functools.partial objects (the library works on copies; python compares partial objects by identity), a partial of the same function and arguments"""
    if g is f:
        return True
    return isinstance(f, functools.partial) and isinstance(g, functools.partial) and g.func is f.func and g.args == f.args and g.keywords == f.keywords


def model_bind(s, args, kwargs):
    """
    reference binding, plain python: returns (result f must report, callargs dict, n keyword-bound, n defaults relied on)
    or None when the call is not valid for the signature. `kwargs` is a list of [name, value].
    """
    n, d, va, vk = _sig(s)
    names = pnames(s)
    if len(args) > n and not va:
        return None
    bound = {}
    for i, v in enumerate(args[:n]):
        bound[names[i]] = v
    extra = {}
    nkw = 0
    seen = set()
    for k, v in kwargs:
        if k in seen:
            return None
        seen.add(k)
        if k in names:
            if k in bound:
                return None
            bound[k] = v
            nkw += 1
        elif vk:
            extra[k] = v
        else:
            return None
    ndef = 0
    for i, nm in enumerate(names):
        if nm not in bound:
            if i < n - d:
                return None
            bound[nm] = default_spec(s, i)
            ndef += 1
    res = {'p': [[nm, bound[nm]] for nm in names], 'va': tuple(args[n:]) if va else None, 'vk': extra if vk else None,
           'vko': list(extra) if vk else None}
    callargs = dict(bound)
    if va:
        callargs['va'] = tuple(args[n:])
    if vk:
        callargs['vk'] = dict(extra)
    return res, callargs, nkw, ndef


def same(x, y):
    """type-strict deep equality (1 != 1.0 != True, list != tuple), NaN equal to NaN"""
    if type(x) is not type(y):
        return False
    if isinstance(x, (list, tuple)):
        return len(x) == len(y) and all(same(a, b) for a, b in zip(x, y))
    if isinstance(x, dict):
        # keys are compared type-strictly too and need not be sortable (1 and 'b' in one dict)
        return len(x) == len(y) and set((type(k).__name__, k) for k in x) == set((type(k).__name__, k) for k in y) and all(same(x[k], y[k]) for k in x)
    if isinstance(x, float):
        return x == y or (x != x and y != y)
    return x == y


def bvals(args, kwargs):
    """fresh real objects for one call (every call gets its own lists / dicts)"""
    return [build(v) for v in args], {k: build(v) for k, v in kwargs}


def is_container_spec(v):
    return isinstance(v, list)


# genuine defect (see ASSUMPTIONS): a dict argument whose keys cannot be ordered (1 and 'b', None and 'k') is keyed by insertion order
INCLUDE_MIXED_KEY_DICTS = os.environ.get('PV_C18_EXCLUDE_FIXED', '') != '1'      # F34, fixed in /repo: generated by default

# dict arguments whose keys are numbers only (an int beyond 2**53 next to the float it rounds to; -1 / -2), and - behind the switch - keys of mixed types
NUMBER_KEYED = [['dict', [[1, 1], [2, 2]]], ['dict', [[2 ** 53 + 1, 1], [float(2 ** 53), 2]]], ['dict', [[-1, 1], [-2, 2], [0, 3]]], ['dict', [[3, 0]]]]
MIXED_KEYED = [['dict', [[1, 'a'], ['b', 2]]], ['dict', [[None, 1], ['k', 2]]]]


def ksorted(pairs):
    """(key, x) pairs in a canonical order that does not need the keys to be comparable with one another"""
    return sorted(pairs, key=lambda kv: (type(kv[0]).__name__, repr(kv[0])))


def reordered(v):
    """the same dict written in the reverse insertion order (the SAME argument), None if v is not a dict of >= 2 items"""
    if _is_tagged(v, 'dict') and len(v[1]) >= 2:
        return ['dict', [list(kv) for kv in v[1][::-1]]]
    return None


def number_keyed(v):
    return _is_tagged(v, 'dict') and len(v[1]) > 0 and all(isinstance(k, (int, float)) for k, _ in v[1])


M61 = 2 ** 61 - 1     # CPython: hash(n) == hash(n + k * M61) for ints, and hash(-1) == hash(-2)


def hash_twin(v):
    """a DIFFERENT value spec whose python hash (after list -> tuple normalisation) equals that of v, or None if v holds no int"""
    if isinstance(v, bool):
        return None
    if isinstance(v, int):
        return -2 if v == -1 else -1 if v == -2 else v + M61 if v >= 0 else v - M61
    if isinstance(v, list) and v[0] in ('list', 'tuple'):
        for i, x in enumerate(v[1]):
            t = hash_twin(x)
            if t is not None:
                return [v[0], v[1][:i] + [t] + v[1][i + 1:]]
    if isinstance(v, list) and v[0] == 'dict':
        for i, (k, x) in enumerate(v[1]):
            t = hash_twin(x)
            if t is not None:
                return ['dict', [list(kv) for kv in v[1][:i]] + [[k, t]] + [list(kv) for kv in v[1][i + 1:]]]
    return None


def _is_tagged(v, *tags):
    return isinstance(v, list) and len(v) == 2 and v[0] in (tags or ('list', 'tuple', 'dict'))


def shape_twin(v):
    """a container of another type with the same content: list <-> tuple, dict -> list of (key, value) pairs; None for scalars"""
    if _is_tagged(v, 'list'):
        return ['tuple', v[1]]
    if _is_tagged(v, 'tuple'):
        return ['list', v[1]]
    if _is_tagged(v, 'dict'):
        return ['list', [['tuple', [k, x]] for k, x in v[1]]]
    return None


def nested_twin(v):
    """the same container with the first container INSIDE it replaced by its shape twin; None if there is none"""
    if _is_tagged(v, 'list', 'tuple'):
        for i, x in enumerate(v[1]):
            t = shape_twin(x)
            if t is not None:
                return [v[0], v[1][:i] + [t] + v[1][i + 1:]]
    if _is_tagged(v, 'dict'):
        for i, (k, x) in enumerate(v[1]):
            t = shape_twin(x)
            if t is not None:
                return ['dict', [list(kv) for kv in v[1][:i]] + [[k, t]] + [list(kv) for kv in v[1][i + 1:]]]
    return None


FLOATS = [0.5, 2.5, -1.5, 1234.5678, 1e-9, 3e-9, -7e-10, 2.5e-9]     # never integral: 1 / 1.0 / True stay out of the universe


def tolerance_twin(v):
    """
    a DIFFERENT float within the usual tolerances of v (np.isclose: rtol 1e-5, atol 1e-8): a weight of order 1e-9 moved by 1e-9, anything else by a
    tenth of a millionth of itself; also inside a list / tuple / dict. None if v holds no float
    """
    if isinstance(v, float):
        t = v + 1e-9 if abs(v) < 1e-8 else v * (1 + 1e-7)
        if t == v or abs(t - v) > 1e-8 + 1e-5 * abs(v):
            raise HarnessError('no near twin for %r' % (v,))
        return t
    if _is_tagged(v, 'list', 'tuple'):
        for i, x in enumerate(v[1]):
            t = tolerance_twin(x)
            if t is not None:
                return [v[0], v[1][:i] + [t] + v[1][i + 1:]]
    if _is_tagged(v, 'dict'):
        for i, (k, x) in enumerate(v[1]):
            t = tolerance_twin(x)
            if t is not None:
                return ['dict', [list(kv) for kv in v[1][:i]] + [[k, t]] + [list(kv) for kv in v[1][i + 1:]]]
    return None


def holds_float(v):
    return tolerance_twin(v) is not None


def explicit_default_call(s, args, kwargs, positional=False):
    """
    the valid call (args, kwargs) with the first default it relies on passed explicitly - the parameter's OWN default value, by keyword (appended) or, where it
    is the next positional parameter and `positional`, by position: the same binding, but another combination of arguments as passed.
    Defaults that are bools are left alone (False / 0 are one dict key in python, see ASSUMPTIONS). None if there is no such default.
    """
    n, d, va, vk = _sig(s)
    names = pnames(s)
    given = set(names[:len(args)]) | set(k for k, _ in kwargs)
    for i in range(n - d, n):
        if names[i] not in given and not isinstance(default_spec(s, i), bool):
            v = default_spec(s, i)
            if positional and i == len(args):
                return list(args) + [v], [list(kv) for kv in kwargs], 'positional'
            return list(args), [list(kv) for kv in kwargs] + [[names[i], v]], 'keyword'
    return None


def unzero(sigs, args, kwargs):
    """
    the call with the int 0 replaced by 5 wherever it is passed for a parameter whose default (in any of the signatures sigs) is False: 0 and False are one
    dict key in python (ASSUMPTIONS), and call_with_callargs passes defaults positionally, so f(.., 0) and f(.., False) would meet in one cache
    """
    s = sigs[0]
    n, d, va, vk = _sig(s)
    names = pnames(s)
    hot = [i for i in range(n - d, n) if any(isinstance(default_spec(sj, i), bool) for sj in sigs)]

    def fix(v):
        return 5 if isinstance(v, int) and not isinstance(v, bool) and v == 0 else v
    args = [fix(v) if i in hot else v for i, v in enumerate(args)]
    kwargs = [[k, fix(v) if (k in names and names.index(k) in hot) else v] for k, v in kwargs]
    return args, kwargs


def drop_default(s, args, kwargs, keep_first=False):
    """the valid call (args, kwargs) with one supplied parameter that has a (non-bool) default left to that default; None if there is none"""
    n, d, va, vk = _sig(s)
    names = pnames(s)

    def droppable(i):
        return n - d <= i < n and not isinstance(default_spec(s, i), bool) and not (keep_first and i == 0)
    for j in range(len(kwargs) - 1, -1, -1):
        if kwargs[j][0] in names and droppable(names.index(kwargs[j][0])):
            return list(args), [list(kv) for kv in kwargs[:j] + kwargs[j + 1:]]
    if 0 < len(args) <= n and droppable(len(args) - 1):
        return list(args[:-1]), [list(kv) for kv in kwargs]
    return None


def edited(v, x):
    """(value spec after the edit, key written or None) for the in-place edit of a list (x appended) or a dict (one new key set to x; a number for dicts keyed by numbers)"""
    if _is_tagged(v, 'list'):
        return ['list', list(v[1]) + [x]], None
    if _is_tagged(v, 'dict'):
        key = 99 if number_keyed(v) else 'zz'
        while any(k == key for k, _ in v[1]):
            key = key + 1 if isinstance(key, int) else key + 'z'
        return ['dict', [list(kv) for kv in v[1]] + [[key, x]]], key
    raise HarnessError('only lists and dicts can be edited in place: %r' % (v,))


def _twin_call(fn, args, kwargs):
    for i, v in enumerate(args):
        t = fn(v)
        if t is not None:
            return args[:i] + [t] + args[i + 1:], kwargs, v, 'positional'
    for i, (k, v) in enumerate(kwargs):
        t = fn(v)
        if t is not None:
            return args, [list(kv) for kv in kwargs[:i]] + [[k, t]] + [list(kv) for kv in kwargs[i + 1:]], v, 'keyword'
    return None


def twin_label(v, kind):
    if kind == 'nested':
        return 'nested_container_twin'
    if _is_tagged(v) and len(v[1]) == 0:
        return 'empty_container_twins'
    return 'dict_vs_pairs_twin' if _is_tagged(v, 'dict') else 'list_tuple_twin'


def check_twin_calls(what, w, s, args, kwargs, ret, log, n0, evals, cls):
    """
    under a cache layer, after the call (args, kwargs) has been made: calls that are DISTINCT argument combinations but look alike -
    equal python hash (-1/-2, n/n+2**61-1), or the same content in a container of another type ([] / () / {}, [1,2] / (1,2),
    {'a':1} / [('a',1)], also one level down). Each must be evaluated on its own and return its own result.
    """
    first = call_text(s, args, kwargs)
    for kind, fn in (('hash', hash_twin), ('shape', shape_twin), ('nested', nested_twin), ('tolerance', tolerance_twin)):
        tw = _twin_call(fn, args, kwargs)
        if tw is None:
            continue
        targs, tkwargs, v, where = tw
        texp = apply_ret(ret, expected(s, targs, tkwargs)[0])
        a, k = bvals(targs, tkwargs)
        r = call('%s for %s' % (what, call_text(s, targs, tkwargs)), w, *a, **k)
        evals += 1
        check(len(log) - n0 == evals, '%s for %s, called after %s: a distinct argument combination (%s distinct so far), but f was evaluated %s times in all',
              what, call_text(s, targs, tkwargs), first, evals, len(log) - n0)
        check(same(r, texp), '%s for %s (called after %s) returned %s, f returns %s', what, call_text(s, targs, tkwargs), first, r, texp)
        if kind == 'hash':
            cls.append('hash_colliding_arguments')
            cls.append('hash_colliding:' + ('nested' if _is_tagged(v) else where))
        elif kind == 'tolerance':
            cls.append('float_arguments_within_tolerance')
            cls.append('within_tolerance:' + ('nested' if _is_tagged(v) else where))
            if isinstance(v, float) and abs(v) < 1e-8:
                cls.append('within_tolerance:of_order_1e-9')
        else:
            cls.append('container_twin_arguments')
            cls.append(twin_label(v, kind))
            cls.append('container_twin:' + where)
    ed = explicit_default_call(s, args, kwargs, positional=(len(args) + len(kwargs)) % 2 == 0)
    if ed is not None:
        # a default the call relied on, now passed explicitly: the same binding (the same report), another combination of arguments as passed
        targs, tkwargs, how = ed
        texp = apply_ret(ret, expected(s, targs, tkwargs)[0])
        a, k = bvals(targs, tkwargs)
        r = call('%s for %s' % (what, call_text(s, targs, tkwargs)), w, *a, **k)
        evals += 1
        check(len(log) - n0 == evals, '%s for %s, called after %s: a parameter\'s own default passed explicitly is another combination of arguments as passed (%s distinct so far), but f was evaluated %s times in all',
              what, call_text(s, targs, tkwargs), first, evals, len(log) - n0)
        check(same(r, texp), '%s for %s (called after %s) returned %s, f returns %s', what, call_text(s, targs, tkwargs), first, r, texp)
        cls.append('own_default_passed_explicitly')
        cls.append('own_default_passed_explicitly:' + how)
    if any(reordered(v) is not None for v in list(args) + [v for _, v in kwargs]):
        # every dict argument written in the reverse insertion order: the same arguments
        rargs = [reordered(v) or v for v in args]
        rkwargs = [[k, reordered(v) or v] for k, v in kwargs]
        rexp = apply_ret(ret, expected(s, args, kwargs)[0])
        a, k = bvals(rargs, rkwargs)
        r = call('%s for %s' % (what, call_text(s, rargs, rkwargs)), w, *a, **k)
        check(len(log) - n0 == evals, '%s for %s, called after %s: the same arguments (a dict written in another insertion order), but f was evaluated again (%s evaluations for %s distinct argument combinations)',
              what, call_text(s, rargs, rkwargs), first, len(log) - n0, evals)
        check(same(r, rexp), '%s for %s (called after %s) returned %s, the first result was %s', what, call_text(s, rargs, rkwargs), first, r, rexp)
        cls.append('dict_argument_in_other_insertion_order')
        if any(number_keyed(v) and reordered(v) is not None for v in list(args) + [v for _, v in kwargs]):
            cls.append('number_keyed_dict_in_other_insertion_order')
        if any(v in MIXED_KEYED for v in list(args) + [v for _, v in kwargs]):
            cls.append('mixed_key_dict_in_other_insertion_order')
    return evals


def hash_twin_call(args, kwargs):
    """the call with the first int-holding argument replaced by its hash twin: a distinct argument combination with (most likely) the same hash"""
    for i, v in enumerate(args):
        t = hash_twin(v)
        if t is not None:
            return args[:i] + [t] + args[i + 1:], kwargs, 'positional' if not isinstance(v, list) else 'nested'
    for i, (k, v) in enumerate(kwargs):
        t = hash_twin(v)
        if t is not None:
            return args, [list(kv) for kv in kwargs[:i]] + [[k, t]] + [list(kv) for kv in kwargs[i + 1:]], 'keyword' if not isinstance(v, list) else 'nested'
    return None


def first_arg(s, args, kwargs):
    """(supplied?, value spec) of the first argument: first positional, else the first declared parameter by keyword"""
    n = _sig(s)[0]
    if len(args):
        return True, args[0]
    if n:
        for k, v in kwargs:
            if k == pnames(s)[0]:
                return True, v
    return False, None


def relied_defaults(s, args, kwargs):
    """value specs of the defaults a valid call relies on"""
    n, d, va, vk = _sig(s)
    given = set(pnames(s)[:len(args)]) | set(k for k, _ in kwargs)
    return [default_spec(s, i) for i in range(n - d, n) if pnames(s)[i] not in given]


def has_extra_kw(s, kwargs):
    return any(k not in pnames(s) for k, _ in kwargs)


def call_text(s, args, kwargs):
    return 'f(%s)%s called as (%s)' % (sig_text(s), form_text(s), ', '.join([short(build(a), 40) for a in args] + ['%s=%s' % (k, short(build(v), 40)) for k, v in kwargs]))


# ----------------------------------------------------------------------------- the decorators

TRY_VALUES = ['try_none', 'try_nan', 'try_zero', 'try_true', 'try_false', 'try_list']
DECOS = TRY_VALUES + ['try_back', 'kwargs_support', 'cache', 'loop', 'pd2np']
KLASS = dict([(nm, 'try_value') for nm in TRY_VALUES] + [('try_back', 'try_back'), ('kwargs_support', 'kwargs_support'),
                                                           ('cache', 'cache_func'), ('loop', 'loops'), ('pd2np', 'pd2np')])


def deco(name):
    import pyg_base
    from pyg_base import pd2np, cache
    if name == 'loop':
        return call('loop(list, tuple, dict)', pyg_base.loop, list, tuple, dict)
    if name == 'pd2np':
        return pd2np
    if name == 'cache':
        return cache
    return getattr(pyg_base, name)


def as_names(exc):
    return [exc] if isinstance(exc, str) else list(exc)


def fallback_of(name):
    return {'try_none': None, 'try_nan': float('nan'), 'try_zero': 0, 'try_true': True, 'try_false': False, 'try_list': []}[name]


def stack_text(stack):
    return ''.join('%s(' % nm for nm in stack) + 'f' + ')' * len(stack)


TWO_STEP = ['try_none', 'try_back', 'kwargs_support', 'pd2np']     # classes: D()(f) is the parameterised spelling of D(f)


def wrap(stack, f, decos=None, two_step=False, made=None):
    """
    stack[0] is the outermost decorator; two_step: class decorators are applied as D()(f) instead of D(f); with a dict `made` the decorator
    object D() is built once per name and the SAME object is applied wherever that name occurs (to other functions too)
    """
    w = f
    for i in range(len(stack) - 1, -1, -1):
        d = decos[stack[i]] if decos else deco(stack[i])
        if two_step and stack[i] in TWO_STEP and isinstance(d, type):
            if made is None:
                d = call('%s()' % stack[i], d)
            else:
                if stack[i] not in made:
                    made[stack[i]] = call('%s()' % stack[i], d)
                d = made[stack[i]]
        w = call('%s' % stack_text(stack[i:]), d, w)
    return w


def admissible(name, s, args, kwargs):
    """may decorator `name` sit in a stack judged on this (valid) call? - the domain notes of ASSUMPTIONS"""
    if name == 'loop':
        ok, v = first_arg(s, args, kwargs)
        n, d, va, vk = _sig(s)
        if not ok and n and d == n:
            # left to its default: call_with_callargs passes the default positionally, so it is the first argument there
            v = default_spec(s, 0)
        return not is_container_spec(v)
    if name == 'pd2np':
        return first_arg(s, args, kwargs)[0]
    if name == 'kwargs_support':
        return not (_sig(s)[3] and has_extra_kw(s, kwargs))
    return True


def layers(w):
    """[(class name, parameters)] from the outside in, and the innermost non-wrapper; reads the wrapper as the plain dict it is"""
    from pyg_base import wrapper
    out = []
    while isinstance(w, wrapper):
        out.append((type(w).__name__, {k: v for k, v in dict.items(w) if k not in ('function', 'function_fullargspec')}))
        w = dict.get(w, 'function')
    return out, w


SPEC_FIELDS = ['args', 'varargs', 'varkw', 'defaults', 'kwonlyargs', 'kwonlydefaults', 'annotations']


def check_argspec(what, w, f):
    from pyg_base import getargspec
    want = inspect.getfullargspec(f)
    got = call('getargspec(%s)' % what, getargspec, w)
    for fld in SPEC_FIELDS:
        g = call('getargspec(%s).%s' % (what, fld), getattr, got, fld)
        e = getattr(want, fld)
        check(type(g) is type(e) and g == e, 'getargspec(%s).%s = %s but f%s has %s (python binds a call to this signature: inspect.getfullargspec does not follow __wrapped__)', what, fld, g, str(inspect.signature(f, follow_wrapped=False)), e)


def check_binding(what, w, f, s, args, kwargs, exp, callargs, alts=()):
    """
    getcallargs(w, ...) == inspect.getcallargs(f, ...) and call_with_callargs(w, that) == f(...) (alts: further acceptable results - under a cache layer
    an earlier call with the same arguments, whose extra keywords came in another order, decides the result)
    """
    from pyg_base import getcallargs, call_with_callargs
    a, k = bvals(args, kwargs)
    # inspect.getcallargs reads f.__name__, which a functools.partial object has not: there the binding model alone says what python binds
    ic = callargs_built(callargs) if isinstance(f, functools.partial) else inspect.getcallargs(f, *a, **k)
    if not same(ic, callargs_built(callargs)):
        raise HarnessError('binding model disagrees with inspect.getcallargs: %r vs %r' % (callargs, ic))
    a, k = bvals(args, kwargs)
    gc = call('getcallargs(%s, ...) for %s' % (what, call_text(s, args, kwargs)), getcallargs, w, *a, **k)
    check(same(gc, ic), 'getcallargs(%s, ...) for %s = %s but inspect.getcallargs says %s', what, call_text(s, args, kwargs), gc, ic)
    r = call('call_with_callargs(%s, getcallargs(...)) for %s' % (what, call_text(s, args, kwargs)), call_with_callargs, w, gc)
    check(same(r, exp) or any(same(r, e) for e in alts), 'call_with_callargs(%s, getcallargs(...)) for %s returned %s, the direct call returns %s', what, call_text(s, args, kwargs), r, exp)
    # the caller's own dict, handed over a second time: judged by what getcallargs put into it
    r = call('ca = getcallargs(%s, ...); call_with_callargs(%s, ca); call_with_callargs(%s, ca) [the same dict again] for %s' % (what, what, what, call_text(s, args, kwargs)),
             call_with_callargs, w, gc)
    check(same(r, exp) or any(same(r, e) for e in alts), 'ca = getcallargs(%s, ...) for %s: the second call_with_callargs(%s, ca) with the same dict returned %s, the direct call returns %s (ca is now %s, inspect.getcallargs says %s)',
          what, call_text(s, args, kwargs), what, r, exp, gc, ic)


def callargs_built(callargs):
    out = {}
    for k, v in callargs.items():
        if k == 'va':
            out[k] = tuple(build(x) for x in v)
        elif k == 'vk':
            out[k] = {kk: build(x) for kk, x in v.items()}
        else:
            out[k] = build(v)
    return out


def expected(s, args, kwargs):
    """(result f reports, callargs, nkw, ndef) with real values; HarnessError when the generator made an invalid call"""
    m = model_bind(s, args, kwargs)
    if m is None:
        raise HarnessError('generator produced an invalid call: %s' % call_text(s, args, kwargs))
    res, callargs, nkw, ndef = m
    exp = {'p': [[nm, build(v)] for nm, v in res['p']], 'va': None if res['va'] is None else tuple(build(v) for v in res['va']),
           'vk': None if res['vk'] is None else {k: build(v) for k, v in res['vk'].items()}, 'vko': res['vko']}
    return exp, callargs, nkw, ndef


def direct(f, s, args, kwargs, exp):
    a, k = bvals(args, kwargs)
    r = f(*a, **k)
    if not same(r, exp):
        raise HarnessError('binding model disagrees with the direct call %s: %r vs %r' % (call_text(s, args, kwargs), exp, r))
    return r


# ----------------------------------------------------------------------------- generators (plain data)

_scal = st.one_of(st.integers(-3, 6), st.sampled_from(['', 'a', 'ab', 'b']), st.none())
_cont = st.one_of(st.lists(st.integers(-3, 6), max_size=3).map(lambda v: ['list', v]),
                  st.lists(st.tuples(st.sampled_from(['k', 'm', 'a']), st.integers(-3, 6)), max_size=2, unique_by=lambda kv: kv[0]).map(lambda v: ['dict', [list(kv) for kv in v]]))
_ints = st.integers(-3, 6)
# containers that are twins of one another by content: tuples, lists / tuples of (key, value) pairs, one level of nesting
_cont2 = st.one_of(
    st.lists(_ints, max_size=3).map(lambda v: ['tuple', v]),
    st.lists(st.tuples(st.sampled_from(['k', 'm', 'a']), _ints), max_size=2, unique_by=lambda kv: kv[0]).flatmap(
        lambda v: st.sampled_from([['list', [['tuple', list(kv)] for kv in v]], ['tuple', [['tuple', list(kv)] for kv in v]], ['dict', [list(kv) for kv in v]]])),
    st.tuples(st.sampled_from(['list', 'tuple']), st.sampled_from(['list', 'tuple']), st.lists(_ints, max_size=2)).map(lambda t: [t[0], [[t[1], t[2]]]]),
    st.tuples(st.sampled_from(['list', 'tuple']), st.lists(_ints, max_size=2)).map(lambda t: ['dict', [['k', [t[0], t[1]]]]]),
    st.sampled_from([['list', []], ['tuple', []], ['dict', []]]),
)
# dicts keyed by numbers only (and, behind the switch, by keys of mixed types)
_cont3 = st.sampled_from(NUMBER_KEYED + (MIXED_KEYED if INCLUDE_MIXED_KEY_DICTS else []))
_val = st.one_of(_scal, _scal, _cont, _cont2, _scal, _scal, _cont, _cont2, _cont3)


@st.composite
def s_sig(draw, vk=None, min_n=0):
    n = draw(st.integers(min_n, 4))
    d = draw(st.integers(0, n))
    s = dict(n=n, d=d, va=draw(st.booleans()), vk=draw(st.booleans()) if vk is None else vk)
    if draw(st.sampled_from([False, False, True])):
        s['nm'] = 1       # names that are prefixes of one another
    if draw(st.sampled_from([False, False, True])):
        s['dv'] = 1       # defaults None / 0 / '' / False
    if d and draw(st.sampled_from([False, False, False, False, True])):
        # defaults that are containers: as long as the parameter list / the defaults, keyed like the parameters or like extra keywords, empty, one element
        s['dvals'] = [draw(st.sampled_from(container_defaults(s))) for _ in range(d)]
    form = draw(st.sampled_from(FORMS))
    if form == 'wraps':
        s['wraps'] = draw(s_wraps(s))
    elif form == 'partial':
        s['partial'] = draw(st.sampled_from([1, 1, 2]))
    return s


# the form of the function (bug class 36): a plain function; 2 in 24 the outer function of a functools.wraps decorator whose inner function has another signature;
# 1 in 24 a functools.partial object that supplies 1-2 leading positional arguments
FORMS = [None] * 21 + ['wraps', 'wraps', 'partial']
RENAMED = ['x', 'y', 'z', 'e']


@st.composite
def s_wraps(draw, s):
    """
    the inner function's signature, by construction ANOTHER one than s: a leading parameter more (the decorator supplies it), the parameters renamed (to names the
    extra / undeclared keywords use), in reverse order, another number of defaults (all with other values), or more named parameters and no *va / **vk
    (the outer function being the more generic one)
    """
    n, d, va, vk = _sig(s)
    nms = pnames(s)
    kinds = ['lead', 'lead'] + (['renamed', 'renamed', 'defaults'] if n >= 1 else []) + (['reordered', 'reordered'] if n >= 2 else []) + (['more'] if n <= 3 else [])
    kind = draw(st.sampled_from(kinds))
    if kind == 'lead':
        return dict(kind=kind, names=['p'] + nms, d=d, va=va, vk=vk)
    if kind == 'renamed':
        return dict(kind=kind, names=(NESTED_EXTRA if s.get('nm') else RENAMED)[:n], d=d, va=va, vk=vk)
    if kind == 'reordered':
        return dict(kind=kind, names=nms[::-1], d=d, va=va, vk=vk)
    if kind == 'defaults':
        return dict(kind=kind, names=nms, d=draw(st.sampled_from([x for x in range(n + 1) if x != d])), va=va, vk=vk)
    return dict(kind=kind, names=(NESTED if s.get('nm') else NAMES)[:n + draw(st.integers(1, 4 - n))], d=d, va=False, vk=False)


def container_defaults(s):
    n, d, va, vk = _sig(s)
    nms = pnames(s)
    return [['tuple', list(range(n))], ['list', list(range(d))], ['dict', [[nm, i] for i, nm in enumerate(nms)]], ['dict', [[nm, i] for i, nm in enumerate(extra_names(s)[:2])]],
            ['tuple', []], ['list', []], ['dict', []], ['tuple', [0]], ['list', [None]], ['tuple', [['list', []]]], 'D']


def has_container_default(s):
    return any(_is_tagged(v) for v in s.get('dvals', []))


@st.composite
def s_call(draw, s, need_first=False, scalar_first=False, extra_kw=True):
    """a valid call for signature s: positional prefix, the rest by keyword or left to its default, extras for *va / **vk"""
    n, d, va, vk = _sig(s)
    k = draw(st.integers(0, n))
    if need_first and n and k == 0:
        pass   # the first parameter will be forced to keyword below
    args = [draw(_val) for _ in range(k)]
    kwargs = []
    for i in range(k, n):
        can_omit = i >= n - d and not (need_first and i == 0)
        if can_omit and draw(st.booleans()):
            continue
        kwargs.append([pnames(s)[i], draw(_val)])
    if va and k == n:
        args += [draw(_val) for _ in range(draw(st.integers(0, 2)))]
    if vk and extra_kw:
        for nm in draw(st.lists(st.sampled_from(extra_names(s) + ([] if s.get('nm') else WRAPPER_WORDS)), max_size=2, unique=True)):
            kwargs.append([nm, draw(_val)])
    kwargs = list(draw(st.permutations(kwargs)))
    if scalar_first:
        if len(args):
            if is_container_spec(args[0]):
                args[0] = draw(_scal)
        else:
            for kv in kwargs:
                if n and kv[0] == pnames(s)[0] and is_container_spec(kv[1]):
                    kv[1] = draw(_scal)
    return args, kwargs


def _can_supply_first(s):
    n, d, va, vk = _sig(s)
    return n > 0 or va


@st.composite
def s_first_supplied_call(draw, s, **kw):
    """a valid call that supplies the first argument (signature must allow it)"""
    n, d, va, vk = _sig(s)
    args, kwargs = draw(s_call(s, need_first=True, **kw))
    if not first_arg(s, args, kwargs)[0]:
        # only possible for n == 0 with *va: add one positional
        args = [draw(_scal)] + args
    return args, kwargs


@st.composite
def s_plant_float(draw, args, kwargs):
    """one argument of the call (if it has any) replaced by a non-integral float, or by a list / dict holding one: of order 1, of order 1e-9, large"""
    args, kwargs = list(args), [list(kv) for kv in kwargs]
    slots = [('a', i) for i in range(len(args))] + [('k', i) for i in range(len(kwargs))]
    if slots:
        x = draw(st.sampled_from(FLOATS))
        v = draw(st.sampled_from([x, x, x, ['list', [1, x]], ['dict', [['k', x]]]]))
        kind, i = draw(st.sampled_from(slots))
        if kind == 'a':
            args[i] = v
        else:
            kwargs[i][1] = v
    return args, kwargs


# ----------------------------------------------------------------------------- sub-check: transparent stacks

@st.composite
def s_transparent(draw):
    s = draw(s_sig())
    args, kwargs = draw(s_call(s))
    if draw(st.sampled_from([False] * 5 + [True])):
        # a float among the arguments: under a cache layer the call is repeated with a float within the usual tolerances of it (a distinct argument)
        args, kwargs = draw(s_plant_float(args, kwargs))
    ok = [nm for nm in DECOS if admissible(nm, s, args, kwargs)]
    klasses = sorted(set(KLASS[nm] for nm in ok))
    depth = draw(st.sampled_from([1, 2, 2, 3, 3, 2, 3, 2, 3]))       # (the last four: the share of non-trivial cases restored after the function forms of class 36 were added to s_sig)
    stack = []
    for _ in range(depth):
        c = draw(st.sampled_from(klasses))
        stack.append(draw(st.sampled_from([nm for nm in ok if KLASS[nm] == c])))
    spec = dict(sig=s, args=args, kwargs=kwargs, stack=stack)
    if draw(st.booleans()):
        # f returns a constant None / falsy value instead of its report (cache must not mistake that for "not cached yet")
        spec['ret'] = ['const', draw(st.sampled_from([None, None] + FALSY))]
    if draw(st.booleans()):
        s2 = draw(s_sig())
        a2, k2 = draw(s_call(s2))
        if all(admissible(nm, s2, a2, k2) for nm in stack):
            spec['other'] = dict(sig=s2, args=a2, kwargs=k2)
    if any(nm in TWO_STEP for nm in stack) and draw(st.booleans()):
        # True: a fresh D() per application; 'shared': ONE decorator object D() per class, applied to every function of the case
        spec['two_step'] = draw(st.sampled_from([True, 'shared']))
    if 'pd2np' in stack and draw(st.sampled_from([False, True])):
        # the optional parameter of pd2np: names excluded from the conversion, as one string or as a list of 0-2 strings
        spec['pd2np_exc'] = draw(s_exc([c for c in (spec, spec.get('other')) if c]))
    return spec


@st.composite
def s_exc(draw, cases):
    """
    pd2np(exc = ...): a declared parameter, a name that is never passed, or an extra keyword of a call that has only that one
    (excluded keywords are handed on last, so two extra keywords would reach **vk in another order); one string, or a list of 0-2 strings
    """
    def extras(c):
        return [k for k, _ in c['kwargs'] if k not in pnames(c['sig'])]
    cand = ['q']
    for c in cases:
        cand += pnames(c['sig']) + extras(c)
    names = sorted(set(x for x in cand if all(x not in extras(c) or len(extras(c)) == 1 for c in cases)))
    form = draw(st.sampled_from(['str', 'list0', 'list1', 'list2']))
    if form == 'str':
        return draw(st.sampled_from(names))
    return draw(st.lists(st.sampled_from(names), min_size=int(form[-1]), max_size=int(form[-1]), unique=True)) if len(set(names)) >= int(form[-1]) else []


def run_transparent(spec):
    s, args, kwargs, stack = spec['sig'], spec['args'], spec['kwargs'], spec['stack']
    for nm in stack:
        if not admissible(nm, s, args, kwargs):
            raise HarnessError('%s is outside the claimed domain for %s' % (nm, call_text(s, args, kwargs)))
    decos = {nm: deco(nm) for nm in set(stack)}
    cls = ['depth=%i' % len(stack)] + sorted(set('has:' + KLASS[nm] for nm in stack))
    nt = False
    ret = spec.get('ret')
    cached = 'cache' in stack
    what = stack_text(stack)
    if 'pd2np_exc' in spec:
        import pyg_base
        exc = spec['pd2np_exc']
        if 'pd2np' not in stack:
            raise HarnessError('pd2np_exc without pd2np')
        decos['pd2np'] = call('pd2np(exc = %r)' % (exc,), pyg_base.pd2np, exc=exc)
        what = what.replace('pd2np(', 'pd2np(exc = %r)(' % (exc,))
        cls.append('pd2np_exc')
        cls.append('pd2np_exc:' + ('string' if isinstance(exc, str) else 'list_of_%i' % len(exc)))
    made = {} if spec.get('two_step') == 'shared' else None
    prebuilt = {}
    if made is not None and spec.get('other') is not None:
        # one decorator object per class on two functions: both wrappers exist before either is called
        for which, c in (('f', spec), ('g', spec['other'])):
            lg = []
            fn = make_fn(c['sig'], lg, ret=ret)
            prebuilt[which] = (lg, fn, wrap(stack, fn, decos, two_step=True, made=made))
        if any(nm in TWO_STEP and isinstance(decos[nm], type) for nm in stack):
            cls.append('one_decorator_object_on_two_functions')
    if ret is not None:
        cls.append('f_returns_None' if ret[1] is None else 'f_returns_falsy')
        if cached:
            cls.append('cached_result_is_None' if ret[1] is None else 'cached_result_is_falsy')
    for which, c in (('f', spec), ('g', spec.get('other'))):
        if c is None:
            continue
        s, args, kwargs = c['sig'], c['args'], c['kwargs']
        exp, callargs, nkw, ndef = expected(s, args, kwargs)
        exp = apply_ret(ret, exp)
        if which in prebuilt:
            log, f, w = prebuilt[which]
            direct(f, s, args, kwargs, exp)
        else:
            log = []
            f = make_fn(s, log, ret=ret)
            direct(f, s, args, kwargs, exp)
            w = wrap(stack, f, decos, two_step=bool(spec.get('two_step')), made=made)
        if 'pd2np_exc' in spec and any(k in as_names(spec['pd2np_exc']) for k, _ in kwargs):
            cls.append('pd2np_excluded_keyword_passed')
        # the signature, asked before and after a call (the wrapper caches it)
        check_argspec(what, w, f)
        a, k = bvals(args, kwargs)
        n0 = len(log)
        r = call('%s for %s' % (what, call_text(s, args, kwargs)), w, *a, **k)
        check(same(r, exp), '%s for %s returned %s, f itself returns %s', what, call_text(s, args, kwargs), r, exp)
        if cached:
            # a cache layer anywhere in the stack: evaluated once now, not at all when the same call is made again
            check(len(log) - n0 == 1, '%s for %s (fresh cache) evaluated f %s times', what, call_text(s, args, kwargs), len(log) - n0)
            a, k = bvals(args, kwargs)
            r = call('%s for %s (again)' % (what, call_text(s, args, kwargs)), w, *a, **k)
            check(len(log) - n0 == 1, '%s for %s: the same call again evaluated f again (%s evaluations in all); f returns %s',
                  what, call_text(s, args, kwargs), len(log) - n0, exp)
            check(same(r, exp), '%s for %s: the same call again returned %s, the first result was %s', what, call_text(s, args, kwargs), r, exp)
            check_twin_calls(what, w, s, args, kwargs, ret, log, n0, 1, cls)
        check_argspec(what, w, f)
        check_binding(what, w, f, s, args, kwargs, exp, callargs)
        nt = nt or len(stack) >= 2 or (nkw >= 1 and ndef >= 1)
        if nkw >= 1 and ndef >= 1:
            cls.append('kw+default')
        if which == 'g':
            cls.append('second_function_same_decorators')
        if s.get('nm') and _sig(s)[0] >= 2:
            cls.append('names_prefixes_of_one_another')
        if s.get('dv') and ndef:
            cls.append('falsy_default_relied_on')
        if any(k in WRAPPER_WORDS for k, _ in kwargs):
            cls.append('keyword_named_like_wrapper_parameter')
        if any(k == 'function' for k, _ in kwargs):
            cls.append('keyword_named_function')
        if len([k for k, _ in kwargs if k not in pnames(s)]) >= 2:
            cls.append('two_extra_keywords_in_order')
        if has_container_default(s):
            cls.append('container_default')
            if any(_is_tagged(v) for v in relied_defaults(s, args, kwargs)):
                cls.append('container_default_relied_on')
        if any(holds_float(v) for v in list(args) + [v for _, v in kwargs]):
            cls.append('float_argument')
        cls += form_labels(s)
        if s.get('wraps') and nkw:
            cls.append('wrapped_function_called_by_keyword')
    if spec.get('two_step'):
        cls.append('two_step_spelling')
    return dict(nt=nt, cls=cls)


# ----------------------------------------------------------------------------- sub-check: sessions (several calls on ONE wrapper)

SESSION_KINDS = ['same', 'permuted', 'prefix', 'prefix', 'extension', 'extension', 'resplit', 'values', 'fresh']
# signatures with a (non-bool) default additionally draw the kind 'explicit_default' (2 in 11)


def _supplied(s, args, kwargs):
    """names of the declared parameters a call supplies"""
    return set(pnames(s)[:len(args)]) | set(k for k, _ in kwargs if k in pnames(s))


@st.composite
def s_derive(draw, s, args, kwargs, kind, keep_first):
    """a valid call derived from the valid call (args, kwargs): its prefix / extension / permutation / other split / other values"""
    n, d, va, vk = _sig(s)
    names = pnames(s)
    args, kwargs = list(args), [list(kv) for kv in kwargs]
    given = [k for k, _ in kwargs]
    if kind == 'permuted':
        kwargs = list(draw(st.permutations(kwargs)))
    elif kind == 'prefix':
        extras = [i for i, kv in enumerate(kwargs) if kv[0] not in names]
        dflt = [i for i, kv in enumerate(kwargs) if kv[0] in names and names.index(kv[0]) >= n - d and not (keep_first and kv[0] == names[0])]
        opts = (['va'] if len(args) > n else []) + (['xkw'] if extras else []) + (['kw'] if dflt else [])
        if 0 < len(args) <= n and len(args) - 1 >= n - d and not (keep_first and len(args) == 1):
            opts.append('pos')
        what = draw(st.sampled_from(opts)) if opts else None
        if what in ('va', 'pos'):
            args.pop()
        elif what == 'xkw':
            kwargs.pop(draw(st.sampled_from(extras)))
        elif what == 'kw':
            kwargs.pop(draw(st.sampled_from(dflt)))
    elif kind == 'extension':
        missing = [nm for i, nm in enumerate(names) if i >= len(args) and nm not in given]
        free = [x for x in extra_names(s) if x not in given]
        opts = (['fill'] if missing else []) + (['va'] if va and len(args) >= n else []) + (['xkw'] if vk and free else [])
        what = draw(st.sampled_from(opts)) if opts else None
        if what == 'fill':
            nm = draw(st.sampled_from(missing))
            if nm == names[len(args)] and draw(st.booleans()):
                args.append(draw(_val))
            else:
                kwargs.insert(draw(st.integers(0, len(kwargs))), [nm, draw(_val)])
        elif what == 'va':
            args.append(draw(_val))
        elif what == 'xkw':
            kwargs.insert(draw(st.integers(0, len(kwargs))), [draw(st.sampled_from(free)), draw(_val)])
    elif kind == 'resplit':
        if 0 < len(args) <= n and draw(st.booleans()):
            kwargs.insert(draw(st.integers(0, len(kwargs))), [names[len(args) - 1], args.pop()])
        elif len(args) < n and names[len(args)] in given:
            nm = names[len(args)]
            args.append([v for k, v in kwargs if k == nm][0])
            kwargs = [kv for kv in kwargs if kv[0] != nm]
        elif 0 < len(args) <= n:
            kwargs.insert(draw(st.integers(0, len(kwargs))), [names[len(args) - 1], args.pop()])
    elif kind == 'values':
        args = [draw(_val) for _ in args]
        kwargs = [[k, draw(_val)] for k, _ in kwargs]
    elif kind == 'explicit_default':
        # a default the earlier call relied on is passed explicitly (its own value): the same binding, another combination of arguments as passed
        ed = explicit_default_call(s, args, kwargs, positional=draw(st.booleans()))
        if ed is not None:
            args, kwargs = ed[0], ed[1]
    elif kind == 'fresh':
        args, kwargs = draw(s_call(s, need_first=keep_first))
        if keep_first and not first_arg(s, args, kwargs)[0] and _can_supply_first(s):
            args = [draw(_scal)] + args
    return args, kwargs


def _scalar_first(s, args, kwargs, repl):
    """the call with a container in the place of the first argument replaced by the scalar repl"""
    args, kwargs = list(args), [list(kv) for kv in kwargs]
    if len(args):
        if is_container_spec(args[0]):
            args[0] = repl
    else:
        for kv in kwargs:
            if _sig(s)[0] and kv[0] == pnames(s)[0] and is_container_spec(kv[1]):
                kv[1] = repl
    return args, kwargs


@st.composite
def s_session(draw):
    s = draw(s_sig())
    keep_first = draw(st.booleans()) and _can_supply_first(s)
    scalar_first = draw(st.booleans())
    args, kwargs = draw(s_call(s, need_first=keep_first))
    if keep_first and not first_arg(s, args, kwargs)[0]:
        args = [draw(_scal)] + args
    slots = [('a', i) for i in range(len(args))] + [('k', i) for i in range(len(kwargs))]
    if len(slots) >= 2 and draw(st.sampled_from([False, False, True])):
        # one container value in two places of the call (with shared objects: the same object passed twice)
        (k1, i1), (k2, i2) = draw(st.permutations(slots))[:2]
        v = draw(st.one_of(_cont, _cont2))
        for kind, i in ((k1, i1), (k2, i2)):
            if kind == 'a':
                args[i] = v
            else:
                kwargs[i] = [kwargs[i][0], v]
    calls = [['first', args, kwargs]]
    has_plain_default = any(not isinstance(default_spec(s, i), bool) for i in range(_sig(s)[0] - _sig(s)[1], _sig(s)[0]))
    for _ in range(draw(st.sampled_from([1, 2, 2, 3, 3]))):
        kind = draw(st.sampled_from(SESSION_KINDS + (['explicit_default'] * 2 if has_plain_default else [])))
        base = calls[draw(st.sampled_from([-1, -1, 0]))]
        if kind == 'explicit_default':
            # by construction: the base is a call that relies on a default; if there is none yet, one is made first (an earlier call with a defaulted parameter left out)
            relying = [c for c in calls if explicit_default_call(s, c[1], c[2]) is not None]
            if relying:
                base = draw(st.sampled_from(relying))
            else:
                dd = drop_default(s, base[1], base[2], keep_first)
                if dd is not None:
                    base = ['prefix', dd[0], dd[1]]
                    calls.append(base)
        a2, k2 = draw(s_derive(s, base[1], base[2], kind, keep_first))
        calls.append([kind, a2, k2])
    if scalar_first:
        repl = draw(_scal)
        calls = [[kind] + list(_scalar_first(s, a, k, repl)) for kind, a, k in calls]
    calls = [[kind] + list(unzero([s], a, k)) for kind, a, k in calls]
    ok = [nm for nm in DECOS if all(admissible(nm, s, a, k) for _, a, k in calls)]
    klasses = sorted(set(KLASS[nm] for nm in ok))
    stack = []
    for _ in range(draw(st.sampled_from([1, 1, 2, 2, 3]))):
        c = draw(st.sampled_from(klasses))
        stack.append(draw(st.sampled_from([nm for nm in ok if KLASS[nm] == c])))
    spec = dict(sig=s, calls=calls, stack=stack, share=draw(st.sampled_from([True, True, False])),
                bind=[draw(st.sampled_from([False, False, True])) for _ in calls], argspec=[draw(st.sampled_from([False, False, True])) for _ in calls])
    if draw(st.sampled_from([False, False, False, True])):
        spec['ret'] = ['by_first']
    if spec['share']:
        # the caller edits one of its own argument objects in place between two calls (a list gets an element, a dict a key) and passes it again:
        # candidates are the lists / dicts of a call that an earlier call passed too (the same object, as the objects are shared)
        def top(c):
            return [v for v in c[1] + [x for _, x in c[2]] if _is_tagged(v, 'list', 'dict')]
        cand = [[i, v] for i in range(1, len(calls)) for v in top(calls[i]) if any(v in top(c) for c in calls[:i])]
        if cand and draw(st.sampled_from([False, True])):
            i, v = draw(st.sampled_from(cand))
            spec['edits'] = [[i, v, draw(_ints)]]
    return spec


def cache_key(args, kwargs):
    """the combination of arguments as passed (value specs), as a hashable token"""
    return (tuple(_tok(v) for v in args), tuple(sorted((k, _tok(v)) for k, v in kwargs)))


def run_session(spec):
    """
    one function, one wrapper object, 2-4 calls whose argument lists are prefixes / extensions / permutations / other splits of one another; every
    call is judged by the single-call oracle. With share, the caller's argument objects are built once and the same objects are passed in every call
    (and in every place of a call) where the same value appears: later calls are judged by their original content.
    spec['edits'] = [[i, v, x]]: before call i the CALLER edits the shared object that stands for the value v in place (list: x appended, dict: a new key set to x);
    from then on every call that passes that object is judged by the content the caller gave it (another combination of arguments for a cache layer).
    """
    s, calls, stack = spec['sig'], spec['calls'], spec['stack']
    for nm in stack:
        for _, a, k in calls:
            if not admissible(nm, s, a, k):
                raise HarnessError('%s is outside the claimed domain for %s' % (nm, call_text(s, a, k)))
            if list(unzero([s], a, k)) != [a, k]:
                raise HarnessError('0 passed for a parameter whose default is False is outside the claimed domain: %s' % call_text(s, a, k))
    share = bool(spec.get('share'))
    ret = spec.get('ret')
    decos = {nm: deco(nm) for nm in set(stack)}
    log = []
    f = make_fn(s, log, ret=ret, snap=bool(spec.get('edits')))
    what = stack_text(stack)
    w = wrap(stack, f, decos)
    # "arguments as passed" reach a cache layer unchanged unless a loops layer above it re-spells the first argument
    counts = 'cache' in stack and 'loop' not in stack[:stack.index('cache')]
    objs = {}

    def bv(v):
        if share and isinstance(v, list):
            key = json.dumps(v)
            if key not in objs:
                objs[key] = build(v)
            return objs[key]
        return build(v)

    known = {}          # combination of arguments as passed -> the first result
    earlier = []        # results f gave so far
    cached = 'cache' in stack

    def novko(x):
        return dict(x, vko=None) if isinstance(x, dict) and 'vko' in x else x

    def alts(exp):
        # under a cache layer that does not see the arguments as passed (a loops layer above it re-spells the first argument) an earlier call with the
        # same binding decides the result: the same report, with the extra keywords in the order of that call
        return [e for e in earlier if same(novko(e), novko(exp))] if cached else []
    cls = ['calls=%i' % len(calls), 'depth=%i' % len(stack)] + sorted(set('has:' + KLASS[nm] for nm in stack))
    done = []
    twice = False
    edits = spec.get('edits') or []
    if edits and not share:
        raise HarnessError('in-place edits need shared argument objects: %r' % (spec,))
    content = {}        # original value spec (json) of a shared object -> the value spec it holds since the caller edited it
    passed = set()      # shared objects (by the json of their original spec) passed so far
    bindings = []       # (declared parameters supplied, report) of the calls so far

    def now(v):
        return content.get(json.dumps(v), v) if share and isinstance(v, list) else v
    for i, (kind, oargs, okwargs) in enumerate(calls):
        for at, v, x in edits:
            if at == i:
                # the caller's own edit of one of its argument objects, between two calls: l.append(x) / d[key] = x
                key = json.dumps(v)
                if key not in objs:
                    objs[key] = build(v)
                content[key], dkey = edited(content.get(key, v), x)
                if isinstance(objs[key], list):
                    objs[key].append(x)
                else:
                    objs[key][dkey] = x
                done.append('the caller\'s %s %s edited in place, now %s' % (type(objs[key]).__name__, short(build(v), 40), short(build(content[key]), 40)))
                if key in passed and any(json.dumps(u) == key for u in oargs + [u for _, u in okwargs]):
                    cls.append('argument_object_edited_in_place_between_calls')
                    if counts:
                        cls.append('edited_argument_object_under_a_counting_cache')
        # the call as the callee sees it: every shared object with the content it holds now
        args, kwargs = [now(v) for v in oargs], [[kk, now(v)] for kk, v in okwargs]
        exp, callargs, nkw, ndef = expected(s, args, kwargs)
        exp = apply_ret(ret, exp)
        direct(f, s, args, kwargs, exp)
        txt = call_text(s, args, kwargs)
        after = '' if not done else ' (call %i on this wrapper, after %s)' % (i + 1, '; '.join(done))
        if spec['argspec'][i]:
            check_argspec(what, w, f)
        a = [bv(v) for v in oargs]
        k = {kk: bv(v) for kk, v in okwargs}
        if share:
            passed.update(json.dumps(v) for v in oargs + [v for _, v in okwargs] if isinstance(v, list))
        cont = [x for x in a + list(k.values()) if isinstance(x, (list, tuple, dict))]
        if len(set(id(x) for x in cont)) < len(cont):
            twice = True
        n0 = len(log)
        r = call('%s for %s%s' % (what, txt, after), w, *a, **k)
        if counts:
            key = cache_key(args, kwargs)
            want = 0 if key in known else 1
            check(len(log) - n0 == want, '%s for %s%s: %s, f was evaluated %s times', what, txt, after,
                  'these arguments were passed before' if key in known else 'first call with these arguments as passed', len(log) - n0)
            first = known.setdefault(key, exp)
            check(same(r, first), '%s for %s%s returned %s, %s %s', what, txt, after, r, 'f itself returns' if want else 'the first call with these arguments returned', first)
        else:
            check(same(r, exp) or any(same(r, e) for e in alts(exp)), '%s for %s%s returned %s, f itself returns %s', what, txt, after, r, exp)
        earlier.append(exp)
        if spec['bind'][i]:
            n0 = len(log)
            if counts:
                # call_with_callargs passes every declared parameter positionally (defaults included) and the extra keywords by name
                key = cache_key([callargs[nm] for nm in pnames(s)] + list(callargs.get('va', ())), sorted(callargs.get('vk', {}).items()))
                want = 0 if key in known else 1
                check_binding(what, w, f, s, args, kwargs, known.setdefault(key, exp), callargs)
                check(len(log) - n0 == want, 'call_with_callargs(%s, getcallargs(...)) twice for %s%s: f was evaluated %s times, %s', what, txt, after, len(log) - n0,
                      'all arguments were passed in that spelling before' if want == 0 else 'that spelling is new')
            else:
                check_binding(what, w, f, s, args, kwargs, exp, callargs, alts=alts(exp))
            cls.append('binding_between_calls')
        rep = expected(s, args, kwargs)[0]
        if any(sup < _supplied(s, args, kwargs) and same(r0, rep) for sup, r0 in bindings):
            cls.append('own_default_passed_explicitly_after_relying_on_it')
            if counts:
                cls.append('own_default_passed_explicitly_under_a_counting_cache')
        bindings.append((_supplied(s, args, kwargs), rep))
        if i:
            cls.append('kind:' + kind)
            for pk, pa, pkw in calls[:i]:
                if (_supplied(s, pa, pkw) - _supplied(s, args, kwargs)):
                    cls.append('default_relied_on_after_a_call_that_supplied_it')
                    if has_container_default(s) and any(_is_tagged(v) for v in relied_defaults(s, args, kwargs)):
                        cls.append('container_default_relied_on_after_a_call_that_supplied_it')
                if len(pa) > len(args) >= _sig(s)[0] and pa[:len(args)] == args:
                    cls.append('fewer_varargs_than_an_earlier_call')
                if set(kk for kk, _ in pkw) - set(pnames(s)) > set(kk for kk, _ in kwargs) - set(pnames(s)):
                    cls.append('fewer_extra_keywords_than_an_earlier_call')
        done.append(txt)
    if share and objs:
        cls.append('argument_objects_shared_between_calls')
    if twice:
        cls.append('same_object_passed_twice')
    if counts:
        cls.append('evaluations_counted')
    if has_container_default(s):
        cls.append('container_default')
    cls += form_labels(s)
    distinct = len(set(json.dumps([a, k]) for _, a, k in calls))
    return dict(nt=distinct >= 2, cls=sorted(set(cls)))


# ----------------------------------------------------------------------------- sub-check: wrapping twice = wrapping once

_PROBE_VALS = [1, 'a', 2, None]


def _class_variants(klass):
    return [nm for nm in DECOS if KLASS[nm] == klass]


@st.composite
def s_rewrap(draw, include_known_defect=False):
    s = draw(s_sig())
    args, kwargs = draw(s_call(s, scalar_first=True, need_first=_can_supply_first(s)))
    if not first_arg(s, args, kwargs)[0] and _can_supply_first(s):
        args = [draw(_scal)] + args
    ok = [nm for nm in DECOS if admissible(nm, s, args, kwargs)]
    klasses = sorted(set(KLASS[nm] for nm in ok))
    depth = draw(st.sampled_from([1, 2, 2, 3, 3]))
    stack = [draw(st.sampled_from([nm for nm in ok if KLASS[nm] == c])) for c in list(draw(st.permutations(klasses)))[:depth]]
    # the position of the layer that is wrapped again; index >= 2 is the known defect (see ASSUMPTIONS)
    top = len(stack) if include_known_defect else min(len(stack), 2)
    i = min(draw(st.sampled_from([0, 1, 1, 2, 2])), top - 1)
    again = draw(st.sampled_from([nm for nm in _class_variants(KLASS[stack[i]]) if nm in ok]))
    return dict(sig=s, args=args, kwargs=kwargs, stack=stack, again=again, warm=draw(st.booleans()))


def _probes(s):
    """calls used to see whether a stack still behaves as before: valid twice, told to raise, undeclared keyword"""
    n, d, va, vk = _sig(s)
    base = [_PROBE_VALS[i] for i in range(n)]
    out = [('valid', base, []), ('valid again', base, [])]
    if n:
        out.append(('told to raise', ['!ValueError'] + base[1:], []))
        out.append(('told to raise by keyword', [], [[pnames(s)[i], '!KeyError' if i == n - 1 else _PROBE_VALS[i]] for i in range(n)]))
    elif va:
        out.append(('told to raise', ['!ValueError'], []))
    elif vk:
        out.append(('told to raise', [], [['x', '!ValueError']]))
    if not vk:
        out.append(('undeclared keyword', base, [['z', 5]]))
    return out


def _outcomes(w, s, log):
    res = []
    for label, args, kwargs in _probes(s):
        a, k = bvals(args, kwargs)
        n0 = len(log)
        ok, r = call_or('probe', (Exception,), w, *a, **k)
        res.append([label, 'returned' if ok else 'raised', r if ok else type(r).__name__, len(log) - n0])
    return res


def run_rewrap(spec):
    from pyg_base import getargspec
    s, args, kwargs, stack, again, warm = spec['sig'], spec['args'], spec['kwargs'], spec['stack'], spec['again'], spec['warm']
    klasses = [KLASS[nm] for nm in stack]
    if len(set(klasses)) != len(klasses) or KLASS[again] not in klasses:
        raise HarnessError('bad rewrap spec %r' % (spec,))
    for nm in stack + [again]:
        if not admissible(nm, s, args, kwargs):
            raise HarnessError('%s is outside the claimed domain for %s' % (nm, call_text(s, args, kwargs)))
    decos = {nm: deco(nm) for nm in set(stack + [again])}
    exp, callargs, nkw, ndef = expected(s, args, kwargs)
    log, log0 = [], []
    f, f0 = make_fn(s, log), make_fn(s, log0)
    direct(f, s, args, kwargs, exp)
    del log[:]
    inner = stack_text(stack)
    what = '%s(%s)' % (again, inner)
    operand = wrap(stack, f, decos)       # the stack that gets wrapped again
    control = wrap(stack, f0, decos)      # an identical stack that is left alone
    if warm:
        call('getargspec(%s)' % inner, getargspec, operand)
        call('getargspec(%s)' % inner, getargspec, control)
    w = call(what, decos[again], operand)
    once_stack = [again] + [nm for nm in stack if KLASS[nm] != KLASS[again]]
    once = wrap(once_stack, f, decos)
    # --- equals wrapping once: same layers, same parameters, same innermost function
    lw, fw = layers(w)
    lo, fo = layers(once)
    check(same_function(fw, f), '%s does not end in f but in %s', what, fw)
    if not same_function(fo, f):
        raise HarnessError('reference stack does not end in f')
    check([c for c, _ in lw] == [c for c, _ in lo], '%s has layers %s, wrapping once (%s) has %s', what, [c for c, _ in lw], stack_text(once_stack), [c for c, _ in lo])
    for (c, pw), (_, po) in zip(lw, lo):
        check(pw == po, '%s: layer %s has parameters %s, wrapping once (%s) gives %s', what, c, pw, stack_text(once_stack), po)
    if not warm and not s.get('partial'):
        eq = call('%s == %s' % (what, stack_text(once_stack)), lambda: w == once)
        check(bool(eq), '%s != %s: %s vs %s', what, stack_text(once_stack), w, once)
    # --- the stack that was wrapped again is still the function it was (compared with the untouched twin;
    #     done before the new wrapper is called: inner layers, hence caches, are legitimately shared with it)
    del log[:]
    got, want = _outcomes(operand, s, log), _outcomes(control, s, log0)
    for g, e in zip(got, want):
        check(same(g, e), 'after building %s the existing function %s changed behaviour: probe %s: %s, an identical stack that was not wrapped again: %s',
              what, inner, g[0], g[1:], e[1:])
    check_argspec(what, w, f)
    a, k = bvals(args, kwargs)
    r = call('%s for %s' % (what, call_text(s, args, kwargs)), w, *a, **k)
    check(same(r, exp), '%s for %s returned %s, f itself returns %s', what, call_text(s, args, kwargs), r, exp)
    a, k = bvals(args, kwargs)
    r1 = call('%s for %s' % (stack_text(once_stack), call_text(s, args, kwargs)), once, *a, **k)
    check(same(r1, exp), '%s for %s returned %s, f itself returns %s', stack_text(once_stack), call_text(s, args, kwargs), r1, exp)
    i = klasses.index(KLASS[again])
    cls = ['depth=%i' % len(stack), 'direct' if i == 0 else 'through_%i' % i, 'again:' + KLASS[again]]
    if again != stack[i]:
        cls.append('variant_differs')
    if warm:
        cls.append('spec_cached_before')
    cls += form_labels(s)
    return dict(nt=len(stack) >= 2, cls=cls)


# set to True once wrapper.__init__ no longer edits the stack it is given (see ASSUMPTIONS / KNOWN): the generator then also
# wraps again with the class of the third layer
REWRAP_DEEP = True

KNOWN = {
    # signature of the known defect: the re-wrapped class sits under >= 2 other layers
    'c18.rewrap_strips_deep_layer_in_place':
        lambda spec: isinstance(spec, dict) and 'again' in spec and [KLASS[nm] for nm in spec['stack']].index(KLASS[spec['again']]) >= 2,
}


# ----------------------------------------------------------------------------- sub-check: try_* fall back exactly when f raises

@st.composite
def s_try(draw):
    s = draw(s_sig())
    name = draw(st.sampled_from(TRY_VALUES + ['try_back', 'try_back']))
    raises = draw(st.sampled_from([True, True, False]))
    n, d, va, vk = _sig(s)
    if raises and not (n or va or vk):
        raises = False      # f() cannot be told anything
    need_first = (name == 'try_back' and raises)
    if need_first and not _can_supply_first(s):
        s = dict(s, va=True)
        n, d, va, vk = _sig(s)
    args, kwargs = draw(s_first_supplied_call(s)) if need_first else draw(s_call(s))
    if raises:
        slots = [('a', i) for i in range(len(args))] + [('k', i) for i in range(len(kwargs))]
        if not slots:
            # a valid call without any argument: give it one it can carry the order in
            if va:
                args = [0]
            elif vk:
                kwargs = [['x', 0]]
            else:
                kwargs = [[pnames(s)[n - 1], 0]]
            slots = [('a', 0)] if args else [('k', 0)]
        kind, i = draw(st.sampled_from(slots))
        told = '!' + draw(st.sampled_from(sorted(EXC)))
        shape = draw(st.sampled_from(['', '', '0', '2', '3', 'p', 't']))
        if shape:
            told += ':' + shape
        if kind == 'a':
            args[i] = told
        else:
            kwargs[i] = [kwargs[i][0], told]
    # transparent layers around the try layer (never another try layer, so the expected fallback is this layer's)
    ok = [nm for nm in ['kwargs_support', 'cache', 'loop', 'pd2np'] if admissible(nm, s, args, kwargs)]
    depth = draw(st.sampled_from([1, 1, 1, 2, 3]))
    stack = [name]
    for _ in range(depth - 1):
        free = [nm for nm in ok if nm not in stack]
        if free:
            stack.insert(draw(st.integers(0, len(stack))), draw(st.sampled_from(free)))
    spec = dict(sig=s, args=args, kwargs=kwargs, stack=stack)
    if name in TRY_VALUES and draw(st.booleans()):
        # the parameterised spelling of the same wrapper: try_value(value = fallback, verbose = .., repeat = ..)(f)
        spec['opts'] = dict(verbose=draw(st.sampled_from([True, True, False, None])), repeat=draw(st.sampled_from([0, 0, 1, 2])))
        if draw(st.sampled_from([False, False, True])):
            # a fallback value that is a sequence: of one element, empty, as long as the call's argument list, keyed like the parameters
            nargs = len(args) + len(kwargs)
            spec['value'] = draw(st.sampled_from([['list', [7]], ['tuple', [0]], ['tuple', []], ['list', list(range(nargs))], ['tuple', list(range(nargs))],
                                                  ['dict', [[nm, i] for i, nm in enumerate(pnames(s))]], ['list', [['list', []]]], ['list', [None]]]))
    if 'kwargs_support' not in stack and 'kwargs_support' in ok and len(stack) <= 2 and not vk and draw(st.sampled_from([False] * 9 + [True])):
        stack.insert(draw(st.integers(0, len(stack))), 'kwargs_support')
    if 'kwargs_support' in stack and not vk and draw(st.sampled_from([True, True, True, False])):
        # keywords f does not declare, on their way to the kwargs_support layer (above or below the try layer)
        names = [x for x in extra_names(s) + ['e', 'va'] if x not in pnames(s)]
        spec['undeclared'] = [[nm, draw(_scal)] for nm in draw(st.lists(st.sampled_from(names), min_size=1, max_size=2, unique=True))]
        spec['undeclared_at'] = draw(st.integers(0, len(kwargs)))
    # further calls on the same wrapper object: the same call again, the call with the order to raise taken out / put in / changed
    more = []
    cur_a, cur_k = args, kwargs
    for _ in range(draw(st.sampled_from([0, 0, 1, 2, 3]))):
        op = draw(st.sampled_from(['again', 'flip', 'flip', 'other']))
        a2, k2 = list(cur_a), [list(kv) for kv in cur_k]
        slots = [('a', i) for i in range(len(a2))] + [('k', i) for i in range(len(k2))]
        told_at = [(kind, i) for kind, i in slots if isinstance((a2[i] if kind == 'a' else k2[i][1]), str) and (a2[i] if kind == 'a' else k2[i][1]).startswith('!')]
        if op == 'again' or not slots:
            pass
        elif told_at:
            kind, i = told_at[0]
            v = draw(_scal) if op == 'flip' else '!' + draw(st.sampled_from(sorted(EXC))) + draw(st.sampled_from(['', ':0', ':2', ':p']))
            if kind == 'a':
                a2[i] = v
            else:
                k2[i] = [k2[i][0], v]
        elif name != 'try_back' or first_arg(s, a2, k2)[0]:
            kind, i = draw(st.sampled_from(slots))
            v = '!' + draw(st.sampled_from(sorted(EXC)))
            if kind == 'a':
                a2[i] = v
            else:
                k2[i] = [k2[i][0], v]
        if all(admissible(nm, s, a2, k2) for nm in stack):
            more.append([a2, k2])
            cur_a, cur_k = a2, k2
    if more:
        spec['more'] = more
    return spec


def _told(args, kwargs):
    for v in list(args) + [v for _, v in kwargs]:
        if isinstance(v, str) and v.startswith('!'):
            return v[1:].partition(':')[0]
    return None


def run_try(spec):
    import logging
    prev_level = logging.root.manager.disable
    logging.disable(logging.CRITICAL)          # verbose wrappers log a warning per failure: not to the check's output
    try:
        return _run_try(spec)
    finally:
        logging.disable(prev_level)


def _run_try(spec):
    s, args, kwargs, stack = spec['sig'], spec['args'], spec['kwargs'], spec['stack']
    tries = [nm for nm in stack if KLASS[nm] in ('try_value', 'try_back')]
    if len(tries) != 1:
        raise HarnessError('try sub-check wants exactly one try layer: %r' % (stack,))
    name = tries[0]
    undeclared = spec.get('undeclared') or []
    if undeclared and ('kwargs_support' not in stack or _sig(s)[3] or any(k in pnames(s) for k, _ in undeclared)):
        raise HarnessError('undeclared keywords need a kwargs_support layer and a function without **vk: %r' % (spec,))
    log = []
    f = make_fn(s, log)
    what = stack_text(stack)
    opts = spec.get('opts')
    fb = None if name == 'try_back' else fallback_of(name)
    if 'value' in spec:
        if not opts:
            raise HarnessError('a fallback value needs the parameterised spelling')
        fb = build(spec['value'])
    if opts:
        import pyg_base
        decos = {nm: deco(nm) for nm in stack}
        decos[name] = call('try_value(value = %r, **%r)' % (fb, opts), pyg_base.try_value, value=build(spec['value']) if 'value' in spec else fallback_of(name), **opts)
        what = what.replace(name + '(', 'try_value(value = %r, verbose = %r, repeat = %r)(' % (fb, opts['verbose'], opts['repeat']), 1)
        w = wrap(stack, f, decos)
    else:
        w = wrap(stack, f)
    check_argspec(what, w, f)
    cls = [name, 'depth=%i' % len(stack)] + form_labels(s)
    outcomes = []
    done = []
    for j, (args, kwargs) in enumerate([[args, kwargs]] + [list(c) for c in spec.get('more', [])]):
        for nm in stack:
            if not admissible(nm, s, args, kwargs):
                raise HarnessError('%s is outside the claimed domain for %s' % (nm, call_text(s, args, kwargs)))
        if model_bind(s, args, kwargs) is None:
            raise HarnessError('invalid call %s' % call_text(s, args, kwargs))
        told = _told(args, kwargs)
        a, k = bvals(args, kwargs)
        try:
            exp = f(*a, **k)
            raised = None
        except Exception as e:
            exp, raised = None, e
        if (raised is None) != (told is None) or (told is not None and not isinstance(raised, EXC[told])):
            raise HarnessError('generated f does not obey: told %r, raised %r' % (told, raised))
        at = min(spec.get('undeclared_at', 0), len(kwargs))
        passed = kwargs[:at] + undeclared + kwargs[at:]
        txt = call_text(s, args, passed) + ('' if not done else ' (call %i on this wrapper, after %s)' % (j + 1, '; '.join(done)))
        a, k = bvals(args, passed)
        r = call('%s for %s' % (what, txt), w, *a, **k)
        if raised is None:
            check(same(r, exp), '%s for %s: f does not raise and returns %s, but the wrapper returned %s', what, txt, exp, r)
        elif name == 'try_back':
            ok, v = first_arg(s, args, kwargs)
            if not ok:
                raise HarnessError('try_back fallback needs the first argument: %s' % txt)
            check(same(r, build(v)), '%s for %s: f raises %s, try_back must return the first argument %s, returned %s', what, txt, told, build(v), r)
            if not build(v):
                cls.append('try_back_falls_back_to_a_falsy_first_argument')
        else:
            check(same(r, fb), '%s for %s: f raises %s, the fallback is %s, returned %s', what, txt, told, fb, r)
            if isinstance(fb, (list, dict)) and 'cache' not in stack:
                # the fallback is a copy: spoiling the returned list / dict must not spoil the next fallback
                if isinstance(r, list):
                    r.append('spoiled')
                else:
                    r['spoiled'] = 1
                a, k = bvals(args, passed)
                r2 = call('%s for %s (second time)' % (what, txt), w, *a, **k)
                check(same(r2, fb), '%s for %s: second fallback is %s - the fallback value %s is shared, not copied', what, txt, r2, fb)
        outcomes.append('raises' if raised is not None else 'returns')
        done.append(call_text(s, args, passed))
        if j == 0:
            cls.append(outcomes[0])
        if raised is not None:
            cls.append('exc:' + told)
            cls.append('exception_args=%i' % len(raised.args))
            if not len(args):
                cls.append('raises_all_by_keyword')
                if s.get('wraps') and name == 'try_back':
                    cls.append('try_back_on_wrapped_function_first_argument_by_keyword')
            if opts and opts['verbose']:
                cls.append('verbose_wrapper_sees_exception')
                if len(raised.args) != 1 or '%' in str(raised.args[0]):
                    cls.append('verbose_wrapper_sees_unusual_exception_args')
            if 'value' in spec:
                cls.append('fallback_is_a_sequence')
                if len(fb) <= 1:
                    cls.append('fallback_sequence_of_length_0_or_1')
            if undeclared:
                cls.append('undeclared_keyword_while_f_raises')
                cls.append('undeclared_keyword_while_f_raises:kwargs_support_%s_try_layer' % ('above' if stack.index('kwargs_support') < stack.index(name) else 'below'))
    if opts:
        cls.append('parameterised:repeat=%i' % opts['repeat'])
    if len(outcomes) >= 2:
        cls.append('session')
        pairs = set(zip(outcomes, outcomes[1:]))
        if ('raises', 'returns') in pairs:
            cls.append('returns_after_raising_on_the_same_wrapper')
        if ('returns', 'raises') in pairs:
            cls.append('raises_after_returning_on_the_same_wrapper')
        if ('raises', 'raises') in pairs:
            cls.append('raises_twice_on_the_same_wrapper')
    return dict(nt='raises' in outcomes or len(stack) >= 2, cls=sorted(set(cls), key=cls.index))


# ----------------------------------------------------------------------------- sub-check: kwargs_support

@st.composite
def s_kws(draw):
    s = draw(s_sig(vk=draw(st.sampled_from([False, False, False, True]))))
    n, d, va, vk = _sig(s)
    args, kwargs = draw(s_call(s, extra_kw=False))
    mode = 'declared_only' if vk else draw(st.sampled_from(['undeclared', 'undeclared', 'undeclared', 'duplicate', 'declared_only']))
    extra = []
    if mode == 'undeclared':
        names = extra_names(s) + ['va', 'vk', 'e'] + [nm for nm in (NESTED if s.get('nm') else NAMES)[n:]] + (['function'] if s.get('nm') else WRAPPER_WORDS[:4])
        for nm in draw(st.lists(st.sampled_from(names), min_size=1, max_size=3, unique=True)):
            extra.append([nm, draw(_val)])
        inner_only = [nm for nm in (s.get('wraps') or {}).get('names', []) if nm not in pnames(s) and nm not in [k for k, _ in extra]]
        if inner_only and draw(st.booleans()):
            # a keyword that the INNER function of a functools.wraps pair declares and f itself does not: undeclared
            extra.append([draw(st.sampled_from(inner_only)), draw(_val)])
    if mode == 'duplicate':
        npos = min(len(args), n)
        if npos == 0:
            mode = 'declared_only'
        else:
            extra.append([pnames(s)[draw(st.integers(0, npos - 1))], draw(_val)])
    passed = list(draw(st.permutations(kwargs + extra)))
    ok = [nm for nm in ['try_back', 'cache', 'loop', 'pd2np'] + TRY_VALUES if admissible(nm, s, args, kwargs)]
    stack = ['kwargs_support']
    if mode != 'duplicate':
        for _ in range(draw(st.sampled_from([0, 0, 1, 2]))):
            free = [nm for nm in ok if KLASS[nm] not in [KLASS[x] for x in stack]]
            if free:
                stack.insert(draw(st.integers(0, len(stack))), draw(st.sampled_from(free)))
    return dict(sig=s, args=args, kwargs=kwargs, passed=passed, mode=mode, stack=stack)


def run_kws(spec):
    s, args, kwargs, passed, mode, stack = spec['sig'], spec['args'], spec['kwargs'], spec['passed'], spec['mode'], spec['stack']
    n, d, va, vk = _sig(s)
    declared = pnames(s)
    if mode != 'duplicate' and sorted(map(repr, kwargs)) != sorted(repr(kv) for kv in passed if kv[0] in declared):
        raise HarnessError('kwargs / passed disagree in %r' % (spec,))
    if vk and any(k not in declared for k, _ in passed):
        raise HarnessError('undeclared keywords on a **vk function are outside the claimed domain')
    for nm in stack:
        if not admissible(nm, s, args, kwargs):
            raise HarnessError('%s is outside the claimed domain' % nm)
    log = []
    f = make_fn(s, log)
    what = stack_text(stack)
    w = wrap(stack, f)
    check_argspec(what, w, f)
    txt = call_text(s, args, passed)
    a, k = bvals(args, passed)
    if mode == 'duplicate':
        # a declared keyword must be passed on, so python itself rejects the second value
        must_raise('%s for %s (a declared keyword that is also given positionally must not be dropped)' % (what, txt), TypeError, w, *a, **k)
        check(len(log) == 0, '%s for %s evaluated f', what, txt)
        return dict(nt=True, cls=['duplicate'] + form_labels(s))
    keep = [kv for kv in passed if kv[0] in declared]
    exp, callargs, nkw, ndef = expected(s, args, keep)
    direct(f, s, args, keep, exp)
    r = call('%s for %s' % (what, txt), w, *a, **k)
    check(same(r, exp), '%s for %s returned %s; with exactly the undeclared keywords %s ignored f returns %s', what, txt, r,
          [kv[0] for kv in passed if kv[0] not in declared], exp)
    nun = len(passed) - len(keep)
    cls = [mode, 'vk' if vk else 'no_vk', 'depth=%i' % len(stack)] + form_labels(s)
    if nun and s.get('wraps'):
        cls.append('undeclared_keyword_to_wrapped_function')
        if any(kv[0] in s['wraps']['names'] for kv in passed if kv[0] not in declared):
            cls.append('undeclared_keyword_is_a_parameter_of_the_inner_function')
    if nun and n == 0 and not va:
        cls.append('undeclared_keyword_to_function_without_parameters')
    if nun and keep:
        cls.append('declared+undeclared_keywords')
    if nun and any(kv[0] in ('va', 'vk') for kv in passed):
        cls.append('undeclared_named_like_varargs')
    if nun and any(kv[0] in NAMES + NESTED for kv in passed if kv[0] not in declared):
        cls.append('undeclared_named_like_parameter')
    if nun and s.get('nm') and n:
        und = [kv[0] for kv in passed if kv[0] not in declared]
        if any(u != dn and (u in dn or dn in u) for u in und for dn in declared):
            cls.append('undeclared_is_substring_or_superstring_of_declared')
    if nun and any(kv[0] in WRAPPER_WORDS for kv in passed if kv[0] not in declared):
        cls.append('undeclared_named_like_wrapper_parameter')
    if nun:
        # order of the steps: the keyword-dropping layer above / below a layer that swallows exceptions or reads the first argument
        at = stack.index('kwargs_support')
        if any(KLASS[nm] in ('try_value', 'try_back') for nm in stack[at + 1:]):
            cls.append('undeclared_keyword_dropped_above_a_try_layer')
        if any(KLASS[nm] in ('try_value', 'try_back') for nm in stack[:at]):
            cls.append('undeclared_keyword_passes_a_try_layer_first')
        if any(KLASS[nm] in ('loops', 'pd2np') for nm in stack[:at]):
            cls.append('undeclared_keyword_passes_a_first_argument_reader_first')
    return dict(nt=nun >= 1, cls=cls)


# ----------------------------------------------------------------------------- sub-check: functions sharing one code object

DEFAULT_POOL = [None, 0, 1, '', 'D', 'E', False, ['list', []], ['list', [1]], ['tuple', [1, 2]], ['dict', [['a', 1]]], ['tuple', []]]


@st.composite
def s_same_code(draw):
    """2-3 functions from ONE factory (same __code__), different defaults and closures; inspected / bound / called in interleaved order"""
    n = draw(st.integers(1, 4))
    d = draw(st.integers(1, n))
    s = dict(n=n, d=d, va=draw(st.booleans()), vk=draw(st.booleans()))
    if draw(st.booleans()):
        s['nm'] = 1
    nf = draw(st.sampled_from([2, 2, 3]))
    dvals = []
    while len(dvals) < nf:
        dv = [draw(st.sampled_from(DEFAULT_POOL)) for _ in range(d)]
        if dv in dvals:
            # make it differ from every earlier function in the LAST default (the one most often left unfilled)
            dv[-1] = ['list', [7, len(dvals)]]
        dvals.append(dv)
    nops = draw(st.integers(3, 8))
    ops = []
    for _ in range(nops):
        fn = draw(st.integers(0, nf - 1))
        kind = draw(st.sampled_from(['spec', 'call', 'call', 'bind', 'bind']))
        if kind == 'spec':
            ops.append([fn, kind, [], []])
        else:
            args, kwargs = draw(s_call(s))
            earlier = [op for op in ops if op[1] != 'spec']
            if earlier and draw(st.sampled_from([False, True, True])):
                # an earlier call again, on the same function, with one container argument in another type (or nested one level down)
                src = draw(st.sampled_from(earlier))
                tw = _twin_call(draw(st.sampled_from([shape_twin, shape_twin, nested_twin])), src[2], src[3])
                if tw is not None:
                    fn, args, kwargs = src[0], tw[0], tw[1]
            ops.append([fn, kind, args, kwargs])
    if draw(st.sampled_from([True, True, False])):
        # by construction: a call / binding on a function that is NOT the first one touched, leaving the last default unfilled
        first = ops[0][0]
        fn = draw(st.sampled_from([i for i in range(nf) if i != first]))
        args, kwargs = draw(s_call(s))
        last = pnames(s)[n - 1]
        args, kwargs = args[:n - 1], [kv for kv in kwargs if kv[0] != last]
        ops.insert(draw(st.integers(1, len(ops))), [fn, draw(st.sampled_from(['call', 'bind'])), args, kwargs])
    ops = [[op[0], op[1]] + list(unzero([dict(s, dvals=dv) for dv in dvals], op[2], op[3])) for op in ops]
    calls = [(op[2], op[3]) for op in ops if op[1] != 'spec']
    ok = [nm for nm in DECOS if all(admissible(nm, dict(s, dvals=dv), a, k) for a, k in calls for dv in dvals)]
    klasses = sorted(set(KLASS[nm] for nm in ok))
    stack = []
    for _ in range(draw(st.sampled_from([0, 0, 1, 1, 2]))):
        c = draw(st.sampled_from(klasses))
        stack.append(draw(st.sampled_from([nm for nm in ok if KLASS[nm] == c])))
    return dict(sig=s, form=draw(st.sampled_from(['def', 'lambda'])), dvals=dvals, stack=stack, ops=ops)


def _content(v):
    """a value spec with the container types forgotten: twins by content have the same _content"""
    if _is_tagged(v, 'list', 'tuple'):
        return ['seq', [_content(x) for x in v[1]]]
    if _is_tagged(v, 'dict'):
        return ['seq', [['seq', [k, _content(x)]] for k, x in v[1]]]
    return v


def run_same_code(spec):
    s, form, dvals, stack, ops = spec['sig'], spec['form'], spec['dvals'], spec['stack'], spec['ops']
    nf = len(dvals)
    logs = [[] for _ in range(nf)]
    fs = make_family(s, logs, dvals, form=form)
    if len(set(id(f.__code__) for f in fs)) != 1 or len(set(id(f) for f in fs)) != nf:
        raise HarnessError('the factory did not produce distinct functions sharing one code object')
    sigs = [dict(s, dvals=dv) for dv in dvals]
    decos = {nm: deco(nm) for nm in set(stack)}
    ws = [wrap(stack, f, decos) if stack else f for f in fs]
    what = stack_text(stack)
    inspected, unfilled_later, seen_fns = [], False, []
    earlier = [[] for _ in range(nf)]          # per function: the results of its earlier calls (cached stacks only use them)
    for fn, kind, args, kwargs in ops:
        f, w, sj = fs[fn], ws[fn], sigs[fn]
        label = '%s [function %i of %i from one %s factory, defaults %s]' % (what, fn, nf, form, [build(v) for v in dvals[fn]])
        if kind == 'spec':
            check_argspec(label, w, f)
        else:
            for nm in stack:
                if not admissible(nm, sj, args, kwargs):
                    raise HarnessError('%s is outside the claimed domain' % nm)
            exp, callargs, nkw, ndef = expected(sj, args, kwargs)
            direct(f, sj, args, kwargs, exp)
            # a cached function "returns the first result thereafter": when the same function was called before with the same bound arguments and only the ORDER of the
            # undeclared keywords differed (the order is no part of the combination), the earlier result - which reports the earlier order - is the right answer as well
            alts = [e for e in earlier[fn] if all(same(e.get(part), exp.get(part)) for part in ('p', 'va', 'vk'))] if 'cache' in stack and isinstance(exp, dict) else []
            if kind == 'bind':
                check_binding(label, w, f, sj, args, kwargs, exp, callargs, alts=alts)
            else:
                a, k = bvals(args, kwargs)
                r = call('%s for %s' % (label, call_text(sj, args, kwargs)), w, *a, **k)
                check(same(r, exp) or any(same(r, e) for e in alts), '%s for %s returned %s, f itself returns %s', label, call_text(sj, args, kwargs), r, exp)
            if isinstance(exp, dict):
                earlier[fn].append(exp)
            if ndef and seen_fns and fn != seen_fns[0] and dvals[fn] != dvals[seen_fns[0]]:
                unfilled_later = True
        if fn not in seen_fns:
            seen_fns.append(fn)
        inspected.append(fn)
    # finally every function reports its own defaults, in reverse order of creation
    for fn in range(nf - 1, -1, -1):
        check_argspec('%s [function %i of %i from one %s factory]' % (what, fn, nf, form), ws[fn], fs[fn])
    switches = sum(1 for a, b in zip(inspected, inspected[1:]) if a != b)
    twins = False
    if 'cache' in stack:
        seen = {}
        for fn, kind, args, kwargs in ops:
            if kind != 'spec':
                shape = repr((fn, [_content(a) for a in args], sorted((k, repr(_content(v))) for k, v in kwargs)))
                exact = repr((fn, args, sorted(kwargs)))
                if shape in seen and exact not in seen[shape]:
                    twins = True
                seen.setdefault(shape, set()).add(exact)
    cls = ['form=' + form, 'functions=%i' % nf, 'depth=%i' % len(stack)]
    if switches >= 2:
        cls.append('interleaved')
    if unfilled_later:
        cls.append('default_left_unfilled_on_function_inspected_later')
    if any(not build(v) for dv in dvals for v in dv):
        cls.append('falsy_default')
    if any(_is_tagged(v, 'tuple', 'dict') for dv in dvals for v in dv):
        cls.append('tuple_or_dict_default')
    if len(ops) > len(set(op[0] for op in ops)):
        cls.append('same_function_bound_or_called_twice')
    if 'cache' in stack:
        cls.append('cached')
    if twins:
        cls.append('container_twins_in_cached_history')
    return dict(nt=unfilled_later, cls=cls)


# ----------------------------------------------------------------------------- sub-check: large numbers of keys / arguments

LARGE = [64, 65, 100, 128, 129, 200, 256, 300]
MANY = [400, 1000, 2000]


def _long_call(s, npos, nkw, kw_order):
    args = [1] * _sig(s)[0] + [i % 7 for i in range(npos)]
    kwargs = [['k%03i' % i, i % 5] for i in range(nkw)]
    return args, kwargs[::-1] if kw_order == 'down' else kwargs


def large_cases():
    for N in LARGE:
        for shape in ['positional', 'keyword', 'same_len_first_last', 'pos+kw', 'list', 'minus1_minus2', 'mersenne', 'nested_minus1_minus2', 'container_twins']:
            for order in ['same', 'reversed', 'rotated']:
                for ret in [None, ['by_first']]:
                    yield dict(part='cache_keys', N=N, shape=shape, order=order, ret=ret)
    # many more distinct argument combinations than a bounded cache (maxsize 128 ... 1024) would hold, then the early ones again (bug class 34)
    j = 0
    for N in MANY:
        for shape in ['positional', 'keyword', 'pos+kw', 'mersenne']:
            for order in ['same', 'rotated']:
                j += 1
                yield dict(part='cache_keys', N=N, shape=shape, order=order, ret=['by_first'] if j % 3 == 0 else None)
    sigs = [dict(n=1, d=0, va=True, vk=True), dict(n=0, d=0, va=True, vk=False), dict(n=0, d=0, va=False, vk=True), dict(n=2, d=1, va=True, vk=True)]
    c = 0
    for N in [64, 65, 128, 200]:
        for s in sigs:
            modes = [(N, 0)] * s['va'] + [(0, N)] * s['vk'] + [(N, N), (3, N)] * (s['va'] and s['vk'])
            for npos, nkw in modes:
                for nm in DECOS:
                    c += 1
                    order = 'down' if c % 2 else 'up'
                    args, kwargs = _long_call(s, npos, nkw, order)
                    stack = [nm] if c % 3 else [nm, DECOS[(c * 7 + 3) % len(DECOS)]]
                    stack = [x for x in stack if admissible(x, s, args, kwargs)]
                    if stack:
                        yield dict(part='long_call', N=N, sig=s, npos=npos, nkw=nkw, stack=stack, kw_order=order)


_LARGE = []


def enum_large(tier):
    if not _LARGE:
        _LARGE.extend(large_cases())

    def chunker(i, nchunks):
        for j in range(i, len(_LARGE), nchunks):
            yield _LARGE[j]
    return len(_LARGE), chunker


def _large_key(shape, i):
    if shape == 'positional':
        return [i], []
    if shape == 'keyword':
        return [], [['a', i]]
    if shape == 'same_len_first_last':
        return [0, i, 0], []          # same length, same first and last element: only the middle tells the keys apart
    if shape == 'pos+kw':
        return [i % 8], [['x', i // 8]]
    # hash-colliding families: consecutive keys differ only by -1 / -2, or by a multiple of 2**61 - 1
    if shape == 'minus1_minus2':
        return ([i // 4, -1 - i % 2], []) if i % 4 < 2 else ([i // 4], [['x', -1 - i % 2]])
    if shape == 'mersenne':
        return [i // 2 + (i % 2) * M61], []
    if shape == 'nested_minus1_minus2':
        return [['list', [-1 - i % 2, i // 2]]], []
    if shape == 'container_twins':
        # the same content in a dict, a list of pair tuples, a tuple of pair tuples, a list of pair lists; by position or by keyword; every 8th empty-ish
        j = i // 4
        v = [['dict', [['k', j]]], ['list', [['tuple', ['k', j]]]], ['tuple', [['tuple', ['k', j]]]], ['list', [['list', ['k', j]]]]][i % 4]
        return ([v], []) if j % 2 else ([], [['a', v]])
    return [['list', [i // 16, i % 16]]], []


def run_large(spec):
    N = spec['N']
    if spec['part'] == 'cache_keys':
        s = dict(n=1, d=0, va=True, vk=True)
        ret = spec.get('ret')
        log = []
        f = make_fn(s, log, counter=True, ret=ret)
        w = wrap(['cache'], f)
        first = []
        for i in range(N):
            args, kwargs = _large_key(spec['shape'], i)
            exp = expected(s, args, kwargs)[0]
            a, k = bvals(args, kwargs)
            r = call('cache(f) for %s (key %i of %i)' % (call_text(s, args, kwargs), i, N), w, *a, **k)
            check(len(log) == i + 1, 'cache(f): after %s distinct argument combinations f was evaluated %s times', i + 1, len(log))
            exp = apply_ret(ret, dict(exp, n=len(log)))
            check(same(r, exp), 'cache(f) for %s returned %s, f returns %s', call_text(s, args, kwargs), r, exp)
            first.append(exp)
        order = list(range(N))
        if spec['order'] == 'reversed':
            order = order[::-1]
        elif spec['order'] == 'rotated':
            order = order[N // 2:] + order[:N // 2]
        for i in order:
            args, kwargs = _large_key(spec['shape'], i)
            a, k = bvals(args, kwargs)
            r = call('cache(f) for %s (key %i of %i, second round)' % (call_text(s, args, kwargs), i, N), w, *a, **k)
            check(len(log) == N, 'cache(f) holding %s keys: key number %s was passed again and f was evaluated again (%s evaluations)', N, i, len(log))
            check(same(r, first[i]), 'cache(f) holding %s keys: key number %s returned %s, its first result was %s', N, i, r, first[i])
        return dict(nt=True, cls=['cache_keys', 'N=%i' % N, 'shape=' + spec['shape'], 'order=' + spec['order']] + (['falsy_results'] if ret else [])
                    + (['hash_colliding_arguments'] if 'minus' in spec['shape'] or spec['shape'] == 'mersenne' else [])
                    + (['container_twin_arguments'] if spec['shape'] == 'container_twins' else [])
                    + (['more_keys_than_a_bounded_cache_would_hold'] if N >= 400 else []))
    s, stack = spec['sig'], spec['stack']
    args, kwargs = _long_call(s, spec['npos'], spec['nkw'], spec['kw_order'])
    for nm in stack:
        if not admissible(nm, s, args, kwargs):
            raise HarnessError('%s is outside the claimed domain' % nm)
    exp, callargs, nkw, ndef = expected(s, args, kwargs)
    log = []
    f = make_fn(s, log)
    direct(f, s, args, kwargs, exp)
    what = stack_text(stack)
    w = wrap(stack, f)
    txt = 'f(%s) called with %i positional and %i keyword arguments' % (sig_text(s), len(args), len(kwargs))
    a, k = bvals(args, kwargs)
    r = call('%s for %s' % (what, txt), w, *a, **k)
    check(same(r, exp), '%s for %s returned %s, f itself returns %s', what, txt, r, exp)
    check_argspec(what, w, f)
    check_binding(what, w, f, s, args, kwargs, exp, callargs)
    return dict(nt=True, cls=['long_call', 'N=%i' % N, 'positional=%i' % min(len(args), 64), 'keyword=%i' % min(len(kwargs), 64)])


# ----------------------------------------------------------------------------- sub-check: exhaustive signature x split grid

GRID_VALUES = {
    'scalars': dict(pos=[10, 11, 12, 13], kw=[20, 21, 22, 23], xpos=[100, 101], xkw=[200, 201]),
    'mixed': dict(pos=['a', ['list', [1, 2]], None, ['dict', [['k', 1]]]], kw=[0, ['dict', [['k', 2]]], ['list', []], ''],
                  xpos=[['list', [3]], None], xkw=[['dict', []], 'ab']),
}


GRID_WORDS = ['function', 'value']     # extra keywords of the 'mixed' value set: spelled like parameters of getcallargs / the wrappers


def grid_cases():
    for n in range(5):
        for d in range(n + 1):
            for va in (False, True):
                for vk in (False, True):
                    s = dict(n=n, d=d, va=va, vk=vk)
                    for k in range(n + 1):
                        opts = [['kw', 'omit'] if i >= n - d else ['kw'] for i in range(k, n)]
                        for choice in itertools.product(*opts):
                            for ep in ([0, 1, 2] if (va and k == n) else [0]):
                                for ek in ([0, 1, 2] if vk else [0]):
                                    for vals in sorted(GRID_VALUES):
                                        V = GRID_VALUES[vals]
                                        args = V['pos'][:k] + V['xpos'][:ep]
                                        kwargs = [[NAMES[i], V['kw'][i]] for i, c in zip(range(k, n), choice) if c == 'kw']
                                        kwargs += [[(GRID_WORDS if vals == 'mixed' else EXTRA_KW)[j], V['xkw'][j]] for j in range(ek)]
                                        yield dict(sig=s, args=args, kwargs=kwargs)
                                        if len(kwargs) >= 2:
                                            yield dict(sig=s, args=args, kwargs=kwargs[::-1])
                                    if n >= 2 or d >= 1:
                                        # names that are prefixes of one another, defaults None / 0 / '' / False, extra keywords that are
                                        # sub-/super-strings of the declared names
                                        s1 = dict(s, nm=1, dv=1)
                                        V = GRID_VALUES['scalars']
                                        args = V['pos'][:k] + V['xpos'][:ep]
                                        kwargs = [[NESTED[i], V['kw'][i]] for i, c in zip(range(k, n), choice) if c == 'kw']
                                        kwargs += [[NESTED_EXTRA[j], V['xkw'][j]] for j in range(ek)]
                                        yield dict(sig=s1, args=args, kwargs=kwargs[::-1])


_GRID = []


def enum_grid(tier):
    if not _GRID:
        _GRID.extend(grid_cases())

    def chunker(i, nchunks):
        for j in range(i, len(_GRID), nchunks):
            yield _GRID[j]
    return len(_GRID), chunker


def run_grid(spec):
    s, args, kwargs = spec['sig'], spec['args'], spec['kwargs']
    exp, callargs, nkw, ndef = expected(s, args, kwargs)
    log = []
    f = make_fn(s, log)
    direct(f, s, args, kwargs, exp)
    check_argspec('f', f, f)
    check_binding('f', f, f, s, args, kwargs, exp, callargs)
    txt = call_text(s, args, kwargs)
    cls = []
    for nm in DECOS:
        if not admissible(nm, s, args, kwargs):
            cls.append('outside_domain:' + nm)
            continue
        what = '%s(f)' % nm
        w = wrap([nm], f)
        check_argspec(what, w, f)
        a, k = bvals(args, kwargs)
        n0 = len(log)
        r = call('%s for %s' % (what, txt), w, *a, **k)
        check(same(r, exp), '%s for %s returned %s, f itself returns %s', what, txt, r, exp)
        if nm == 'cache':
            check(len(log) - n0 == 1, '%s for %s (fresh cache) evaluated f %s times', what, txt, len(log) - n0)
            check_twin_calls(what, w, s, args, kwargs, None, log, n0, 1, cls)
            for v in FALSY:
                logc = []
                wc = wrap(['cache'], make_fn(s, logc, ret=['const', v]))
                for i in (1, 2):
                    a, k = bvals(args, kwargs)
                    r = call('%s (f returns %r) for %s, call %i' % (what, build(v), txt, i), wc, *a, **k)
                    check(same(r, build(v)), '%s for %s, call %s returned %s, f returns %s', what, txt, i, r, build(v))
                    check(len(logc) == 1, '%s for %s: f returns %s; after %s identical calls f was evaluated %s times', what, txt, build(v), i, len(logc))
        check_binding(what, w, f, s, args, kwargs, exp, callargs)
        # wrapping twice directly
        ww = call('%s(%s)' % (nm, what), deco(nm), w)
        lw, fw = layers(ww)
        check(len(lw) == 1 and fw is f, '%s(%s) is not a single layer around f: %s', nm, what, ww)
        a, k = bvals(args, kwargs)
        r = call('%s(%s) for %s' % (nm, what, txt), ww, *a, **k)
        check(same(r, exp), '%s(%s) for %s returned %s, f itself returns %s', nm, what, txt, r, exp)
    n, d, va, vk = _sig(s)
    if nkw >= 1 and ndef >= 1:
        cls.append('kw+default')
    if nkw == n and n:
        cls.append('all_by_keyword')
    if len(args) > n:
        cls.append('extra_positional')
    if has_extra_kw(s, kwargs):
        cls.append('extra_keyword')
    if s.get('nm'):
        cls.append('nested_names+falsy_defaults')
        if ndef:
            cls.append('falsy_default_relied_on')
    if any(k == 'function' for k, _ in kwargs):
        cls.append('keyword_named_function')
    if len(args) == n + 1 and is_container_spec(args[-1]):
        cls.append('single_list_in_varargs')
    return dict(nt=nkw >= 1 and ndef >= 1, cls=cls)


# ----------------------------------------------------------------------------- sub-check: cache call histories

# None first: hypothesis favours / shrinks towards small indices. From index 6 on: hash twins of other members
# (hash(-1) == hash(-2), hash(0) == hash(2**61 - 1), hash(1) == hash(2**61), equal hashes of the tuples the lists are normalised to)
POOL = [None, 0, 1, 'a', ['list', [1, 2]], ['dict', [['k', 1]]], -1, -2, M61, M61 + 1, ['list', [-1, 3]], ['list', [-2, 3]],
        # from index 12 on: containers with the same content but another type - distinct arguments since fix F27
        ['list', []], ['dict', []], ['tuple', []],                                                                   # 12 13 14
        ['tuple', [1, 2]],                                                                                           # 15 (twin of 4)
        ['dict', [['a', 1]]], ['list', [['tuple', ['a', 1]]]], ['tuple', [['tuple', ['a', 1]]]],                      # 16 17 18
        ['list', [['list', [1]]]], ['list', [['tuple', [1]]]],                                                        # 19 20
        ['dict', [['k', ['list', [1]]]]], ['dict', [['k', ['tuple', [1]]]]],                                          # 21 22
        # one dict written in two insertion orders: the SAME argument
        ['dict', [['k', 1], ['m', 2]]], ['dict', [['m', 2], ['k', 1]]],                                               # 23 24
        # dicts keyed by numbers only, each in two insertion orders (the same argument); 2**53 + 1 and float(2**53) are different keys
        ['dict', [[1, 1], [2, 2]]], ['dict', [[2, 2], [1, 1]]],                                                       # 25 26
        ['dict', [[2 ** 53 + 1, 1], [float(2 ** 53), 2]]], ['dict', [[float(2 ** 53), 2], [2 ** 53 + 1, 1]]]]         # 27 28
if INCLUDE_MIXED_KEY_DICTS:
    # keys that cannot be ordered among themselves, in two insertion orders                                             29 30 31 32
    POOL += [['dict', [[1, 'a'], ['b', 2]]], ['dict', [['b', 2], [1, 'a']]], ['dict', [[None, 1], ['k', 2]]], ['dict', [['k', 2], [None, 1]]]]
TWIN_IDX = {6: 7, 7: 6, 1: 8, 8: 1, 2: 9, 9: 2, 10: 11, 11: 10}
SHAPE_GROUPS = {'empty_container_twins': [12, 13, 14], 'list_tuple_twin': [4, 15], 'dict_vs_pairs_twin': [16, 17, 18],
                'nested_container_twin': [19, 20], 'nested_in_dict_twin': [21, 22]}
SHAPE_OF = {i: g for g, idx in SHAPE_GROUPS.items() for i in idx}
SAME_DICT = {23: 24, 24: 23, 25: 26, 26: 25, 27: 28, 28: 27}
if INCLUDE_MIXED_KEY_DICTS:
    SAME_DICT.update({29: 30, 30: 29, 31: 32, 32: 31})
CACHED = [
    dict(sig=dict(n=2, d=1, va=False, vk=False), stack=['cache']),
    # same signature, separate wrapper made by the same decorator object: caches must not be shared. Returns None / 0 / False / '' / [] / {} depending on its first argument
    dict(sig=dict(n=2, d=1, va=False, vk=False), stack=['cache'], ret=['by_first']),
    dict(sig=dict(n=1, d=0, va=True, vk=True), stack=['cache', 'cache'], ret=['by_first']),       # wrapped twice = wrapped once
    dict(sig=dict(n=3, d=3, va=False, vk=True), stack=['cache'], ret=['by_first']),
]


def _tok(v):
    """canonical key of a value spec from the pool (type-strict, structure-preserving; a dict is its set of items) - independent of the library's key"""
    if isinstance(v, list):
        if v[0] in ('list', 'tuple'):
            return (v[0],) + tuple(_tok(x) for x in v[1])
        return ('dict',) + tuple(ksorted([((type(k).__name__, k), _tok(x)) for k, x in v[1]]))
    return (type(v).__name__, v)


class CacheModel(object):
    OPS = {
        'call': dict(fn=st.integers(0, len(CACHED) - 1), vals=st.lists(st.integers(0, len(POOL) - 1), min_size=6, max_size=6),
                     k=st.integers(0, 5), omit=st.lists(st.booleans(), min_size=4, max_size=4),
                     xkw=st.lists(st.sampled_from(['x', 'y']), max_size=2, unique=True), rev=st.booleans()),
        'recall': dict(j=st.integers(0, 40), rev=st.booleans()),
        'twin': dict(j=st.integers(0, 40)),
        'same_on_other': dict(j=st.integers(0, 40)),
        'collide': dict(j=st.integers(0, 40), which=st.integers(0, 5)),
        'retype': dict(j=st.integers(0, 40), which=st.integers(0, 9), step=st.integers(1, 2)),
    }
    PRE = {'recall': lambda m: len(m.history) > 0, 'twin': lambda m: len(m.history) > 0, 'same_on_other': lambda m: len(m.history) > 0,
           'collide': lambda m: len(m.history) > 0, 'retype': lambda m: len(m.history) > 0}

    def __init__(self):
        self.logs = [[] for _ in CACHED]
        self.fs = [make_fn(c['sig'], log, counter=True, ret=c.get('ret')) for c, log in zip(CACHED, self.logs)]
        # functions 0 and 1 (same signature) are decorated through ONE decorator object, d = cache_func(); d(f0); d(f1): every wrapper still has a cache of its own.
        # The others go through the class, cache(f).
        import pyg_base
        one = call('cache_func()', pyg_base.cache_func)
        self.ws = [call('d = cache_func(); d(f%i)' % i, one, f) if i < 2 else wrap(c['stack'], f) for i, (c, f) in enumerate(zip(CACHED, self.fs))]
        for c, w, f in zip(CACHED, self.ws, self.fs):
            lw, fw = layers(w)
            check(len(lw) == 1 and fw is f, '%s is not a single cache layer around f: %s', stack_text(c['stack']), w)
        self.first = [dict() for _ in CACHED]    # key -> result of the first evaluation
        self.history = []                        # (fn, args idx, kwargs [[name, idx]], key)
        self.flags = set()

    # --- helpers
    def _do(self, fn, args_i, kwargs_i):
        s = CACHED[fn]['sig']
        args = [POOL[i] for i in args_i]
        kwargs = [[k, POOL[i]] for k, i in kwargs_i]
        exp, callargs, nkw, ndef = expected(s, args, kwargs)
        echo = exp
        key = (tuple(_tok(v) for v in args), tuple(sorted((k, _tok(v)) for k, v in kwargs)))
        log = self.logs[fn]
        n0 = len(log)
        a, k = bvals(args, kwargs)
        what = '%s for %s' % (stack_text(CACHED[fn]['stack']), call_text(s, args, kwargs))
        r = call(what, self.ws[fn], *a, **k)
        evals = len(log) - n0
        known = self.first[fn]
        if key not in known:
            check(evals == 1, '%s (function %s): first call with these arguments as passed, f was evaluated %s times', what, fn, evals)
            exp = apply_ret(CACHED[fn].get('ret'), dict(exp, n=len(log)))
            check(same(r, exp), '%s (function %s) returned %s, f returns %s', what, fn, r, exp)
            known[key] = exp
            self.flags.add('first_result:' + ret_label(exp))
        else:
            check(evals == 0, '%s (function %s): these arguments were passed before, f was evaluated again (%s times)', what, fn, evals)
            check(same(r, known[key]), '%s (function %s): repeated call returned %s, the first result was %s', what, fn, r, known[key])
            self.flags.add('cached_result_is_' + ret_label(known[key]))
            if ret_label(known[key]).startswith('falsy'):
                self.flags.add('cached_result_is_falsy')
            prev = [h for h in self.history if h[0] == fn]
            last = max(i for i, h in enumerate(prev) if h[3] == key)
            if any(h[3] != key for h in prev[last + 1:]):
                self.flags.add('hit_after_other_key')
            else:
                self.flags.add('hit_immediately')
            if any(isinstance(POOL[i], list) for i in list(args_i) + [i for _, i in kwargs_i]):
                self.flags.add('hit_with_container_argument')
            if [k for k, _ in prev[last][2]] != [k for k, _ in kwargs_i]:
                self.flags.add('hit_with_keywords_reordered')
        if any(h[0] != fn and h[3] == key for h in self.history):
            self.flags.add('same_arguments_on_two_functions')
        canon = lambda idx: min(idx, TWIN_IDX.get(idx, idx))
        ckey = (tuple(canon(i) for i in args_i), tuple(sorted((k, canon(i)) for k, i in kwargs_i)))
        scanon = lambda idx: ('grp', SHAPE_OF[idx]) if idx in SHAPE_OF else idx
        skey = (tuple(scanon(i) for i in args_i), tuple(sorted((k, str(scanon(i))) for k, i in kwargs_i)))
        for h in self.history:
            if h[0] == fn and h[3] != key and h[6] == skey:
                self.flags.add('container_twin_in_history')
                for i in list(args_i) + [i for _, i in kwargs_i]:
                    if i in SHAPE_OF and i not in h[1] + [x for _, x in h[2]]:
                        self.flags.add(SHAPE_OF[i] + '_in_history')
                        if SHAPE_OF[i] == 'dict_vs_pairs_twin' and 16 not in (list(args_i) + [x for _, x in kwargs_i] + h[1] + [x for _, x in h[2]]):
                            self.flags.add('pairs_list_vs_pairs_tuple_in_history')
            if h[0] == fn and h[3] == key:
                for a, b in zip(list(args_i) + [i for _, i in sorted(kwargs_i)], h[1] + [i for _, i in sorted(h[2])]):
                    if SAME_DICT.get(a) == b:
                        self.flags.add('hit_with_dict_in_other_insertion_order')
                        if number_keyed(POOL[a]):
                            self.flags.add('hit_with_number_keyed_dict_in_other_insertion_order')
                        elif a >= 29:
                            self.flags.add('hit_with_mixed_key_dict_in_other_insertion_order')
        for h in self.history:
            if h[0] == fn and h[3] != key and h[5] == ckey:
                self.flags.add('hash_colliding_arguments')
                self.flags.add('hash_colliding_after_%s' % ('None_result' if self.first[fn][h[3]] is None else 'report'
                                                             if ret_label(self.first[fn][h[3]]) == 'report' else 'falsy_result'))
        bound = _tok_bound(echo)
        if any(h[0] == fn and h[3] != key and h[4] == bound for h in self.history):
            self.flags.add('same_binding_other_split')
        self.history.append((fn, list(args_i), [list(kv) for kv in kwargs_i], key, bound, ckey, skey))

    # --- operations
    def op_call(self, fn, vals, k, omit, xkw, rev):
        n, d, va, vk = _sig(CACHED[fn]['sig'])
        k = min(k, n + 2) if va else min(k, n)
        npos = min(k, n)
        args_i = [vals[i] for i in range(npos)]
        kwargs_i = []
        for i in range(npos, n):
            if i >= n - d and omit[i]:
                continue
            kwargs_i.append([NAMES[i], vals[i]])
        if va and npos == n:
            args_i += [vals[4 + j] for j in range(k - n)]
        if vk:
            kwargs_i += [[nm, vals[4 + j]] for j, nm in enumerate(xkw)]
        if rev:
            kwargs_i = kwargs_i[::-1]
        self._do(fn, args_i, kwargs_i)

    def op_recall(self, j, rev):
        fn, args_i, kwargs_i = self.history[j % len(self.history)][:3]
        self._do(fn, args_i, kwargs_i[::-1] if rev else kwargs_i)

    def op_twin(self, j):
        """the same binding through another split: the last positional parameter by keyword, or the first keyword one positionally"""
        fn, args_i, kwargs_i = self.history[j % len(self.history)][:3]
        n = _sig(CACHED[fn]['sig'])[0]
        args_i, kwargs_i = list(args_i), [list(kv) for kv in kwargs_i]
        if 0 < len(args_i) <= n:
            kwargs_i.append([NAMES[len(args_i) - 1], args_i.pop()])
        elif len(args_i) < n and any(k == NAMES[len(args_i)] for k, _ in kwargs_i):
            nm = NAMES[len(args_i)]
            args_i.append([i for k, i in kwargs_i if k == nm][0])
            kwargs_i = [kv for kv in kwargs_i if kv[0] != nm]
        self._do(fn, args_i, kwargs_i)

    def op_collide(self, j, which):
        """an earlier call with one argument replaced by its hash twin (-1 <-> -2, 0 <-> 2**61-1, 1 <-> 2**61, [-1,3] <-> [-2,3]): a distinct key"""
        fn, args_i, kwargs_i = self.history[j % len(self.history)][:3]
        args_i, kwargs_i = list(args_i), [list(kv) for kv in kwargs_i]
        slots = [('a', i) for i, v in enumerate(args_i) if v in TWIN_IDX] + [('k', i) for i, (k, v) in enumerate(kwargs_i) if v in TWIN_IDX]
        if slots:
            kind, i = slots[which % len(slots)]
            if kind == 'a':
                args_i[i] = TWIN_IDX[args_i[i]]
            else:
                kwargs_i[i][1] = TWIN_IDX[kwargs_i[i][1]]
        elif args_i:
            args_i[which % len(args_i)] = 6 + which % 2      # plant a -1 / -2 for later collisions
        elif kwargs_i:
            kwargs_i[which % len(kwargs_i)][1] = 6 + which % 2
        self._do(fn, args_i, kwargs_i)

    def op_retype(self, j, which, step):
        """an earlier call with one container argument replaced by a container of another type with the same content ([] -> {} -> (),
        [1,2] <-> (1,2), {'a':1} -> [('a',1)] -> (('a',1),), one level down too), or a dict by the same dict in another insertion order"""
        fn, args_i, kwargs_i = self.history[j % len(self.history)][:3]
        args_i, kwargs_i = list(args_i), [list(kv) for kv in kwargs_i]
        ok = lambda v: v in SHAPE_OF or v in SAME_DICT

        def nxt(v):
            if v in SAME_DICT:
                return SAME_DICT[v]
            grp = SHAPE_GROUPS[SHAPE_OF[v]]
            return grp[(grp.index(v) + step) % len(grp)]
        slots = [('a', i) for i, v in enumerate(args_i) if ok(v)] + [('k', i) for i, (k, v) in enumerate(kwargs_i) if ok(v)]
        shaped = [('a', i) for i, v in enumerate(args_i) if v in SHAPE_OF] + [('k', i) for i, (k, v) in enumerate(kwargs_i) if v in SHAPE_OF]
        if shaped and step == 2:
            slots = shaped      # a container of another type rather than the same dict in another insertion order
        plant = ([12, 4, 16, 19, 21, 23, 25, 27] + ([29, 31] if INCLUDE_MIXED_KEY_DICTS else [4, 15]))[which]
        if which >= 8 and (args_i or kwargs_i) and not any(v in (4, 15) for v in args_i + [x for _, x in kwargs_i]):
            slots = []               # plant [1,2] / (1,2) even if another container could be re-typed
        if slots:
            kind, i = slots[which % len(slots)]
            if kind == 'a':
                args_i[i] = nxt(args_i[i])
            else:
                kwargs_i[i][1] = nxt(kwargs_i[i][1])
        elif args_i:
            args_i[-1] = plant       # the last positional: usually not the argument that decides the return mode
        elif kwargs_i:
            kwargs_i[which % len(kwargs_i)][1] = plant
        self._do(fn, args_i, kwargs_i)

    def op_same_on_other(self, j):
        """function 0 and 1 share a signature: replay a call of the one on the other"""
        fn, args_i, kwargs_i = self.history[j % len(self.history)][:3]
        if fn in (0, 1):
            self._do(1 - fn, args_i, kwargs_i)
        else:
            self._do(fn, args_i, kwargs_i)

    def check(self):
        for fn, (log, known) in enumerate(zip(self.logs, self.first)):
            check(len(log) == len(known), 'function %s: %s distinct argument combinations were passed so far, f was evaluated %s times', fn, len(known), len(log))

    def info(self):
        return dict(nt='hit_after_other_key' in self.flags, cls=sorted(self.flags) + ['steps>=10'] * (len(self.history) >= 10))


def _tok_bound(exp):
    def t(x):
        if isinstance(x, (list, tuple)):
            return (type(x).__name__,) + tuple(t(i) for i in x)
        if isinstance(x, dict):
            return ('dict',) + tuple(ksorted([((type(k).__name__, k), t(v)) for k, v in x.items()]))
        return (type(x).__name__, x)
    return t([exp['p'], exp['va'], exp['vk']])


# ----------------------------------------------------------------------------- registration

SUBS = [
    Sub('transparent', lambda tier: s_transparent(), run_transparent, quick=2000, thorough=30000,
        rule='random signature, random valid call with values from ints/strings/None/lists/dicts, stack of 1-3 of the 11 decorators (repeats allowed), '
             'non-raising f; result == own binding model == direct call, getargspec fields == inspect.getfullargspec(f) before and after the call, '
             'getcallargs / call_with_callargs through the stack; in half the cases the same decorator objects then wrap a second function with '
             'another signature. A third of the signatures use names that are prefixes of one another (a, ab, abc, abcd), a third defaults None/0/\'\'/False; **vk functions also get keywords spelled like wrapper parameters (function, value, exc, cache, types, repeat) and the ORDER in which extra keywords reach f is part of its report; class decorators are applied as D(f) or D()(f). In ~30% of the cases f returns a constant None / 0 / False / '' / [] / {} instead of its report; with a cache layer anywhere in the stack the same call is made twice: f evaluated exactly once (counted by side channel), same result, and once more with every dict argument written in the reverse insertion order (the same arguments: no evaluation; dicts keyed by numbers only included). A fifth of the signatures with defaults have container defaults; half of the pd2np layers are pd2np(exc = name / list of 0-2 names); in half of the D()(f) spellings ONE decorator object per class is applied to both functions (both wrapped before either is called); getcallargs\' dict is handed to call_with_callargs twice. In a sixth of the cases one argument is (or holds) a non-integral float (of order 1, 1e3 or 1e-9); under a cache layer the call is then repeated with a float within rtol 1e-5 / atol 1e-8 of it (a distinct argument: evaluated on its own), and every call that relies on a default is repeated with that parameter\'s own default passed explicitly, by keyword or by position (the same report, another combination of arguments as passed: evaluated on its own). One signature in eight is that of a function in another FORM: the outer function of a functools.wraps decorator carrying __wrapped__ = an inner function with another signature (leading parameter more, renamed, reversed, other defaults, more parameters), or a functools.partial object supplying 1-2 leading arguments - judged by the signature python binds calls to (the outer one); functions with no parameter at all are labelled. non-trivial = stack of >= 2 decorators, or >= 1 keyword argument and >= 1 default relied on',
        floor=0.5, class_floors={'depth=3': 0.15, 'kw+default': 0.07, 'second_function_same_decorators': 0.15, 'has:cache_func': 0.15, 'has:loops': 0.07,
                                 'has:pd2np': 0.12, 'has:kwargs_support': 0.12, 'has:try_back': 0.15, 'has:try_value': 0.15,
                                 'f_returns_None': 0.08, 'f_returns_falsy': 0.08, 'cached_result_is_None': 0.03, 'cached_result_is_falsy': 0.03,
                                 'names_prefixes_of_one_another': 0.1, 'two_step_spelling': 0.1, 'keyword_named_like_wrapper_parameter': 0.04, 'keyword_named_function': 0.01,
                                 'hash_colliding_arguments': 0.15, 'container_twin_arguments': 0.1, 'empty_container_twins': 0.01, 'list_tuple_twin': 0.03,
                                 'dict_vs_pairs_twin': 0.015, 'nested_container_twin': 0.01,
                                 'two_extra_keywords_in_order': 0.06, 'falsy_default_relied_on': 0.025,
                                 'container_default': 0.04, 'container_default_relied_on': 0.015, 'pd2np_exc': 0.025, 'pd2np_excluded_keyword_passed': 0.005, 'pd2np_exc:string': 0.004,
                                 'pd2np_exc:list_of_0': 0.007, 'pd2np_exc:list_of_1': 0.005, 'pd2np_exc:list_of_2': 0.006, 'one_decorator_object_on_two_functions': 0.007,
                                 'dict_argument_in_other_insertion_order': 0.03, 'number_keyed_dict_in_other_insertion_order': 0.02,
                                 'float_argument': 0.025, 'float_arguments_within_tolerance': 0.009, 'within_tolerance:of_order_1e-9': 0.003, 'within_tolerance:nested': 0.003,
                                 'own_default_passed_explicitly': 0.025, 'own_default_passed_explicitly:keyword': 0.02, 'own_default_passed_explicitly:positional': 0.003}),
    Sub('session', lambda tier: s_session(), run_session, quick=1200, thorough=20000,
        rule='ONE function, ONE wrapper object (stack of 1-3 decorators, non-raising f), 2-4 calls on it: the first random, the others derived from an earlier one as its prefix (last extra positional / '
             'an extra keyword / a defaulted parameter left out), extension, permutation of the keywords, the same binding through another split, the same shape with other values, the same call, or a fresh call; '
             'every call is judged by the single-call oracle (own binding model == direct call), getargspec and getcallargs / call_with_callargs (the dict handed over twice) are interleaved; with a cache layer '
             'that sees the arguments as passed f must be evaluated once per distinct combination over the whole session. In two thirds of the cases the caller\'s argument containers are built ONCE: the same '
             'list / dict object is passed in every call and every place where that value occurs. A fifth of the signatures with defaults have containers as defaults (tuple as long as the parameter list, '
             'dict keyed like the parameters, empty, one element). Signatures with a default also derive calls that pass a parameter\'s own default explicitly after a call that relied on it (the same binding, another combination as passed); '
             'in a tenth of the cases the caller edits one of its shared argument objects in place between two calls (list.append / a new dict key) and passes it again: judged by the content the caller gave it. non-trivial = at least two different calls',
        floor=0.25, class_floors={'calls=3': 0.1, 'calls=4': 0.08, 'kind:prefix': 0.1, 'kind:extension': 0.08, 'kind:permuted': 0.07, 'kind:resplit': 0.04, 'kind:values': 0.035,
                                  'kind:same': 0.13, 'kind:fresh': 0.04, 'default_relied_on_after_a_call_that_supplied_it': 0.04,
                                  'container_default_relied_on_after_a_call_that_supplied_it': 0.004, 'fewer_varargs_than_an_earlier_call': 0.018,
                                  'fewer_extra_keywords_than_an_earlier_call': 0.035, 'argument_objects_shared_between_calls': 0.16, 'same_object_passed_twice': 0.045,
                                  'evaluations_counted': 0.15, 'binding_between_calls': 0.17, 'container_default': 0.03, 'has:cache_func': 0.15, 'has:loops': 0.055,
                                  'has:pd2np': 0.055, 'has:kwargs_support': 0.06, 'has:try_back': 0.06, 'has:try_value': 0.06, 'depth=3': 0.04,
                                  'kind:explicit_default': 0.03, 'own_default_passed_explicitly_after_relying_on_it': 0.02, 'own_default_passed_explicitly_under_a_counting_cache': 0.006,
                                  'argument_object_edited_in_place_between_calls': 0.035, 'edited_argument_object_under_a_counting_cache': 0.0125}),
    Sub('rewrap', lambda tier: s_rewrap(include_known_defect=REWRAP_DEEP), run_rewrap, quick=1500, thorough=20000,
        rule='stack of 1-3 decorators of distinct classes built on f, then wrapped again with a decorator of a class already in the stack (possibly another '
             'try_* variant); the result must have the layers and parameters of wrapping once, be == to it (dict equality of fresh wrappers), report f\'s '
             'signature, return f\'s result, and the stack that was wrapped again must behave as an identical untouched stack (valid / repeated / raising / '
             'undeclared-keyword probes incl. evaluation counts). non-trivial = the repeated class is reached through a chain (stack >= 2). '
             'The repeated class may sit under 2 other layers (through_2).',
        floor=0.4, class_floors={'through_1': 0.2, 'direct': 0.2, 'through_2': 0.05, 'variant_differs': 0.03, 'spec_cached_before': 0.15}),
    Sub('try_fallback', lambda tier: s_try(), run_try, quick=2000, thorough=30000,
        rule='one try_* layer (try_none/nan/zero/true/false/list/back), alone or with 1-2 transparent layers (kwargs_support, cache, loop, pd2np) around it; '
             'f is told to raise one of 12 Exception classes (built with no argument, a message, 2-3 arguments, a message holding % signs, or one tuple) through any positional / keyword / *va / **vk slot, or not told; half of the try_value layers are spelled try_value(value=.., verbose=True/False/None, repeat=0/1/2)(f); the wrapper must return f\'s '
             'result when f returns and the fallback (try_back: the first argument; try_list: a fresh list every time) when f raises. '
             'A third of the parameterised layers have a sequence as fallback value ([7], (0,), (), a list / tuple as long as the call\'s arguments, a dict keyed like the parameters), returned as a fresh copy; '
             'with a kwargs_support layer in the stack (above or below the try layer) 1-2 keywords f does not declare travel with the call; in 40% of the cases 1-3 further calls follow on the SAME wrapper '
             '(the same call, the order to raise taken out / put in / changed), each judged by the single-call oracle. non-trivial = f raises, or stack >= 2',
        floor=0.4, class_floors={'raises': 0.3, 'returns': 0.2, 'try_back': 0.15, 'try_list': 0.05, 'raises_all_by_keyword': 0.03, 'verbose_wrapper_sees_exception': 0.05, 'verbose_wrapper_sees_unusual_exception_args': 0.02, 'exception_args=0': 0.03, 'exception_args=2': 0.03,
                                 'session': 0.13, 'returns_after_raising_on_the_same_wrapper': 0.06, 'raises_after_returning_on_the_same_wrapper': 0.055, 'raises_twice_on_the_same_wrapper': 0.055,
                                 'fallback_is_a_sequence': 0.017, 'fallback_sequence_of_length_0_or_1': 0.013, 'undeclared_keyword_while_f_raises': 0.015,
                                 'undeclared_keyword_while_f_raises:kwargs_support_above_try_layer': 0.007, 'undeclared_keyword_while_f_raises:kwargs_support_below_try_layer': 0.007,
                                 'try_back_falls_back_to_a_falsy_first_argument': 0.007}),
    Sub('kwargs_support', lambda tier: s_kws(), run_kws, quick=2000, thorough=30000,
        rule='kwargs_support (alone or with 1-2 other decorators above/below) on functions without **vk: valid call plus 1-3 undeclared keywords (x, y, z, '
             'va, vk, function, e, value, exc, cache, names of parameters the function does not have, sub-/super-strings of declared names) in any order -> result of the call without them; a declared keyword that '
             'is also given positionally must still reach f (TypeError); functions with **vk only with declared keywords; the position of kwargs_support relative to try layers and first-argument readers (loops, pd2np) is recorded. Functions that carry __wrapped__ (functools.wraps over an inner function with another signature) declare what their OWN signature declares: half of them are also given a keyword only the inner function has; functions with no parameter at all ignore every keyword. non-trivial = >= 1 undeclared keyword',
        floor=0.3, class_floors={'duplicate': 0.05, 'declared+undeclared_keywords': 0.1, 'undeclared_named_like_varargs': 0.05,
                                 'undeclared_is_substring_or_superstring_of_declared': 0.03, 'undeclared_named_like_wrapper_parameter': 0.04,
                                 'undeclared_keyword_dropped_above_a_try_layer': 0.015, 'undeclared_keyword_passes_a_try_layer_first': 0.025,
                                 'undeclared_keyword_passes_a_first_argument_reader_first': 0.006}),
    MachineSub('cache_history', CacheModel, quick=(400, 30), thorough=(3000, 40),
               rule='histories of <= 30/40 calls on four cached functions (two with the same signature and decorated through one decorator object d = cache_func(), one wrapped twice, one all-defaults with **vk); arguments '
                    'from a 12-element pool (None, 0, 1, "a", [1,2], {"k":1} and the hash twins -1, -2, 2**61-1, 2**61, [-1,3], [-2,3]) in random positional/keyword spellings, re-issued earlier calls (keywords reordered, '
                    'fresh equal containers), the same binding through another split, the same call on the twin function, an earlier call with one argument replaced by its hash twin (a distinct key); model: per function a dict keyed by '
                    '(positional values, sorted keyword items) as passed; every call must evaluate f once if the key is new and not at all otherwise and return '
                    'the first result. Three of the four functions return None / 0 / False / '' / [] / {} depending on their first argument (else the full report with its evaluation number); evaluations are counted through a list closed over by f, never through the result. The pool also holds containers of equal content and different type, and dicts in two insertion orders (the same argument) - keyed by strings and keyed by numbers only ({1:1,2:2}; {2**53+1:1, 2.0**53:2}). non-trivial = a key repeated after an intervening call with another key on that function',
               floor=0.3, class_floors={'hit_after_other_key': 0.3, 'hit_with_keywords_reordered': 0.05, 'hit_with_container_argument': 0.1,
                                        'same_arguments_on_two_functions': 0.1, 'same_binding_other_split': 0.1,
                                        'cached_result_is_None': 0.07, 'cached_result_is_falsy': 0.3, 'cached_result_is_report': 0.3,
                                        'hash_colliding_arguments': 0.3, 'container_twin_in_history': 0.3,
                                        'empty_container_twins_in_history': 0.05, 'list_tuple_twin_in_history': 0.05, 'dict_vs_pairs_twin_in_history': 0.05,
                                        'nested_container_twin_in_history': 0.03, 'hit_with_dict_in_other_insertion_order': 0.03,
                                        'hit_with_number_keyed_dict_in_other_insertion_order': 0.03}),
    Sub('same_code', lambda tier: s_same_code(), run_same_code, quick=800, thorough=15000,
        rule='2-3 functions produced by ONE factory (def or lambda: they share one code object) with different default values and different closures, '
             'bare or under 1-2 decorators; 3-8 operations in random interleaved order: getargspec, getcallargs + call_with_callargs, or a call, each judged '
             'against that function\'s own defaults (own binding model, direct call, inspect); finally every function must still report its own defaults. '
             'non-trivial = a call / binding that leaves a defaulted parameter unfilled on a function whose defaults differ from the first-inspected one',
        floor=0.3, class_floors={'default_left_unfilled_on_function_inspected_later': 0.3, 'form=lambda': 0.2, 'form=def': 0.2, 'interleaved': 0.3,
                                 'falsy_default': 0.3, 'same_function_bound_or_called_twice': 0.5,
                                 'cached': 0.1, 'container_twins_in_cached_history': 0.03, 'tuple_or_dict_default': 0.2}),
    EnumSub('large', enum_large, run_large, chunks=8,
        rule='size thresholds (enumerated completely in both tiers): (a) one cached function given N in {64,65,100,128,129,200,256,300} distinct argument combinations (positional ints, keyword, '
             '(0,i,0) = same length/first/last, positional+keyword, lists, and hash-colliding families: ..,-1 / ..,-2 positional and keyword, i / i+2**61-1, [-1,i] / [-2,i]), then all of them again in the same / reversed / rotated order: N evaluations '
             'in all, every repeat returns its first result (half the functions return None / falsy values); also N in {400,1000,2000} (positional, keyword, positional+keyword, i / i+2**61-1; same / rotated order) - more than a bounded cache of 128 ... 1024 entries would hold; (b) calls with N extra positionals and/or '
             'N extra keywords through 1-2 decorators: result, getargspec, getcallargs / call_with_callargs. every case is non-trivial'),
    EnumSub('binding_grid', enum_grid, run_grid, chunks=16,
            rule='EVERY signature (0-4 positional parameters x 0..n trailing defaults x +-*va x +-**vk = 60) x EVERY split of a valid argument set '
                 '(positional prefix 0..n, each remaining parameter by keyword or left to its default, 0-2 extra positionals for *va, 0-2 extra keywords '
                 'for **vk) x 2 value sets x keyword order forward/reversed, plus a third pass with names a/ab/abc/abcd, defaults None/0/\'\'/False and extra keywords b/bc; on each: getcallargs == inspect.getcallargs == own binding model, '
                 'call_with_callargs(getcallargs) == direct call, and for each of the 11 decorators alone: result, evaluated once, getargspec fields, '
                 'getcallargs/call_with_callargs through the wrapper, W(W(f)) one layer with the same result; cache(f) additionally with f returning each of None / 0 / False / \'\' / [] / {}: two identical calls, one evaluation. '
                 'non-trivial = >= 1 parameter passed by keyword and >= 1 default relied on'),
]

# bug class 36: the form of the function (floors at about a third of the rates observed over seeds 1-3)
FORM_FLOORS = {
    'transparent': {'wrapped_function_with_another_signature': 0.035, 'wraps:lead': 0.012, 'wraps:renamed': 0.005, 'wraps:reordered': 0.001, 'wraps:defaults': 0.003, 'wraps:more': 0.0015,
                    'wrapped_function_called_by_keyword': 0.01, 'partial_object': 0.008, 'no_parameter_at_all': 0.025},
    'session': {'wrapped_function_with_another_signature': 0.017, 'partial_object': 0.008, 'no_parameter_at_all': 0.0125},
    'rewrap': {'wrapped_function_with_another_signature': 0.017, 'partial_object': 0.011, 'no_parameter_at_all': 0.0115},
    'try_fallback': {'wrapped_function_with_another_signature': 0.022, 'partial_object': 0.01},
    'kwargs_support': {'wrapped_function_with_another_signature': 0.024, 'partial_object': 0.01, 'no_parameter_at_all': 0.02, 'undeclared_keyword_to_wrapped_function': 0.011,
                       'undeclared_keyword_is_a_parameter_of_the_inner_function': 0.004, 'undeclared_keyword_to_function_without_parameters': 0.017},
}
for _sub in SUBS:
    _sub.class_floors.update(FORM_FLOORS.get(_sub.name, {}))

if INCLUDE_MIXED_KEY_DICTS:
    for _sub in SUBS:
        if _sub.name == 'transparent':
            _sub.class_floors['mixed_key_dict_in_other_insertion_order'] = 0.01
        if _sub.name == 'cache_history':
            _sub.class_floors['hit_with_mixed_key_dict_in_other_insertion_order'] = 0.05
