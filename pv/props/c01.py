# -*- coding: utf-8 -*-
"""
C01 - a dictable behaves as a rectangular list of records under any operation history.

One stateful sub-check.  The machine keeps a pool of up to three live tables; every pool entry pairs the real
dictable with a reference model (`T`: a list of column names + a plain list of row dicts).  Each rule applies one public
table operation to the real table(s) and the same operation, written with plain loops, to the model(s).  After every
step every live table is compared with its model (column store rectangular, len, shape, keys, columns, iteration,
d[i][c] == d[c][i]); every rule that returns a new table snapshots all live tables before the call and compares them
afterwards (operand immutability); a misfit assignment must raise ValueError and leave the table as it was.

Model conventions that the column store forces (written into the oracle, listed in ASSUMPTIONS):
  * a table with zero columns has zero rows (so `[{}]`, `d + {}` and "delete the last column" give the empty table);
  * column order is not compared;
  * where the API hands back the operand object itself (d + None, 0 + d, concat of a single table) the result is the
    same table, not a copy.
"""
import copy as _copy
import operator

from hypothesis import strategies as st

from pv.core import MachineSub, Violation, call, call_or, must_raise, check, short
from pv.codec import build, s_scalar, D0

ASSUMPTIONS = [
    'cells are None, ints, finite floats, strings and datetimes (no NaN: == on NaN would make the comparison with the model ambiguous; no bools, containers)',
    'column names are identifier-like strings that are neither dictable constructor parameters (data, columns) nor method names, and do not start with "_"',
    'a table with zero columns has zero rows (the column store cannot hold rows without columns): [{}], d + {} and deleting the last column give the empty table',
    'column order is not compared (row masks rebuild the table from records with sorted keys; the statement promises no order)',
    'd + None, d + 0, None + d, sum([d]) and dictable.concat(d) may return the operand itself; the result is then treated as the same table, not as a copy',
    'rows given with headers all have exactly one cell per header; the header-in-first-row form has at least one data row (header only raises ValueError: no length to infer)',
    'd[[]] is read as "no rows" (documented by tests/test_dictable.py::test_dictable_getitem), so column projections d[[cols]] and d & cols keep at least one column; '
    'd & cols with an empty intersection is the table without columns (and so without rows): fixed in /repo (was: kept every column), now generated',
    'rename/relabel targets are fresh names (no collisions); the list form d.rename([names]) is used for >= 2 columns only (one name is ambiguous with the prefix/suffix string form)',
    'slice steps are non-zero; integer indices are within [-len, len); boolean masks have full length; misfit lengths are neither len(d) nor 1',
    'functions used for derived columns / do() are total on the cell universe and return cells of the universe; do() with a function of (value, other) never transforms "other" itself',
    'chained derived columns d(x = f(cols), y = g(x)) use two fresh target names (a target that is its own input is "circular" by design)',
    'construction from two columns of different lengths (neither 1) may raise ValueError; if it returns, only rectangularity is demanded',
    'tables are kept <= 24 rows (concatenations that would exceed this are skipped)',
    'd += x, d -= cols, d &= cols are the statement forms of d + x, d - cols, d & cols: when the statement leaves a new object in the variable the old object and all other live tables '
    'must be untouched; when it leaves the same object, that object holds the result and all OTHER live tables must be untouched',
    'd |= {col: values} is generated with a list of fitting length only: dictable inherits dict.__ior__, which stores scalars unbroadcast and lists of any length without ValueError '
    '(reported as a finding; arg allow_raw is never generated True). d *= / d /= are join / xor (C02), not table operations of this property',
]

NAMES = ['a', 'b', 'c', 'd', 'e']
FRESH = ['f', 'g', 'h', 'i', 'j', 'k', 'l', 'm', 'n', 'o', 'p', 'q']
MAXPOOL = 3
MAXROWS = 24


# ----------------------------------------------------------------------------- reference model of one table

class T(object):
    """columns (list of names) + rows (list of dicts holding exactly these names)"""

    def __init__(self, cols, rows):
        self.cols = list(cols)
        self.rows = [{c: r[c] for c in self.cols} for r in rows] if self.cols else []

    @property
    def n(self):
        return len(self.rows)

    def col(self, c):
        return [r[c] for r in self.rows]

    def copy(self):
        return T(self.cols, self.rows)

    @staticmethod
    def from_columns(columns):
        """columns: list of (name, list) with equal lengths; a later duplicate name wins"""
        cols = []
        data = {}
        for c, v in columns:
            if c not in cols:
                cols.append(c)
            data[c] = v
        n = len(data[cols[0]]) if cols else 0
        return T(cols, [{c: data[c][i] for c in cols} for i in range(n)])

    @staticmethod
    def from_records(recs):
        """ragged records: union of keys, absent -> None"""
        cols = []
        for r in recs:
            for c in r:
                if c not in cols:
                    cols.append(c)
        return T(cols, [{c: r.get(c) for c in cols} for r in recs])

    @staticmethod
    def concat(ts):
        cols = []
        for t in ts:
            for c in t.cols:
                if c not in cols:
                    cols.append(c)
        rows = []
        for t in ts:
            for r in t.rows:
                rows.append({c: r.get(c) for c in cols})
        return T(cols, rows)

    def __repr__(self):
        return 'T(%s, %s)' % (self.cols, self.rows)


def same(a, b):
    """cells are carried through unchanged: identical, or equal with the same type"""
    return a is b or (type(a) is type(b) and a == b)


def same_list(xs, ys):
    return len(xs) == len(ys) and all(same(x, y) for x, y in zip(xs, ys))


def raw(d):
    """the column store, read without going through any dictable method"""
    return {k: dict.__getitem__(d, k) for k in dict.keys(d)}


# ----------------------------------------------------------------------------- total functions on the cell universe

def _isnum(v):
    return isinstance(v, (int, float)) and not isinstance(v, bool)


# functions of several columns (derived columns)
FN = {
    'isnone': lambda *a: int(a[0] is None),
    'tname': lambda *a: type(a[0]).__name__,
    'coalesce': lambda *a: next((x for x in a if x is not None), None),
    'nnone': lambda *a: sum(1 for x in a if x is None),
    'first': lambda *a: a[0],
    'last': lambda *a: a[-1],
    'const': lambda *a: 7,
}
# functions of one cell (do)
F1 = {
    'bump': lambda v: v + 1 if _isnum(v) else v,
    'none0': lambda v: 0 if v is None else v,
    'tag': lambda v: 's' if isinstance(v, str) else v,
    'ident': lambda v: v,
    'tname': lambda v: type(v).__name__,
    'none': lambda v: None,
}
# functions of (value, other column)
F2 = {
    'fill': lambda v, o: o if v is None else v,
    'other': lambda v, o: o,
    'both_none': lambda v, o: int(v is None and o is None),
}


def _named(names, fn):
    """lambda <names>: fn(<names>)  - pyg_base looks at parameter names"""
    return eval('lambda %s: _fn(%s)' % (', '.join(names), ', '.join(names)), {'_fn': fn})


# ----------------------------------------------------------------------------- the machine

_cell = s_scalar()
_vals = st.lists(_cell, min_size=1, max_size=6)
_t = st.integers(0, 5)
_ci = st.integers(0, 7)
_name = st.sampled_from(NAMES)
_names = st.lists(_name, min_size=1, max_size=4, unique=True)
_record = st.lists(st.tuples(_name, _cell), max_size=3, unique_by=lambda kv: kv[0])
_records = st.one_of(
    st.lists(_record, max_size=5),
    st.tuples(st.lists(_name, max_size=4, unique=True), st.integers(0, 5), st.lists(_cell, min_size=20, max_size=20)).map(
        lambda t: [[[c, t[2][(i * len(t[0]) + j) % 20]] for j, c in enumerate(t[0])] for i in range(t[1])]),
)


def _cv(c, i, kind):
    """a cell spec that tells column c (and row i) apart from every other column: a swap between columns is visible"""
    j = (NAMES + FRESH).index(c) + 1 if c in NAMES + FRESH else 20
    if kind == 'mixed':
        kind = ['int', 'str', 'float', 'dt'][(i + j) % 4]
    if kind == 'int':
        return 100 * j + i
    if kind == 'str':
        return '%s%i' % (c, i)
    if kind == 'float':
        return j + i / 16.0
    return ['dt', D0 + 40 * j + i, 0]


@st.composite
def _permuted_records(draw):
    """records over one key set, every record written in its own (independent) key order; optionally ragged; cells distinguishable per column"""
    keys = draw(st.lists(_name, min_size=2, max_size=4, unique=True))
    n = draw(st.integers(2, 5))
    ragged = draw(st.sampled_from([False, False, False, True]))
    kind = draw(st.sampled_from(['int', 'str', 'float', 'dt', 'mixed']))
    recs = []
    for i in range(n):
        order = list(draw(st.permutations(keys)))
        if ragged:
            order = order[:draw(st.integers(1, len(order)))]
        recs.append([[c, _cv(c, i, kind)] for c in order])
    return recs


_records = st.one_of(_records, _permuted_records())
_sl = st.one_of(st.none(), st.integers(-7, 7))
_step = st.one_of(st.none(), st.sampled_from([-3, -2, -1, 1, 2, 3]))


class Tables(object):
    OPS = {
        # ---- construction
        'new_records': dict(recs=_records, form=st.sampled_from(['list', 'data_kw', 'concat'])),
        'new_columns': dict(cols=st.lists(st.tuples(_name, st.sampled_from(['list', 'list', 'scalar', 'len1', 'tuple']), _vals), max_size=4, unique_by=lambda c: c[0]),
                            n=st.integers(0, 5), form=st.sampled_from(['dict', 'kw', 'split', 'pairs', 'data_kw'])),
        'new_rows': dict(cols=_names, rows=st.lists(st.lists(_cell, min_size=4, max_size=4), max_size=5),
                         form=st.sampled_from(['headers', 'columns_kw', 'first_row', 'tuples', 'zip'])),
        'new_empty': dict(form=st.sampled_from(['none', 'cols_kw', 'headers', 'columns_only', 'dict', 'records']), cols=_names),
        'new_misfit': dict(cols=st.lists(_name, min_size=2, max_size=2, unique=True), la=st.sampled_from([0, 2, 3, 4]), lb=st.integers(2, 6),
                           form=st.sampled_from(['kw', 'dict'])),
        # ---- in place
        'setitem': dict(t=_t, col=_ci, new=st.booleans(), how=st.sampled_from(['item', 'attr', 'update']),
                        mode=st.sampled_from(['fit', 'fit', 'scalar', 'len1', 'tuple', 'misfit']), vals=_vals, k=st.integers(0, 9)),
        'set_misfit': dict(t=_t, col=_ci, new=st.booleans(), how=st.sampled_from(['item', 'attr', 'update', 'update2']), vals=_vals, k=st.integers(0, 9)),
        'delcol': dict(t=_t, col=_ci, how=st.sampled_from(['item', 'attr'])),
        # ---- reading / selecting
        'row': dict(t=_t, i=st.integers(0, 30), neg=st.booleans()),
        'slice': dict(t=_t, start=_sl, stop=_sl, step=_step),
        'mask': dict(t=_t, bits=st.integers(0, 2 ** MAXROWS - 1), mode=st.sampled_from(['bits', 'bits', 'bits', 'none', 'all']),
                     form=st.sampled_from(['list', 'list', 'array'])),
        'take': dict(t=_t, idx=st.lists(st.integers(-30, 30), max_size=6), form=st.sampled_from(['list', 'list', 'array', 'range'])),
        'project': dict(t=_t, cols=st.lists(_ci, min_size=1, max_size=3), form=st.sampled_from(['list', 'tuple', 'and', 'and_extra', 'and_str', 'keys']),
                        allow_empty=st.sampled_from([False, False, False, True])),
        'minus': dict(t=_t, cols=st.lists(_ci, min_size=1, max_size=3), form=st.sampled_from(['str', 'list', 'list_extra', 'missing'])),
        'filter': dict(t=_t, col=_ci, pick=st.integers(0, 30), v=_cell, use_v=st.booleans(), form=st.sampled_from(['inc', 'exc', 'inc_list', 'exc_list', 'inc_dict'])),
        # ---- derived columns, renaming, per-column transforms
        'derive': dict(t=_t, fn=st.sampled_from(sorted(FN)), args=st.lists(_ci, min_size=1, max_size=3), tgt=_ci, new=st.booleans(),
                       form=st.sampled_from(['getitem', 'call', 'call', 'chain', 'value']), mode=st.sampled_from(['fit', 'scalar', 'len1', 'misfit']),
                       vals=_vals, k=st.integers(0, 9), fn2=st.sampled_from(sorted(F1))),
        'rename': dict(t=_t, col=_ci, form=st.sampled_from(['kw', 'relabel_kw', 'dict', 'prefix', 'suffix', 'func', 'list'])),
        'do': dict(t=_t, fn=st.sampled_from(sorted(F1)), fn2=st.sampled_from(sorted(F1)), f2=st.sampled_from(sorted(F2)), cols=st.lists(_ci, min_size=1, max_size=3), other=_ci,
                   form=st.sampled_from(['all', 'args', 'list', 'empty_list', 'two_fns', 'with_other'])),
        # ---- concatenation
        'concat': dict(ts=st.lists(_t, min_size=1, max_size=3), form=st.sampled_from(['add', 'add', 'concat_args', 'concat_list', 'sum_start', 'sum0',
                                                                                      'reordered_add', 'reordered_concat_args', 'reordered_concat_list', 'reordered_sum_start'])),
        'add_record': dict(t=_t, rec=_record, rec2=_record, src=_t, i=st.integers(0, 30), form=st.sampled_from(['dict', 'Dict', 'row_of', 'concat', 'records', 'records_perm', 'concat_perm', 'sum_perm'])),
        'add_none': dict(t=_t, form=st.sampled_from(['none', 'zero', 'rnone', 'rzero', 'zero_float'])),
        'copy': dict(t=_t, form=st.sampled_from(['copy', 'inc', 'exc', 'ctor', 'copy_module', 'full_slice'])),
        # ---- augmented assignment: the statement  d += x  (d -= cols, d &= cols, d |= {col: values}); the pool gets whatever the statement leaves in the variable
        'iadd_record': dict(t=_t, rec=_record, rec2=_record, src=_t, i=st.integers(0, 30), form=st.sampled_from(['dict', 'dict', 'Dict', 'row_of', 'records', 'records_perm'])),
        'iadd_table': dict(t=_t, t2=_t),
        'iadd_none': dict(t=_t, form=st.sampled_from(['none', 'zero'])),
        'iop_cols': dict(t=_t, cols=st.lists(_ci, min_size=1, max_size=3), form=st.sampled_from(['isub_str', 'isub_list', 'iand_list', 'iand_extra', 'iand_str'])),
        'ior': dict(t=_t, col=_ci, new=st.booleans(), mode=st.sampled_from(['fit', 'scalar', 'len1', 'misfit']), vals=_vals, k=st.integers(0, 9), allow_raw=st.just(True)),
        # ---- integer-list selection, deletion of a column that is not the last one, integer-list selection again (on one table)
        'reselect': dict(t=_t, idx=st.lists(st.integers(-30, 30), min_size=1, max_size=5), col=_ci, how=st.sampled_from(['item', 'attr']),
                         idx2=st.lists(st.integers(-30, 30), min_size=1, max_size=5), form=st.sampled_from(['list', 'list', 'array'])),
    }
    _CTORS = ('new_records', 'new_columns', 'new_rows', 'new_empty', 'new_misfit')
    PRE = {}
    for _op in OPS:
        if _op not in _CTORS:
            PRE[_op] = lambda m: len(m.pool) > 0
    PRE['row'] = lambda m: any(e['m'].n > 0 for e in m.pool)
    for _op in ('delcol', 'project', 'filter', 'derive', 'iop_cols'):
        PRE[_op] = lambda m: any(e['m'].cols for e in m.pool)
    PRE['reselect'] = lambda m: any(len(e['m'].cols) >= 2 for e in m.pool)
    del _op

    def __init__(self):
        self.pool = []          # entries {'d': dictable, 'm': T, 'src': op that produced it, 'gen': derivation depth}
        self.nops = 0
        self.flags = set()
        self.ops_used = []
        self.consumed = False   # some table produced by one rule was consumed by another rule
        self.skipped = 0

    # ------------------------------------------------------------------ helpers
    def _pick(self, t, pred=None):
        el = [e for e in self.pool if pred is None or pred(e)]
        return el[t % len(el)] if el else None

    def _use(self, op, *entries):
        for e in entries:
            if e['src'] != op:
                self.consumed = True
            if e['gen'] >= 1:
                self.flags.add('chain')
            if e['m'].n == 0:
                self.flags.add('empty')

    def _add(self, op, d, m, operands=(), allow_alias=False):
        from pyg_base import dictable
        check(isinstance(d, dictable), '%s returned %s, not a dictable', op, type(d).__name__)
        if allow_alias:
            for e in self.pool:
                if e['d'] is d:
                    m = e['m']       # the very same table: one model
                    self.flags.add('alias')
                    break
        if m.n == 0:
            self.flags.add('empty')
        gen = 1 + max([e['gen'] for e in operands]) if operands else 0
        self.pool.append(dict(d=d, m=m, src=op, gen=gen))
        if len(self.pool) > MAXPOOL:
            self.pool.pop(0)

    def _snap(self, skip=None):
        return [(e, {k: list(v) if isinstance(v, list) else v for k, v in raw(e['d']).items()}) for e in self.pool
                if skip is None or e['d'] is not skip]

    def _unchanged(self, what, snap):
        for e, before in snap:
            after = raw(e['d'])
            ok = set(after) == set(before) and all(isinstance(after[k], list) and same_list(after[k], before[k]) for k in before)
            check(ok, '%s altered a table it was not supposed to touch: was %s, now %s', what, before, after)

    def _pure(self, what, f, *args, **kwargs):
        """a call that returns something new: no live table may change"""
        snap = self._snap()
        res = call(what, f, *args, **kwargs)
        self._unchanged(what, snap)
        return res

    def _begin(self, op):
        self.nops += 1
        if op not in self.ops_used:
            self.ops_used.append(op)

    def _skip(self):
        self.skipped += 1

    @staticmethod
    def _cols_of(e, idx, unique=True):
        cols = e['m'].cols
        out = []
        for i in idx:
            c = cols[i % len(cols)]
            if not unique or c not in out:
                out.append(c)
        return out

    @staticmethod
    def _fresh(e, k=0, avoid=()):
        cand = [c for c in NAMES + FRESH if c not in e['m'].cols and c not in avoid]
        if not cand:
            cand = ['z%i' % j for j in range(40) if 'z%i' % j not in e['m'].cols and 'z%i' % j not in avoid]
        return cand[k % len(cand)]

    @staticmethod
    def _value(mode, vals, n, ncols, k):
        """-> (python value to assign, its cells, fits?) for a table with n rows and ncols columns"""
        cells = [build(v) for v in vals]
        if mode == 'scalar':
            return cells[0], [cells[0]], True
        if mode == 'len1':
            return [cells[0]], [cells[0]], True
        if mode == 'misfit' and ncols > 0:
            cands = [x for x in range(0, n + 4) if x != n and x != 1]
            ln = cands[k % len(cands)]
            v = [cells[i % len(cells)] for i in range(ln)]
            return v, list(v), False
        ln = n if ncols > 0 else min(len(cells), k % 7)
        v = [cells[i % len(cells)] for i in range(ln)]
        if mode == 'tuple':
            return tuple(v), list(v), True
        return v, list(v), True

    @staticmethod
    def _assign_model(m, c, cells):
        """the list-of-records meaning of  table[c] = cells  (cells fit)"""
        if not m.cols:
            return T([c], [{c: v} for v in cells])
        if len(cells) != m.n:
            cells = cells * m.n     # one cell, broadcast
        cols = m.cols if c in m.cols else m.cols + [c]
        rows = []
        for r, v in zip(m.rows, cells):
            r = dict(r)
            r[c] = v
            rows.append(r)
        return T(cols, rows)

    def _records_classes(self, recs):
        keysets = set(tuple(sorted(r)) for r in recs)
        orders = set(tuple(r) for r in recs if len(r) >= 2)
        if len(keysets) > 1:
            self.flags.add('ragged_records')
            if len(orders) > len(set(tuple(sorted(o)) for o in orders)):
                self.flags.add('ragged_records_shared_keys_different_order')
        elif len(orders) > 1:
            self.flags.add('records_same_keys_different_order')

    # ------------------------------------------------------------------ construction
    def op_new_records(self, recs, form):
        from pyg_base import dictable
        self._begin('new_records')
        recs = [{c: build(v) for c, v in r} for r in recs]
        m = T.from_records(recs)
        self._records_classes(recs)
        arg = [dict(r) for r in recs]
        if form == 'list':
            d = self._pure('dictable(%s)' % short(arg, 150), dictable, arg)
        elif form == 'data_kw':
            d = self._pure('dictable(data = %s)' % short(arg, 150), lambda: dictable(data=arg))
        else:
            d = self._pure('dictable.concat(%s)' % short(arg, 150), dictable.concat, arg)
            # concat of records: each record is a one-row table (no row when it has no key)
            m = T.concat([T.from_records([r]) for r in recs])
        check(len(arg) == len(recs) and all(type(x) is dict and list(x) == list(r) and all(same(x[c], r[c]) for c in r) for x, r in zip(arg, recs)),
              'construction from records altered the records: %s, were %s', arg, recs)
        self._add('new_records', d, m)

    def op_new_columns(self, cols, n, form):
        from pyg_base import dictable
        self._begin('new_columns')
        has_list = any(kind in ('list', 'tuple') for _, kind, _ in cols)
        n_eff = (n if has_list else 1) if cols else 0
        args = []
        model = []
        for c, kind, vals in cols:
            cells = [build(v) for v in vals]
            if kind == 'scalar':
                args.append((c, cells[0]))
                model.append((c, [cells[0]] * n_eff))
            elif kind == 'len1':
                args.append((c, [cells[0]]))
                model.append((c, [cells[0]] * n_eff))
            else:
                v = [cells[i % len(cells)] for i in range(n)]
                args.append((c, tuple(v) if kind == 'tuple' else v))
                model.append((c, list(v)))
            if kind in ('scalar', 'len1') and n_eff != 1:
                self.flags.add('broadcast')
        m = T.from_columns(model)
        if form == 'pairs' and not args:
            form = 'dict'
        if form == 'dict':
            d = self._pure('dictable(%s)' % short(dict(args), 150), dictable, dict(args))
        elif form == 'data_kw':
            d = self._pure('dictable(data = %s)' % short(dict(args), 150), lambda: dictable(data=dict(args)))
        elif form == 'kw':
            d = self._pure('dictable(**%s)' % short(dict(args), 150), lambda: dictable(**dict(args)))
        elif form == 'pairs':
            d = self._pure('dictable(%s)' % short(args, 150), dictable, list(args))
        else:
            h = len(args) // 2
            d = self._pure('dictable(%s, **%s)' % (short(dict(args[:h]), 80), short(dict(args[h:]), 80)), lambda: dictable(dict(args[:h]), **dict(args[h:])))
        self._add('new_columns', d, m)

    def op_new_rows(self, cols, rows, form):
        from pyg_base import dictable
        self._begin('new_rows')
        k = len(cols)
        rows = [[build(v) for v in r[:k]] for r in rows]
        m = T(cols, [dict(zip(cols, r)) for r in rows])
        if form == 'first_row' and not rows:
            form = 'headers'
        if form == 'zip' and not rows:
            form = 'headers'
        if form == 'headers':
            d = self._pure('dictable(%s, %s)' % (short(rows, 120), cols), dictable, [list(r) for r in rows], list(cols))
        elif form == 'columns_kw':
            d = self._pure('dictable(data = %s, columns = %s)' % (short(rows, 120), cols), lambda: dictable(data=[list(r) for r in rows], columns=list(cols)))
        elif form == 'tuples':
            d = self._pure('dictable(%s, %s)' % (short([tuple(r) for r in rows], 120), cols), dictable, [tuple(r) for r in rows], list(cols))
        elif form == 'zip':
            columns = [[r[j] for r in rows] for j in range(k)]
            d = self._pure('dictable(zip(*%s), %s)' % (short(columns, 120), cols), lambda: dictable(zip(*columns), dict.fromkeys(cols).keys()))
        else:
            data = [list(cols)] + [list(r) for r in rows]
            d = self._pure('dictable(%s)' % short(data, 150), dictable, data)
        self._add('new_rows', d, m)

    def op_new_empty(self, form, cols):
        from pyg_base import dictable
        self._begin('new_empty')
        if form == 'none':
            d, m = self._pure('dictable()', dictable), T([], [])
        elif form == 'dict':
            d, m = self._pure('dictable({})', dictable, {}), T([], [])
        elif form == 'records':
            d, m = self._pure('dictable([])', dictable, []), T([], [])
        elif form == 'cols_kw':
            d, m = self._pure('dictable(**%s)' % {c: [] for c in cols}, lambda: dictable(**{c: [] for c in cols})), T(cols, [])
        elif form == 'headers':
            d, m = self._pure('dictable([], %s)' % cols, dictable, [], list(cols)), T(cols, [])
        else:
            d, m = self._pure('dictable(columns = %s)' % cols, lambda: dictable(columns=list(cols))), T(cols, [])
        self._add('new_empty', d, m)

    def op_new_misfit(self, cols, la, lb, form):
        from pyg_base import dictable
        self._begin('new_misfit')
        if la == lb:
            lb += 1
        data = {cols[0]: [0] * la, cols[1]: [1] * lb}
        what = 'dictable(%s)' % data
        snap = self._snap()
        ok, res = call_or(what, (ValueError,), (lambda: dictable(**data)) if form == 'kw' else (lambda: dictable(data)))
        self._unchanged(what, snap)
        if ok:
            lens = sorted(set(len(v) for v in raw(res).values()))
            check(len(lens) <= 1, '%s returned a table whose columns have lengths %s', what, lens)
        self.flags.add('ctor_misfit')

    # ------------------------------------------------------------------ in place
    def op_setitem(self, t, col, new, how, mode, vals, k, op='setitem'):
        self._begin(op)
        e = self._pick(t)
        if e is None:
            return self._skip()
        self._use(op, e)
        d, m = e['d'], e['m']
        c = self._fresh(e, col) if (new or not m.cols) else m.cols[col % len(m.cols)]
        value, cells, fits = self._value(mode, vals, m.n, len(m.cols), k)
        what = {'item': 'd[%r] = %s', 'attr': 'd.%s = %s', 'update': 'd.update({%r: %s})'}[how] % (c, short(value, 100))
        what = '%s on %s' % (what, short(raw(d), 150))
        if how == 'item':
            f = lambda: d.__setitem__(c, value)
        elif how == 'attr':
            f = lambda: setattr(d, c, value)
        else:
            f = lambda: d.update({c: value})
        if fits:
            snap = self._snap(skip=d)
            call(what, f)
            self._unchanged(what, snap)
            newm = self._assign_model(m, c, cells)
            m.cols, m.rows = newm.cols, newm.rows   # in place: aliases share the model
            if len(cells) == 1 and m.n != 1 and mode in ('scalar', 'len1'):
                self.flags.add('broadcast')
            if m.n == 0:
                self.flags.add('empty')
            e['gen'] += 1
        else:
            snap = self._snap()
            must_raise(what, ValueError, f)
            self._unchanged(what + ' (rejected)', snap)
            self.flags.add('misfit')

    def op_set_misfit(self, t, col, new, how, vals, k):
        """an assignment whose length is neither len(d) nor 1 (any length fits a table without columns)"""
        e = self._pick(t)
        if how != 'update2' or e is None or not e['m'].cols:
            return self.op_setitem(t, col, new, 'update' if how == 'update2' else how, 'misfit', vals, k, op='set_misfit')
        # d.update({c1: fitting, c2: misfit}): ValueError; the statement demands a rectangular table afterwards, so the
        # fitting column may or may not have been stored - both outcomes are accepted and the model follows the table
        self._begin('set_misfit')
        self._use('set_misfit', e)
        d, m = e['d'], e['m']
        c1 = self._fresh(e, col) if new else m.cols[col % len(m.cols)]
        c2 = self._fresh(e, col + 1, avoid=[c1])
        v1, cells1, _ = self._value('scalar' if k % 2 else 'fit', vals, m.n, len(m.cols), k)
        v2, _, fits = self._value('misfit', vals, m.n, len(m.cols), k)
        what = 'd.update({%r: %s, %r: %s}) on %s' % (c1, short(v1, 80), c2, short(v2, 80), short(raw(d), 150))
        snap = self._snap(skip=d)
        must_raise(what, ValueError, lambda: d.update({c1: v1, c2: v2}))
        self._unchanged(what, snap)
        store = raw(d)
        applied = self._assign_model(m, c1, cells1)
        lens = sorted(set(len(v) if isinstance(v, list) else -1 for v in store.values()))
        check(len(lens) <= 1, '%s was rejected but left the table non-rectangular: %s', what, store)
        for cand in (m, applied):
            if set(store) == set(cand.cols) and all(same_list(store[c], cand.col(c)) for c in cand.cols):
                m.cols, m.rows = list(cand.cols), [dict(r) for r in cand.rows]
                break
        else:
            check(False, '%s was rejected and left %s: neither the old table nor the old table with %s assigned', what, store, c1)
        self.flags.add('misfit')
        self.flags.add('partial_update')
        e['gen'] += 1

    def op_delcol(self, t, col, how):
        self._begin('delcol')
        e = self._pick(t, lambda e: e['m'].cols)
        if e is None:
            return self._skip()
        self._use('delcol', e)
        self._delcol(e, e['m'].cols[col % len(e['m'].cols)], how)

    def _delcol(self, e, c, how):
        d, m = e['d'], e['m']
        if e.get('sel') == 1 and len(m.cols) >= 2:
            e['sel'] = 2        # an integer-list selection was made on this object before, and columns remain
        what = ('del d[%r]' if how == 'item' else 'del d.%s') % c + ' on %s' % short(raw(d), 150)
        snap = self._snap(skip=d)
        if how == 'item':
            call(what, d.__delitem__, c)
        else:
            call(what, delattr, d, c)
        self._unchanged(what, snap)
        newm = T([x for x in m.cols if x != c], m.rows)
        m.cols, m.rows = newm.cols, newm.rows
        if m.n == 0:
            self.flags.add('empty')
        e['gen'] += 1

    # ------------------------------------------------------------------ reading / selecting
    def op_row(self, t, i, neg):
        self._begin('row')
        e = self._pick(t, lambda e: e['m'].n > 0)
        if e is None:
            return self._skip()
        self._use('row', e)
        d, m = e['d'], e['m']
        i = i % m.n
        if neg:
            i = i - m.n
        rec = self._pure('d[%i] on %s' % (i, short(raw(d), 150)), d.__getitem__, i)
        check(isinstance(rec, dict), 'd[%s] returned %s', i, type(rec).__name__)
        exp = m.rows[i]
        check(set(dict.keys(rec)) == set(exp) and all(same(dict.__getitem__(rec, c), exp[c]) for c in exp), 'd[%s] = %s, the model row is %s', i, dict(rec), exp)

    def op_slice(self, t, start, stop, step):
        self._begin('slice')
        e = self._pick(t)
        if e is None:
            return self._skip()
        self._use('slice', e)
        d, m = e['d'], e['m']
        s = slice(start, stop, step)
        res = self._pure('d[%s:%s:%s] on %s' % (start, stop, step, short(raw(d), 150)), d.__getitem__, s)
        self._add('slice', res, T(m.cols, m.rows[s]), [e])
        if step is not None and step < 0:
            self.flags.add('neg_step')

    def op_mask(self, t, bits, mode, form):
        self._begin('mask')
        e = self._pick(t)
        if e is None:
            return self._skip()
        self._use('mask', e)
        d, m = e['d'], e['m']
        bits = [bool((bits >> (i % MAXROWS)) & 1) for i in range(m.n)]
        if mode == 'none':
            bits = [False] * m.n
        elif mode == 'all':
            bits = [True] * m.n
        if form == 'array':
            import numpy as np
            item = np.array(bits, dtype=bool)
        else:
            item = list(bits)
        res = self._pure('d[%s] on %s' % (short(item, 100), short(raw(d), 150)), d.__getitem__, item)
        newm = T(m.cols, [r for r, b in zip(m.rows, bits) if b])
        if m.n > 0 and newm.n == 0:
            self.flags.add('mask_to_empty')
        self._add('mask', res, newm, [e])

    def op_take(self, t, idx, form):
        self._begin('take')
        e = self._pick(t)
        if e is None:
            return self._skip()
        self._use('take', e)
        self._take(e, idx, form)

    def _take(self, e, idx, form, op='take'):
        d, m = e['d'], e['m']
        if e.get('sel') == 2:
            self.flags.add('take_delcol_take')
        elif not e.get('sel'):
            e['sel'] = 1
        n = m.n
        if n == 0:
            idx = []
        else:
            idx = [(i % n) if i >= 0 else -((-i - 1) % n) - 1 for i in idx]
        if form == 'range':
            item = range(len(idx) % (n + 1)) if n else range(0)
            idx = list(item)
        elif form == 'array':
            import numpy as np
            item = np.array(idx, dtype=int)
        else:
            item = list(idx)
        res = self._pure('d[%s] on %s' % (short(item, 100), short(raw(d), 150)), d.__getitem__, item)
        self._add(op, res, T(m.cols, [m.rows[i] for i in idx]), [e])
        if len(set(i % n for i in idx)) < len(idx):
            self.flags.add('repeated_rows')

    def op_project(self, t, cols, form, allow_empty=False):
        self._begin('project')
        e = self._pick(t, lambda e: e['m'].cols)
        if e is None:
            return self._skip()
        self._use('project', e)
        d, m = e['d'], e['m']
        cs = self._cols_of(e, cols)
        rd = short(raw(d), 150)
        if form == 'tuple':
            cs = self._cols_of(e, cols, unique=False)
            res = self._pure('d[%s] on %s' % (tuple(cs), rd), d.__getitem__, tuple(cs))
            exp = [tuple(r[c] for c in cs) for r in m.rows]
            check(isinstance(res, list) and len(res) == len(exp) and all(isinstance(x, tuple) and same_list(list(x), list(y)) for x, y in zip(res, exp)),
                  'd[%s] = %s, the model says %s', tuple(cs), res, exp)
            return
        if form == 'list':
            res = self._pure('d[%s] on %s' % (cs, rd), d.__getitem__, list(cs))
        elif form == 'keys':
            res = self._pure('d[dict_keys(%s)] on %s' % (cs, rd), d.__getitem__, dict.fromkeys(cs).keys())
        elif form == 'and_str':
            cs = cs[:1]
            res = self._pure('d & %r on %s' % (cs[0], rd), lambda: d & cs[0])
        elif form == 'and_extra':
            other = [self._fresh(e, 3)] + cs + [self._fresh(e, 5)]
            if allow_empty:
                other, cs = [self._fresh(e, 3)], []
            res = self._pure('d & %s on %s' % (other, rd), lambda: d & other)
        else:
            res = self._pure('d & %s on %s' % (cs, rd), lambda: d & list(cs))
        self._add('project', res, T(cs, m.rows), [e])

    def op_minus(self, t, cols, form):
        self._begin('minus')
        e = self._pick(t)
        if e is None:
            return self._skip()
        self._use('minus', e)
        d, m = e['d'], e['m']
        rd = short(raw(d), 150)
        cs = self._cols_of(e, cols) if m.cols else []
        if form == 'missing' or not cs:
            arg = self._fresh(e, 2)
            cs = []
        elif form == 'str':
            cs = cs[:1]
            arg = cs[0]
        elif form == 'list_extra':
            arg = cs + [self._fresh(e, 1)]
        else:
            arg = list(cs)
        res = self._pure('d - %r on %s' % (arg, rd), lambda: d - arg)
        self._add('minus', res, T([c for c in m.cols if c not in cs], m.rows), [e])

    def op_filter(self, t, col, pick, v, use_v, form):
        self._begin('filter')
        e = self._pick(t, lambda e: e['m'].cols)
        if e is None:
            return self._skip()
        self._use('filter', e)
        d, m = e['d'], e['m']
        c = m.cols[col % len(m.cols)]
        column = m.col(c)
        v = build(v)
        if column and not use_v:
            v = column[pick % len(column)]
        rd = short(raw(d), 150)

        def hit(x, values):
            return any(x is y or x == y for y in values)
        if form in ('inc', 'exc', 'inc_dict'):
            keep = [(r[c] is None) if v is None else hit(r[c], [v]) for r in m.rows]
            arg = v
        else:
            values = [v] + ([column[(pick + 1) % len(column)]] if column else [])
            keep = [hit(r[c], values) for r in m.rows]
            arg = list(values)
        if form in ('inc', 'inc_list'):
            res = self._pure('d.inc(%s = %r) on %s' % (c, arg, rd), lambda: d.inc(**{c: arg}))
        elif form == 'inc_dict':
            res = self._pure('d.inc({%r: %r}) on %s' % (c, arg, rd), lambda: d.inc({c: arg}))
        else:
            keep = [not b for b in keep]
            res = self._pure('d.exc(%s = %r) on %s' % (c, arg, rd), lambda: d.exc(**{c: arg}))
        newm = T(m.cols, [r for r, b in zip(m.rows, keep) if b])
        if m.n > 0 and newm.n == 0:
            self.flags.add('mask_to_empty')
        self._add('filter', res, newm, [e])

    # ------------------------------------------------------------------ derived columns, renaming, per-column transforms
    def op_derive(self, t, fn, args, tgt, new, form, mode, vals, k, fn2):
        self._begin('derive')
        e = self._pick(t, lambda e: e['m'].cols)
        if e is None:
            return self._skip()
        self._use('derive', e)
        d, m = e['d'], e['m']
        rd = short(raw(d), 150)
        names = self._cols_of(e, args)
        f = _named(names, FN[fn])
        column = [FN[fn](*[r[a] for a in names]) for r in m.rows]
        if form == 'getitem':
            res = self._pure('d[lambda %s: %s] on %s' % (', '.join(names), fn, rd), d.__getitem__, f)
            check(isinstance(res, list) and same_list(res, column), 'd[lambda %s: %s] = %s, the model says %s', ', '.join(names), fn, res, column)
            return
        c = self._fresh(e, tgt) if new else m.cols[tgt % len(m.cols)]
        if form == 'call':
            res = self._pure('d(%s = lambda %s: %s) on %s' % (c, ', '.join(names), fn, rd), lambda: d(**{c: f}))
            self._add('derive', res, self._assign_model(m, c, column), [e])
        elif form == 'chain':
            c1 = self._fresh(e, tgt)
            c2 = self._fresh(e, tgt + 1, avoid=[c1])
            g = _named([c1], F1[fn2])
            second = [F1[fn2](x) for x in column]
            # given in the order (dependent, independent): the call has to work out the order itself
            res = self._pure('d(%s = lambda %s: %s, %s = lambda %s: %s) on %s' % (c2, c1, fn2, c1, ', '.join(names), fn, rd), lambda: d(**{c2: g, c1: f}))
            cols = m.cols + [c1, c2]
            rows = [dict(r, **{c1: x, c2: y}) for r, x, y in zip(m.rows, column, second)]
            self._add('derive', res, T(cols, rows), [e])
            self.flags.add('derive_chain')
        else:
            value, cells, fits = self._value(mode, vals, m.n, len(m.cols), k)
            what = 'd(%s = %s) on %s' % (c, short(value, 100), rd)
            if fits:
                res = self._pure(what, lambda: d(**{c: value}))
                self._add('derive', res, self._assign_model(m, c, cells), [e])
                if len(cells) == 1 and m.n != 1 and mode in ('scalar', 'len1'):
                    self.flags.add('broadcast')
            else:
                snap = self._snap()
                must_raise(what, ValueError, lambda: d(**{c: value}))
                self._unchanged(what + ' (rejected)', snap)
                self.flags.add('misfit')

    def op_rename(self, t, col, form):
        self._begin('rename')
        e = self._pick(t)
        if e is None:
            return self._skip()
        self._use('rename', e)
        d, m = e['d'], e['m']
        rd = short(raw(d), 150)
        if form == 'list' and len(m.cols) < 2:
            form = 'kw'
        if form in ('prefix', 'suffix', 'func') and any(len(c) > 6 for c in m.cols):
            form = 'kw'
        if form in ('kw', 'relabel_kw', 'dict') and not m.cols:
            form = 'prefix'
        if form in ('kw', 'relabel_kw', 'dict'):
            old = m.cols[col % len(m.cols)]
            mapping = {old: self._fresh(e, col)}
            if form == 'kw':
                res = self._pure('d.rename(**%s) on %s' % (mapping, rd), lambda: d.rename(**mapping))
            elif form == 'relabel_kw':
                res = self._pure('d.relabel(**%s) on %s' % (mapping, rd), lambda: d.relabel(**mapping))
            else:
                res = self._pure('d.rename(%s) on %s' % (mapping, rd), lambda: d.rename(dict(mapping)))
        elif form == 'prefix':
            mapping = {c: 'p_' + c for c in m.cols}
            res = self._pure("d.relabel('p_') on %s" % rd, lambda: d.relabel('p_'))
        elif form == 'suffix':
            mapping = {c: c + '_s' for c in m.cols}
            res = self._pure("d.rename('_s') on %s" % rd, lambda: d.rename('_s'))
        elif form == 'func':
            mapping = {c: c + 'x' for c in m.cols}
            res = self._pure("d.rename(lambda k: k + 'x') on %s" % rd, lambda: d.rename(lambda key: key + 'x'))
        else:
            # the list form pairs the new names with d.keys() in the table's own column order
            keys = list(dict.keys(d))
            fresh = []
            for j in range(len(keys)):
                fresh.append(self._fresh(e, col + j, avoid=fresh))
            mapping = dict(zip(keys, fresh))
            res = self._pure('d.rename(%s) on %s' % (fresh, rd), lambda: d.rename(list(fresh)))
        cols = [mapping.get(c, c) for c in m.cols]
        rows = [{mapping.get(c, c): v for c, v in r.items()} for r in m.rows]
        self._add('rename', res, T(cols, rows), [e])

    def op_do(self, t, fn, fn2, f2, cols, other, form):
        self._begin('do')
        e = self._pick(t)
        if e is None:
            return self._skip()
        self._use('do', e)
        d, m = e['d'], e['m']
        rd = short(raw(d), 150)
        f = F1[fn]
        fv = lambda value: f(value)
        cs = self._cols_of(e, cols) if m.cols else []
        if form == 'with_other' and len(m.cols) < 2:
            form = 'args'
        if form in ('args', 'list', 'two_fns') and not cs:
            form = 'all'
        rows = [dict(r) for r in m.rows]
        if form == 'all':
            res = self._pure('d.do(%s) on %s' % (fn, rd), d.do, fv)
            rows = [{c: f(v) for c, v in r.items()} for r in rows]
        elif form == 'args':
            res = self._pure('d.do(%s, *%s) on %s' % (fn, cs, rd), d.do, fv, *cs)
            rows = [{c: (f(v) if c in cs else v) for c, v in r.items()} for r in rows]
        elif form == 'list':
            res = self._pure('d.do(%s, %s) on %s' % (fn, cs, rd), d.do, fv, list(cs))
            rows = [{c: (f(v) if c in cs else v) for c, v in r.items()} for r in rows]
        elif form == 'empty_list':
            res = self._pure('d.do(%s, []) on %s' % (fn, rd), d.do, fv, [])
        elif form == 'two_fns':
            g = F1[fn2]
            c = cs[0]
            res = self._pure('d.do([%s, %s], %r) on %s' % (fn, fn2, c, rd), d.do, [fv, lambda value: g(value)], c)
            rows = [{k: (g(f(v)) if k == c else v) for k, v in r.items()} for r in rows]
        else:
            o = m.cols[other % len(m.cols)]
            cs = [c for c in cs if c != o]
            if not cs:
                cs = [c for c in m.cols if c != o][:1]
            h = F2[f2]
            hf = eval('lambda value, %s: _h(value, %s)' % (o, o), {'_h': h})
            res = self._pure('d.do(lambda value, %s: %s, *%s) on %s' % (o, f2, cs, rd), d.do, hf, *cs)
            rows = [{c: (h(v, r[o]) if c in cs else v) for c, v in r.items()} for r in rows]
        self._add('do', res, T(m.cols, rows), [e])

    # ------------------------------------------------------------------ concatenation
    def op_concat(self, ts, form):
        from pyg_base import dictable
        self._begin('concat')
        es = [self._pick(t) for t in ts]
        if not es or es[0] is None:
            return self._skip()
        reorder = form.startswith('reordered_')
        if reorder:
            form = form[len('reordered_'):]
        if sum(e['m'].n for e in es) + (es[0]['m'].n if reorder else 0) > MAXROWS:
            return self._skip()
        self._use('concat', *es)
        ds = [e['d'] for e in es]
        cols = list(dict.keys(ds[0]))
        if reorder and len(cols) >= 2:
            # the same table once more with its columns in another order (a projection keeps the order it is given)
            shift = 1 + ts[0] % (len(cols) - 1)
            order = cols[shift:] + cols[:shift]
            d2 = self._pure('d[%s] on %s' % (order, short(raw(ds[0]), 150)), ds[0].__getitem__, list(order))
            check(type(d2) is type(ds[0]), 'd[%s] returned %s', order, type(d2).__name__)
            ds = [ds[0], d2] + ds[1:]
            es = [es[0], es[0]] + es[1:]
        what = '%s of %s' % (form, short([raw(d) for d in ds], 250))
        if form == 'add':
            def f():
                res = ds[0]
                for x in ds[1:]:
                    res = res + x
                return res
            if len(ds) == 1:
                f = lambda: ds[0] + ds[0]
                es = [es[0], es[0]]
            res = self._pure(what, f)
        elif form == 'concat_args':
            res = self._pure(what, dictable.concat, *ds)
        elif form == 'concat_list':
            res = self._pure(what, dictable.concat, list(ds))
        elif form == 'sum_start':
            res = self._pure(what, lambda: sum(list(ds), dictable()))
        else:
            res = self._pure(what, lambda: sum(list(ds)))
        if len(set(tuple(sorted(e['m'].cols)) for e in es)) > 1:
            self.flags.add('concat_diffcols')
        orders = set(tuple(dict.keys(x)) for x in ds)
        if len(orders) > len(set(tuple(sorted(o)) for o in orders)):
            self.flags.add('concat_same_cols_different_order')
        self._add('concat', res, T.concat([e['m'] for e in es]), es, allow_alias=(len(es) == 1))

    def op_add_record(self, t, rec, rec2, src, i, form):
        from pyg_base import dictable, Dict
        self._begin('add_record')
        e = self._pick(t)
        if e is None:
            return self._skip()
        if e['m'].n + 2 > MAXROWS:
            return self._skip()
        d, m = e['d'], e['m']
        rd = short(raw(d), 150)
        operands = [e]
        r = {c: build(v) for c, v in rec}
        if form == 'row_of':
            s = self._pick(src, lambda e: e['m'].n > 0)
            if s is None:
                form = 'dict'
            else:
                operands.append(s)
                r = dict(s['m'].rows[i % s['m'].n])
        self._use('add_record', *operands)
        rm = T.from_records([r])       # a record without keys is the empty table
        if form == 'dict':
            res = self._pure('d + %s on %s' % (r, rd), lambda: d + dict(r))
        elif form == 'Dict':
            res = self._pure('d + Dict(%s) on %s' % (r, rd), lambda: d + Dict(r))
        elif form == 'row_of':
            sd, si = operands[1]['d'], i % operands[1]['m'].n
            res = self._pure('d + d2[%i] on %s and %s' % (si, rd, short(raw(sd), 120)), lambda: d + sd[si])
        elif form == 'concat':
            res = self._pure('dictable.concat(d, %s) on %s' % (r, rd), lambda: dictable.concat(d, dict(r)))
        elif form == 'records':
            r2 = {c: build(v) for c, v in rec2}
            rm = T.from_records([r, r2])
            self._records_classes([r, r2])
            res = self._pure('d + %s on %s' % ([r, r2], rd), lambda: d + [dict(r), dict(r2)])
        else:
            # two records over the same keys, the second written in another key order, cells distinguishable per column
            keys = list(r)
            for c in NAMES:
                if len(keys) >= 2:
                    break
                if c not in keys:
                    keys.append(c)
            kind = ['int', 'str', 'float', 'dt', 'mixed'][i % 5]
            r = {c: build(_cv(c, 0, kind)) for c in keys}
            shift = 1 + (i // 5) % (len(keys) - 1)
            keys2 = keys[shift:] + keys[:shift]
            r2 = {c: build(_cv(c, 1, kind)) for c in keys2}
            self._records_classes([r, r2])
            if form == 'records_perm':
                rm = T.from_records([r, r2])
                res = self._pure('d + %s on %s' % ([r, r2], rd), lambda: d + [dict(r), dict(r2)])
            elif form == 'concat_perm':
                rm = T.concat([T.from_records([r]), T.from_records([r2])])
                res = self._pure('dictable.concat(d, %s, %s) on %s' % (r, r2, rd), lambda: dictable.concat(d, dict(r), dict(r2)))
            else:
                rm = T.concat([T.from_records([r]), T.from_records([r2])])
                res = self._pure('sum([d, dictable(%s), %s], dictable()) on %s' % (r, r2, rd), lambda: sum([d, dictable(dict(r)), dict(r2)], dictable()))
        if sorted(rm.cols) != sorted(m.cols):
            self.flags.add('concat_diffcols')
        self._add('add_record', res, T.concat([m, rm]), operands)

    # ------------------------------------------------------------------ augmented assignment
    def _augmented(self, op, e, what, f, newm, operands):
        """
        x = d; x <op>= y.  Without an in-place method python evaluates x = x <op> y: a new table, and the old object as well as every other
        live table stay as they were (the old object is kept in the pool so that the invariant keeps looking at it).  Should the
        statement hand back the very same object, that object now holds the result and every OTHER live table stays as it was.
        """
        d, m = e['d'], e['m']
        snap = self._snap()
        res = call(what, f)
        if res is d:
            self._unchanged(what, [(x, before) for x, before in snap if x['d'] is not d])
            m.cols, m.rows = list(newm.cols), [dict(r) for r in newm.rows]      # aliases share the model
            e['gen'] += 1
            self.flags.add('augmented_same_object')
            if m.n == 0:
                self.flags.add('empty')
        else:
            self._unchanged(what, snap)
            if e in self.pool:
                self.pool.remove(e)
                self.pool.append(e)       # the old object is not the one that gets evicted
            self._add(op, res, newm, operands)
            self.flags.add('augmented_new_object')

    def op_iadd_record(self, t, rec, rec2, src, i, form):
        from pyg_base import Dict
        self._begin('iadd_record')
        e = self._pick(t)
        if e is None or e['m'].n + 2 > MAXROWS:
            return self._skip()
        d, m = e['d'], e['m']
        rd = short(raw(d), 150)
        operands = [e]
        r = {c: build(v) for c, v in rec}
        if form == 'row_of':
            s = self._pick(src, lambda e: e['m'].n > 0)
            if s is None:
                form = 'dict'
            else:
                operands.append(s)
                r = dict(s['m'].rows[i % s['m'].n])
        self._use('iadd_record', *operands)
        if form in ('dict', 'row_of'):
            x, rm = dict(r), T.from_records([r])
        elif form == 'Dict':
            x, rm = Dict(r), T.from_records([r])
        else:
            if form == 'records':
                r2 = {c: build(v) for c, v in rec2}
            else:
                keys = list(r)
                for c in NAMES:
                    if len(keys) >= 2:
                        break
                    if c not in keys:
                        keys.append(c)
                kind = ['int', 'str', 'float', 'dt', 'mixed'][i % 5]
                r = {c: build(_cv(c, 0, kind)) for c in keys}
                shift = 1 + (i // 5) % (len(keys) - 1)
                r2 = {c: build(_cv(c, 1, kind)) for c in keys[shift:] + keys[:shift]}
            self._records_classes([r, r2])
            x, rm = [dict(r), dict(r2)], T.from_records([r, r2])
        if sorted(rm.cols) != sorted(m.cols):
            self.flags.add('concat_diffcols')
        self.flags.add('iadd')
        self._augmented('iadd_record', e, 'd += %s on %s' % (short(x, 120), rd), lambda: operator.iadd(d, x), T.concat([m, rm]), operands)

    def op_iadd_table(self, t, t2):
        self._begin('iadd_table')
        e, o = self._pick(t), self._pick(t2)
        if e is None or e['m'].n + o['m'].n > MAXROWS:
            return self._skip()
        self._use('iadd_table', e, o)
        d, m, x = e['d'], e['m'], o['d']
        if sorted(o['m'].cols) != sorted(m.cols):
            self.flags.add('concat_diffcols')
        self.flags.add('iadd')
        self._augmented('iadd_table', e, 'd += %s on %s' % (short(raw(x), 120), short(raw(d), 150)), lambda: operator.iadd(d, x), T.concat([m, o['m']]), [e, o])

    def op_iadd_none(self, t, form):
        self._begin('iadd_none')
        e = self._pick(t)
        if e is None:
            return self._skip()
        self._use('iadd_none', e)
        d, m = e['d'], e['m']
        x = None if form == 'none' else 0
        self._augmented('iadd_none', e, 'd += %r on %s' % (x, short(raw(d), 150)), lambda: operator.iadd(d, x), m.copy(), [e])

    def op_iop_cols(self, t, cols, form):
        self._begin('iop_cols')
        e = self._pick(t, lambda e: e['m'].cols)
        if e is None:
            return self._skip()
        self._use('iop_cols', e)
        d, m = e['d'], e['m']
        rd = short(raw(d), 150)
        cs = self._cols_of(e, cols)
        if form in ('isub_str', 'iand_str'):
            cs = cs[:1]
            arg = cs[0]
        elif form == 'iand_extra':
            arg = [self._fresh(e, 3)] + cs
        else:
            arg = list(cs)
        if form.startswith('isub'):
            self._augmented('iop_cols', e, 'd -= %r on %s' % (arg, rd), lambda: operator.isub(d, arg), T([c for c in m.cols if c not in cs], m.rows), [e])
        else:
            self._augmented('iop_cols', e, 'd &= %r on %s' % (arg, rd), lambda: operator.iand(d, arg), T(cs, m.rows), [e])

    def op_ior(self, t, col, new, mode, vals, k, allow_raw=False):
        """d |= {col: values}: column assignment.  Only a list of fitting length is generated unless allow_raw (see the finding in ASSUMPTIONS)"""
        self._begin('ior')
        e = self._pick(t)
        if e is None:
            return self._skip()
        self._use('ior', e)
        d, m = e['d'], e['m']
        if not allow_raw:
            mode = 'fit'
        c = self._fresh(e, col) if (new or not m.cols) else m.cols[col % len(m.cols)]
        value, cells, fits = self._value(mode, vals, m.n, len(m.cols), k)
        what = 'd |= {%r: %s} on %s' % (c, short(value, 100), short(raw(d), 150))
        if fits:
            self._augmented('ior', e, what, lambda: operator.ior(d, {c: value}), self._assign_model(m, c, cells), [e])
        else:
            snap = self._snap()
            must_raise(what, ValueError, lambda: operator.ior(d, {c: value}))
            self._unchanged(what + ' (rejected)', snap)
            self.flags.add('misfit')

    def op_reselect(self, t, idx, col, how, idx2, form):
        """integer-list selection, deletion of a column that is not the last one, integer-list selection again - all on one table"""
        self._begin('reselect')
        e = self._pick(t, lambda e: len(e['m'].cols) >= 2 and e['m'].n > 0) or self._pick(t, lambda e: len(e['m'].cols) >= 2)
        if e is None:
            return self._skip()
        self._use('reselect', e)
        self._take(e, idx, form, op='reselect')
        self.check()
        keys = list(dict.keys(e['d']))
        self._delcol(e, keys[col % (len(keys) - 1)], how)
        self.check()
        self._take(e, idx2, form, op='reselect')

    def op_add_none(self, t, form):
        self._begin('add_none')
        e = self._pick(t)
        if e is None:
            return self._skip()
        self._use('add_none', e)
        d, m = e['d'], e['m']
        rd = short(raw(d), 150)
        if form == 'none':
            res = self._pure('d + None on %s' % rd, lambda: d + None)
        elif form == 'zero':
            res = self._pure('d + 0 on %s' % rd, lambda: d + 0)
        elif form == 'zero_float':
            res = self._pure('d + 0.0 on %s' % rd, lambda: d + 0.0)
        elif form == 'rnone':
            res = self._pure('None + d on %s' % rd, lambda: None + d)
        else:
            res = self._pure('0 + d on %s' % rd, lambda: 0 + d)
        self._add('add_none', res, m.copy(), [e], allow_alias=True)

    def op_copy(self, t, form):
        from pyg_base import dictable
        self._begin('copy')
        e = self._pick(t)
        if e is None:
            return self._skip()
        self._use('copy', e)
        d, m = e['d'], e['m']
        rd = short(raw(d), 150)
        if form == 'copy':
            res = self._pure('d.copy() on %s' % rd, d.copy)
        elif form == 'inc':
            res = self._pure('d.inc() on %s' % rd, d.inc)
        elif form == 'exc':
            res = self._pure('d.exc() on %s' % rd, d.exc)
        elif form == 'ctor':
            res = self._pure('dictable(d) on %s' % rd, dictable, d)
        elif form == 'full_slice':
            res = self._pure('d[:] on %s' % rd, d.__getitem__, slice(None))
        else:
            res = self._pure('copy.copy(d) on %s' % rd, _copy.copy, d)
        self._add('copy', res, m.copy(), [e])

    # ------------------------------------------------------------------ invariant
    def check(self):
        for j, e in enumerate(self.pool):
            d, m = e['d'], e['m']
            who = 'table %i (from %s)' % (j, e['src'])
            store = raw(d)
            check(all(isinstance(k, str) for k in store), '%s: column names %s are not all strings', who, list(store))
            check(all(isinstance(v, list) for v in store.values()), '%s: column store %s holds a non-list', who, store)
            lens = sorted(set(len(v) for v in store.values()))
            check(len(lens) <= 1, '%s is not rectangular: column store %s', who, store)
            n = lens[0] if lens else 0
            check(set(store) == set(m.cols), '%s has columns %s, the model has %s (store %s; model rows %s)', who, sorted(store), sorted(m.cols), store, m.rows)
            check(n == m.n, '%s has %s rows, the model has %s (store %s; model rows %s)', who, n, m.n, store, m.rows)
            for c in m.cols:
                check(same_list(store[c], m.col(c)), '%s: column %s is %s, the model says %s', who, c, store[c], m.col(c))
            # public views
            ln = call('len(d) of %s' % who, len, d)
            check(ln == n, '%s: len() = %s but the columns have %s cells: %s', who, ln, n, store)
            shape = call('d.shape of %s' % who, lambda: d.shape)
            check(tuple(shape) == (n, len(m.cols)), '%s: shape = %s, the model says %s', who, shape, (n, len(m.cols)))
            keys = call('d.keys() of %s' % who, d.keys)
            check(sorted(keys) == sorted(m.cols), '%s: keys() = %s, the model says %s', who, list(keys), m.cols)
            columns = call('d.columns of %s' % who, lambda: d.columns)
            check(sorted(columns) == sorted(m.cols), '%s: columns = %s, the model says %s', who, list(columns), m.cols)
            asdict = call('dict(d) of %s' % who, dict, d)
            check(set(asdict) == set(m.cols) and all(same_list(asdict[c], m.col(c)) for c in m.cols), '%s: dict(d) = %s, the model says %s', who, asdict, m.rows)
            for c in m.cols:
                got = call('d[%r] of %s' % (c, who), d.__getitem__, c)
                check(isinstance(got, list) and same_list(got, m.col(c)), '%s: d[%r] = %s, the model says %s', who, c, got, m.col(c))
            rows = call('list(d) of %s' % who, list, d)
            check(len(rows) == m.n, '%s: iteration yields %s rows, the model has %s: %s', who, len(rows), m.n, rows)
            for i, (r, x) in enumerate(zip(rows, m.rows)):
                check(isinstance(r, dict) and set(dict.keys(r)) == set(x) and all(same(dict.__getitem__(r, c), x[c]) for c in x),
                      '%s: iteration row %s is %s, the model says %s', who, i, r, x)
            for i in range(n):
                for idx in (i, i - n):
                    r = call('d[%i] of %s' % (idx, who), d.__getitem__, idx)
                    check(isinstance(r, dict) and set(dict.keys(r)) == set(m.cols), '%s: d[%s] = %s, columns are %s', who, idx, r, m.cols)
                    for c in m.cols:
                        check(same(dict.__getitem__(r, c), store[c][idx]), '%s: d[%s][%r] = %s but d[%r][%s] = %s', who, idx, c, dict.__getitem__(r, c), c, idx, store[c][idx])

    # ------------------------------------------------------------------ classification
    def info(self):
        key = self.flags & {'empty', 'broadcast', 'concat_diffcols', 'misfit'}
        nt = self.nops >= 3 and self.consumed and bool(key)
        cls = sorted(self.flags)
        cls.append('ops>=3' if self.nops >= 3 else 'ops<3')
        cls.append('distinct_ops>=8' if len(self.ops_used) >= 8 else 'distinct_ops<8')
        if self.consumed:
            cls.append('consumed')
        if self.skipped:
            cls.append('skipped_op')
        cls.extend('op=' + o for o in self.ops_used)
        return dict(nt=nt, cls=cls)


SUBS = [
    MachineSub('history', Tables, quick=(1600, 25), thorough=(4000, 50),
               rule='histories of <= 25 (thorough 50) public table operations over a pool of <= 3 live tables, each paired with a list-of-records model: '
                    'construction (records incl. ragged, {col: list}, keyword columns with scalar / length-1 broadcast, pairs, rows + headers, header row, zip, '
                    'six empty forms, misfit lengths), d[c] = / d.c = / update (fit, scalar, length 1, tuple, misfit -> ValueError), del d[c] / del d.c, d[i], d[-i], '
                    'slices, boolean masks (list / array, all False, all True), integer lists (negative, repeated, range, array), d[[cols]], d[c1, c2], d & cols, d - cols, '
                    'inc / exc by value, d[lambda], d(c = lambda) incl. dependent pairs, d(c = value), rename / relabel (kw, dict, prefix, suffix, function, list), '
                    'do (all, *cols, [cols], [], [f, g], function of another column), + / concat / sum of tables (also of one table and itself with its columns reordered), + record(s) '
                    '(records over one key set each written in its own key order, cells distinguishable per column; also ragged), + None / 0, copy / inc() / exc() / dictable(d) / d[:], the statements d += record(s) / table / None, d -= cols, d &= cols, d |= {col: fitting list} '
                    '(old object kept alive and re-inspected), integer-list selection / deletion of a non-last column / selection again on one table. '
                    'oracle after every step for every live table: rectangular column store, len, shape, keys, columns, dict(d), d[c], iteration, d[i][c] == d[c][i] '
                    '(also negative i) against the model; all live tables unchanged by every non-in-place call; misfit assignment raises ValueError and changes nothing. '
                    'non-trivial = >= 3 operations, a table produced by one rule consumed by another, and an empty table / broadcast / concatenation with differing columns / '
                    'misfit assignment occurs; distinct = distinct history',
               floor=0.5,
               class_floors={'empty': 0.3, 'broadcast': 0.1, 'concat_diffcols': 0.15, 'misfit': 0.15, 'chain': 0.4, 'mask_to_empty': 0.05,
                             'records_same_keys_different_order': 0.1, 'concat_same_cols_different_order': 0.03,
                             'iadd': 0.15, 'take_delcol_take': 0.1}),
]
