# -*- coding: utf-8 -*-
"""
C01 - a dictable behaves as a rectangular list of records under any operation history.

One stateful sub-check.  The machine keeps a pool of up to three live tables; every pool entry pairs the real
dictable with a reference model (`T`: a list of column names + a plain list of row dicts).  Each rule applies one public
table operation to the real table(s) and the same operation, written with plain loops, to the model(s).  After every
step every live table is compared with its model (column store rectangular, len, shape, keys, columns, iteration,
d[i][c] == d[c][i]); every rule that returns a new table snapshots all live tables before the call and compares them
afterwards (operand immutability); a misfit assignment must raise ValueError and leave the table as it was.

Round-4 classes (brief, appendix 11-20) are reached by construction and carry their own class labels / floors: read - change in place - read again
on one table with the same function objects (reread), one argument container handed to several calls (shared_arg), one value in several raw types
(cells, conditions, indices), the same table / record / list object twice among the inputs, numbers-only columns (big ints next to floats, NaN, -0.0),
labels named twice in an input, shapes of user functions (**kw, *rest, keyword-only, defaults, one factory), predicates in inc / exc (filter_fn),
off-by-default parameters (get default, apply defaults), sequences where one value is meant (string as long as the table, range, value list as long as
the table), and a non-commuting list of functions in do.  The model's cells are re-pointed at the table's own objects after every verified step, so
that identity-sensitive conditions (a NaN in a list of values) are judged on the same objects the table holds.

Round-5/6 classes (appendix 21-29): zone-aware stamps as cells (zone_aware_cells), indices just outside the table (index_outside: must be refused), compiled patterns with flags in inc / exc
(regex_with_flags / regex_flag_decides) and functools.partial user functions (fn_shape=partial_kw / partial_pos), strided views of one buffer as masks / integer arrays (strided_views_of_one_buffer),
the API's own defaults written out (explicit_default), filter values within a tolerance of a cell (near_miss_value), one cell written through the handed-out column list between two reads
(cell_edit_through_column), falsy values where one value is meant (falsy_value).  Simultaneous renames (class 23) were already there (rename_onto_the_old_name_of_another_renamed_column).

Round 7: another TABLE handed to the operations that take a table or a mapping of columns (rule table_arg: update, |=, |, dictable(x, col = v), + / concat / sum), with the operand, by construction, often a table
that has columns but no rows (falsy_table_operand; its truth value is False although it is not "nothing"), on targets with rows (falsy_table_update_rejected), with columns and no rows and without columns
(falsy_table_update_adds_columns_to_*).

Model conventions that the column store forces (written into the oracle, listed in ASSUMPTIONS):
  * a table with zero columns has zero rows (so `[{}]`, `d + {}` and "delete the last column" give the empty table);
  * column order is not compared;
  * where the API hands back the operand object itself (d + None, 0 + d, concat of a single table) the result is the
    same table, not a copy.
"""
import copy as _copy
import datetime as _datetime
import functools
import math
import operator
import os
import re

from hypothesis import strategies as st

from pv.core import MachineSub, Violation, call, call_or, must_raise, check, short
from pv.codec import build as _codec_build, mkdt, s_scalar, D0

# every zone-aware stamp of this module lives in ONE zone with a non-zero offset that is not a whole number of hours
ZONE = _datetime.timezone(_datetime.timedelta(hours=5, minutes=30))


def build(v):
    """codec.build plus the zone-aware stamps of this module: ['dtz', ordinal, seconds] a datetime, ['tsz', ordinal, seconds] a pandas Timestamp, both in ZONE"""
    if isinstance(v, list) and v and v[0] in ('dtz', 'tsz'):
        stamp = mkdt(*v[1:]).replace(tzinfo=ZONE)
        if v[0] == 'tsz':
            import pandas as pd
            return pd.Timestamp(stamp)
        return stamp
    return _codec_build(v)

ASSUMPTIONS = [
    'cells are None, ints (also beyond 2**53 / 2**63), floats (also NaN, -0.0, 1e308, 5e-324; no inf), strings and datetimes; numpy float64 / int64 scalars and pandas Timestamps '
    'count as floats / ints / datetimes (one value in several raw types); no bools, containers. Cells are carried through unchanged: a cell of the table and the cell of the model are the same '
    'object, or have the same type and are equal (NaN equal to NaN, -0.0 not equal to 0.0) - this reading of "==" is what lets NaN cells in (lifted: NaN used to be excluded)',
    'column names are identifier-like strings that are neither dictable constructor parameters (data, columns) nor method names, and do not start with "_"',
    'a table with zero columns has zero rows (the column store cannot hold rows without columns): [{}], d + {} and deleting the last column give the empty table',
    'column order is not compared (row masks rebuild the table from records with sorted keys; the statement promises no order)',
    'd + None, d + 0, None + d, sum([d]) and dictable.concat(d) may return the operand itself; the result is then treated as the same table, not as a copy',
    'rows given with headers all have exactly one cell per header; the header-in-first-row form has at least one data row (header only raises ValueError: no length to infer)',
    'd[[]] is read as "no rows" (documented by tests/test_dictable.py::test_dictable_getitem), so column projections d[[cols]] and d & cols keep at least one column; '
    'd & cols with an empty intersection is the table without columns (and so without rows): fixed in /repo (was: kept every column), now generated',
    'rename/relabel targets are fresh names (no collisions); the list form d.rename([names]) is used for >= 2 columns only (one name is ambiguous with the prefix/suffix string form)',
    'slice steps are non-zero; boolean masks have full length; misfit lengths are neither len(d) nor 1. Integer indices are within [-len, len) where a row is expected; an index outside (lifted: used to be left out) '
    'has no row in a list of records, so d[i], d[[.., i, ..]], d[array], d[range over the end] must raise (any exception counts as a refusal) and leave every table as it was - on tables with at least one column '
    '(a table without columns has no cell to look up: d[5] is the empty record there)',
    'functions used for derived columns / do() are total on the cell universe and return cells of the universe; do() with a function of (value, other) never transforms "other" itself',
    'chained derived columns d(x = f(cols), y = g(x)) use two fresh target names (a target that is its own input is "circular" by design)',
    'construction from two columns of different lengths (neither 1) may raise ValueError; if it returns, only rectangularity is demanded',
    'tables are kept <= 24 rows (concatenations that would exceed this are skipped)',
    'd += x, d -= cols, d &= cols are the statement forms of d + x, d - cols, d & cols: when the statement leaves a new object in the variable the old object and all other live tables '
    'must be untouched; when it leaves the same object, that object holds the result and all OTHER live tables must be untouched',
    'd |= {col: values} is column assignment (scalar / length-1 broadcast, misfit -> ValueError): dictable.__ior__ was repaired in /repo (it used to inherit dict.__ior__), so every mode is generated '
    '(lifted). d *= / d /= are join / xor (C02), not table operations of this property',
    'duplicate labels in an INPUT (headers / pairs naming one column twice, d[[a, a]], d & [a, a], d - [a, a]) mean what they mean for a record: a later value for the same key replaces the earlier, '
    'a selection names a column once; a table itself never has two columns of one name (it is a dict)',
    'user functions (derived columns, d[f], apply, do, inc / exc predicates) are presented with the columns their NAMED parameters (positional-or-keyword and keyword-only) ask for, as documented in '
    'Dict / kwpartial: *args and **kwargs receive nothing, a parameter that is not a column keeps its declared default (whole, also when it is a container as long as the table), a parameter '
    'that is a column gets the cell whatever its default. The parameter name "key" (Dict._key, the target name) is not used. Predicates are judged by python truthiness of what they return',
    'inc(f.., col = v..) applies the functions first and the value conditions after; when the functions keep no row the value conditions must still be accepted (result: no rows, all columns). '
    'pyg-base raised KeyError there (finding F29, fixed in /repo 4fba231; replay replays/C01/F29-*.json; left out only with PV_C01_EXCLUDE_FIXED=1)',
    'd.apply(f, **defaults): a default is used for a parameter that is not a column; a column of that name wins (docstring of Dict.apply). d.get(col, default) is the column, or default once per row',
    'inc / exc with a NaN value keeps / drops the rows whose cell is a NaN float (docstring of inc); a NaN inside a value LIST follows python membership (identity or ==)',
    'zone-aware datetimes / Timestamps are datetimes: they are carried through with the same instant AND the same utc offset (same() compares both); all of them live in one zone (+05:30)',
    'inc / exc by a compiled pattern (docstring of inc) keeps / drops the rows whose cell is a string in which pattern.search finds something; cells that are not strings never match. The expected rows are worked out with '
    'plain string operations (lower(), in, startswith, split) for patterns built from one alphanumeric ascii literal, so only such patterns are generated; a pattern inside a LIST of values is not generated (membership, not search)',
    'functools.partial objects are user functions like any other: keywords / leading arguments they carry are theirs (never a column name here), the remaining named parameters are presented with the columns',
    'the column list handed out by d[c] / d.c / d.get(c) is (today) the table\'s own list: a cell written into it is a cell written into the table, and into every other live column that is the same list object '
    '(d.copy(), d(..), d - c, d & c, d[[cols]], rename, do, dictable(d) share their untouched column lists with the operand: the statement does not say whether they may, so the model follows object identity of the lists, '
    'read from the raw column store); were a copy handed out, no table may change. Only the derived views (len, iteration, rows, later reads) are judged, which is what a stale per-object memo would break',
    'a number within rtol 1e-5 / atol 1e-8 of a cell is another value unless == says otherwise',
    'a string is one cell whatever its length (d[c] = "abc" on a 3-row table broadcasts "abc"); range, dict_keys and dict_values are sequences of cells like lists and tuples',
    'd.update(x) / d |= x with x another TABLE is column assignment of the columns of x, one after the other, each with the usual length rule (the table has no columns yet, or the column is as long as the table, '
    'or it holds one cell = broadcast, also over zero rows); all columns of a table have one length, so an x that does not fit is refused at its first column: ValueError and nothing changed (statement and tree agree). '
    'An x with columns and no rows is a table like any other: it adds its columns to a target without rows / without columns and is refused by a target with rows. x itself is never altered; d.update(d) changes nothing',
    'd | x and dictable(x, col = value) are construction from the columns of both (x wins a shared name; the keyword column has a fresh name): one common length, columns holding one cell are broadcast (docstring of '
    'dictattr.__or__), also to zero rows. Where a one-row side has to be broadcast a ValueError is accepted as well (the statement only names "scalar broadcasting"), a table that differs from the model is not; two different '
    'lengths (neither 1) may raise ValueError and, if a table comes back, only rectangularity is demanded (as for new_misfit)',
]

# classes that expose a defect of the library on the current tree are generated only on request (see ASSUMPTIONS / the finding in the report)
INCLUDE_FN_THEN_VALUE_EMPTY = os.environ.get('PV_C01_EXCLUDE_FIXED', '') != '1'      # F29, fixed in /repo: generated by default

NAMES = ['a', 'b', 'c', 'd', 'e']
FRESH = ['f', 'g', 'h', 'i', 'j', 'k', 'l', 'm', 'n', 'o', 'p', 'q']
MAXPOOL = 3
MAXROWS = 24


# ----------------------------------------------------------------------------- reference model of one table

class T(object):
    """columns (list of names) + rows (list of dicts holding exactly these names)"""

    def __init__(self, cols, rows):
        self.cols = list(dict.fromkeys(cols))     # a column named twice is one column
        self.rows = [{c: r[c] for c in self.cols} for r in rows] if self.cols else []

    @property
    def n(self):
        return len(self.rows)

    def col(self, c):
        return [r[c] for r in self.rows]

    def copy(self):
        return T(self.cols, self.rows)

    @staticmethod
    def from_columns(columns):
        """columns: list of (name, list) with equal lengths; a later duplicate name wins"""
        cols = []
        data = {}
        for c, v in columns:
            if c not in cols:
                cols.append(c)
            data[c] = v
        n = len(data[cols[0]]) if cols else 0
        return T(cols, [{c: data[c][i] for c in cols} for i in range(n)])

    @staticmethod
    def from_records(recs):
        """ragged records: union of keys, absent -> None"""
        cols = []
        for r in recs:
            for c in r:
                if c not in cols:
                    cols.append(c)
        return T(cols, [{c: r.get(c) for c in cols} for r in recs])

    @staticmethod
    def concat(ts):
        cols = []
        for t in ts:
            for c in t.cols:
                if c not in cols:
                    cols.append(c)
        rows = []
        for t in ts:
            for r in t.rows:
                rows.append({c: r.get(c) for c in cols})
        return T(cols, rows)

    def __repr__(self):
        return 'T(%s, %s)' % (self.cols, self.rows)


def same(a, b):
    """cells are carried through unchanged: identical, or equal with the same type (NaN equals NaN; -0.0 differs from 0.0)"""
    if a is b:
        return True
    if type(a) is not type(b):
        return False
    if isinstance(a, float):
        if a != a or b != b:
            return a != a and b != b
        return bool(a == b) and math.copysign(1.0, a) == math.copysign(1.0, b)
    if isinstance(a, _datetime.datetime):
        # the same instant, still (or still not) zone-aware, at the same offset
        return bool(a == b) and a.utcoffset() == b.utcoffset()
    return bool(a == b)


def same_list(xs, ys):
    return len(xs) == len(ys) and all(same(x, y) for x, y in zip(xs, ys))


def raw(d):
    """the column store, read without going through any dictable method"""
    return {k: dict.__getitem__(d, k) for k in dict.keys(d)}


_raw = raw


# ----------------------------------------------------------------------------- total functions on the cell universe

def _isnum(v):
    return isinstance(v, (int, float)) and not isinstance(v, bool)


# functions of several columns (derived columns)
FN = {
    'isnone': lambda *a: int(a[0] is None),
    'tname': lambda *a: type(a[0]).__name__,
    'coalesce': lambda *a: next((x for x in a if x is not None), None),
    'nnone': lambda *a: sum(1 for x in a if x is None),
    'first': lambda *a: a[0],
    'last': lambda *a: a[-1],
    'const': lambda *a: 7,
}
# functions of one cell (do)
F1 = {
    'bump': lambda v: v + 1 if _isnum(v) else v,
    'none0': lambda v: 0 if v is None else v,
    'tag': lambda v: 's' if isinstance(v, str) else v,
    'ident': lambda v: v,
    'tname': lambda v: type(v).__name__,
    'none': lambda v: None,
}
# functions of (value, other column)
F2 = {
    'fill': lambda v, o: o if v is None else v,
    'other': lambda v, o: o,
    'both_none': lambda v, o: int(v is None and o is None),
}


def _isint(v):
    import numpy as np
    return isinstance(v, (int, np.integer)) and not isinstance(v, bool)


def _isnumber(v):
    import numpy as np
    return isinstance(v, (int, float, np.integer)) and not isinstance(v, bool)


def _isnan(v):
    return isinstance(v, float) and v != v


def _recast(v, how):
    """the same value in another raw type, when it has one (else v itself)"""
    import datetime
    import numpy as np
    import pandas as pd
    if isinstance(v, bool) or v is None or isinstance(v, str):
        return v
    if isinstance(v, pd.Timestamp):
        return v.to_pydatetime()
    if isinstance(v, datetime.datetime):
        return pd.Timestamp(v)
    if isinstance(v, (int, np.integer)):
        if abs(int(v)) >= 2 ** 53:
            return v
        return [float(int(v)), np.float64(int(v)), np.int64(int(v)) if type(v) is int else int(v)][how - 1]
    if isinstance(v, float) and v == v and abs(v) < 2 ** 53 and float(v).is_integer():
        return [int(v), np.float64(v) if type(v) is float else float(v), np.int64(int(v))][how - 1]
    if isinstance(v, float) and v == v:
        return np.float64(v) if type(v) is float else float(v)
    return v


def _hit(x, values):
    """python membership: identity or =="""
    return any(x is y or bool(x == y) for y in values)


def _cond(x, v):
    """one value condition of inc / exc: None -> is None, NaN -> is a NaN float, a list -> membership, anything else -> =="""
    if v is None:
        return x is None
    if _isnan(v):
        return _isnan(x)
    return _hit(x, v if isinstance(v, list) else [v])


def _falsy(v):
    """0, 0.0, -0.0, '', None: what a truthiness test takes for "nothing given"""
    return v is None or (isinstance(v, (int, float, str)) and not isinstance(v, bool) and not v)


def _plainnum(v):
    return _isnumber(v) and v == v and abs(v) < 1e300


def _close_not_equal(x, y):
    """two numbers that numpy.isclose (rtol 1e-5, atol 1e-8) takes for equal and == does not"""
    if not (_plainnum(x) and _plainnum(y)) or bool(x == y):
        return False
    x, y = float(x), float(y)
    return abs(x - y) <= 1e-8 + 1e-5 * min(abs(x), abs(y))


def _near(x):
    """a number a relative 2e-9 (for 0: an absolute 1e-12) away from x, or None when x has no such neighbour"""
    if not _plainnum(x) or isinstance(x, bool) or abs(x) >= 2 ** 53:
        return None
    v = float(x) * (1 + 2e-9) if x != 0 else 1e-12
    return v if v != x else None


# compiled patterns that carry flags, each with a plain-python reading of "pattern.search(cell) is not None" for a string cell, with and without its flag.
# lit is a literal made of letters and digits only
def _re_variants(lit):
    sw = lit.swapcase()
    lines = lambda v: v.split('\n')
    a_any_b = lambda v, nl: any(v[i] == 'A' and v[i + 2] == 'b' and (nl or v[i + 1] != '\n') for i in range(len(v) - 2))
    return [
        ('re.compile(%r, re.I)' % sw, re.compile(re.escape(sw), re.I), lambda v: lit.lower() in v.lower(), lambda v: sw in v),
        ('re.compile(%r, re.X)' % (' '.join(lit) + '  # c'), re.compile(' '.join(lit) + '  # c', re.X), lambda v: lit in v, lambda v: (' '.join(lit) + '  # c') in v),
        ('re.compile(%r, re.I | re.M)' % ('^' + sw[-1:] + '$'), re.compile('^' + re.escape(sw[-1:]) + '$', re.I | re.M), lambda v: any(x.lower() == lit[-1:].lower() for x in lines(v)), lambda v: v in (sw[-1:], sw[-1:] + '\n')),
        ('re.compile(%r, re.M)' % ('^' + (lit[-1:] or 'b')), re.compile('^' + (lit[-1:] or 'b'), re.M), lambda v: any(x.startswith(lit[-1:] or 'b') for x in lines(v)), lambda v: v.startswith(lit[-1:] or 'b')),
        ('re.compile(%r, re.S)' % 'A.b', re.compile('A.b', re.S), lambda v: a_any_b(v, True), lambda v: a_any_b(v, False)),
        # controls without a flag: a callee that ADDS flags is as wrong as one that drops them
        ('re.compile(%r)' % sw, re.compile(re.escape(sw)), lambda v: sw in v, lambda v: sw in v),
        ('re.compile(%r)' % 'A.b', re.compile('A.b'), lambda v: a_any_b(v, False), lambda v: a_any_b(v, False)),
    ]


def _named(names, fn):
    """lambda <names>: fn(<names>)  - pyg_base looks at parameter names"""
    return eval('lambda %s: _fn(%s)' % (', '.join(names), ', '.join(names)), {'_fn': fn})


# shapes of user functions: which parameters are NAMED decides what the table presents (see ASSUMPTIONS); a function that is handed anything it
# must not get (something in *rest / **kw, a default replaced or distributed over the rows) answers 'LEAK', which no model function ever returns
SHAPES = ['plain', 'plain', 'plain', 'kw', 'rest', 'p0_rest', 'kwonly', 'default_col', 'default_absent', 'allkw', 'allargs', 'partial_kw', 'partial_pos']
DO_SHAPES = ['plain', 'plain', 'plain', 'kw', 'rest', 'kwonly', 'default_col', 'default_absent', 'other_name', 'partial_kw']


def _container(n, cols, k):
    """a declared default that is a container as long as the table / keyed like its columns"""
    return [tuple(range(n)), [None] * n, {c: 0 for c in cols}, tuple(cols)][k % 4]


def _shaped(names, fn, shape, n=0, cols=(), k=0):
    """-> (function object, the column names it reads, reference: row dict -> cell)"""
    names = list(names)
    env = {'_fn': fn, '_W': _container(n, cols, k)}
    if shape == 'allkw':
        return eval('lambda **kw: len(kw)', env), [], (lambda row: 0)
    if shape == 'allargs':
        return eval('lambda *a, **kw: len(a) + len(kw)', env), [], (lambda row: 0)
    if shape == 'p0_rest':
        names = names[:1]
    a = ', '.join(names)
    body = '_fn(%s)' % a
    if shape == 'kw':
        src = 'lambda %s, **kw: %s if not kw else "LEAK"' % (a, body)
    elif shape in ('rest', 'p0_rest'):
        src = 'lambda %s, *rest: %s if not rest else "LEAK"' % (a, body)
    elif shape == 'kwonly':
        src = ('lambda %s, *, %s: %s' % (names[0], ', '.join(names[1:]), body)) if len(names) >= 2 else ('lambda *, %s: %s' % (a, body))
    elif shape == 'default_col':
        src = 'lambda %s%s=_W: %s' % (''.join(x + ', ' for x in names[:-1]), names[-1], body)
    elif shape == 'default_absent':
        src = 'lambda %s, wdef=_W: (%s) if wdef is _W else "LEAK"' % (a, body)
    elif shape == 'partial_kw':
        # an object that carries an option: functools.partial with a keyword that is not a column; rebuilding the call from .func loses it
        src = 'lambda %s, wdef: (%s) if wdef is _W else "LEAK"' % (a, body)
        return functools.partial(eval(src, env), wdef=env['_W']), names, (lambda row: fn(*[row[x] for x in names]))
    elif shape == 'partial_pos':
        src = 'lambda wdef, %s: (%s) if wdef is _W else "LEAK"' % (a, body)
        return functools.partial(eval(src, env), env['_W']), names, (lambda row: fn(*[row[x] for x in names]))
    else:
        src = 'lambda %s: %s' % (a, body)
    return eval(src, env), names, (lambda row: fn(*[row[x] for x in names]))


def _shaped_do(h, o, shape, n=0, cols=(), k=0):
    """a function of (value, column o) for do(), in one of the shapes; h(value, other) is the reference"""
    env = {'_h': h, '_W': _container(n, cols, k)}
    body = '_h(value, %s)' % o
    src = {'kw': 'lambda value, %s, **kw: %s if not kw else "LEAK"' % (o, body),
           'rest': 'lambda value, %s, *rest: %s if not rest else "LEAK"' % (o, body),
           'kwonly': 'lambda value, *, %s: %s' % (o, body),
           'default_col': 'lambda value, %s=_W: %s' % (o, body),
           'default_absent': 'lambda value, %s, wdef=_W: (%s) if wdef is _W else "LEAK"' % (o, body),
           'partial_kw': 'lambda value, %s, wdef: (%s) if wdef is _W else "LEAK"' % (o, body),
           'other_name': 'lambda first, %s: _h(first, %s)' % (o, o)}.get(shape, 'lambda value, %s: %s' % (o, body))
    if shape == 'partial_kw':
        return functools.partial(eval(src, env), wdef=env['_W'])
    return eval(src, env)


def _shaped_do1(f, shape, n=0, cols=(), k=0):
    """a function of the value alone for do()"""
    env = {'_f': f, '_W': _container(n, cols, k)}
    src = {'kw': 'lambda value, **kw: _f(value) if not kw else "LEAK"',
           'rest': 'lambda value, *rest: _f(value) if not rest else "LEAK"',
           'default_absent': 'lambda value, wdef=_W: _f(value) if wdef is _W else "LEAK"',
           'partial_kw': 'lambda value, wdef: _f(value) if wdef is _W else "LEAK"',
           'other_name': 'lambda first: _f(first)'}.get(shape, 'lambda value: _f(value)')
    if shape == 'partial_kw':
        return functools.partial(eval(src, env), wdef=env['_W'])
    return eval(src, env)


def _factory(names):
    """functions made by ONE factory share a code object and differ in their closure only"""
    a = ', '.join(names)
    ns = {}
    exec('def make(_fn):\n    return lambda %s: _fn(%s)' % (a, a), ns)
    return ns['make']


def _freeze(x):
    """structure of an argument container: the very objects it holds, in their order (to see a callee writing into its caller's containers)"""
    if type(x) is dict:
        return ('dict', [(k, id(v), _freeze(v)) for k, v in x.items()])
    if type(x) is list:
        return ('list', [(id(v), _freeze(v)) for v in x])
    return ('leaf',)


ASDEFAULT = ('a', 'default', 'object')


# ----------------------------------------------------------------------------- the machine

# numbers a vectorised path would mangle (ints beyond 2**53 / 2**63 next to floats, NaN, -0.0, the ends of the float range) and one value in several raw types
WIDE = [2 ** 53 + 1, -(2 ** 53) - 1, 2 ** 63, -(2 ** 63) - 1, 1e16, -0.0, 5e-324, 1.7976931348623157e308, ['nan', 0], ['nan', 1]]
RAW = [['np', 'float64', 1.0], ['np', 'int64', 1], ['np', 'float64', 2.5], ['np', 'int64', 2], ['np', 'float64', 0.0], ['ts', D0 + 1, 0], ['ts', D0 + 2, 0]]
# zone-aware stamps (datetime and Timestamp, one zone), a string of two lines (what re.M / re.S tell apart), numbers within numpy.isclose of 1.0, 2.5 and 0.0 without being equal to them
EXTRA = [['dtz', D0 + 1, 0], ['dtz', D0 + 2, 0], ['tsz', D0 + 1, 0], ['dtz', D0 + 1, 43200], 'A\nb', 1.000000001, 2.5000000001, 1e-09, -1e-09]
_cell = st.one_of(s_scalar(), s_scalar(), s_scalar(), st.sampled_from(WIDE), st.sampled_from(RAW), st.just(['nan', 0]), st.sampled_from(EXTRA))
_numcell = st.one_of(st.integers(-3, 6), st.sampled_from([-1.5, 0.0, 1.0, 2.0, 2.5]), st.sampled_from(WIDE), st.sampled_from(RAW[:5]))
_vals = st.one_of(st.lists(_cell, min_size=1, max_size=6), st.lists(_cell, min_size=1, max_size=6), st.lists(_cell, min_size=1, max_size=6),
                  st.lists(_numcell, min_size=2, max_size=6))
_t = st.integers(0, 5)
_ci = st.integers(0, 7)
_name = st.sampled_from(NAMES)
_names = st.lists(_name, min_size=1, max_size=4, unique=True)
_record = st.lists(st.tuples(_name, _cell), max_size=3, unique_by=lambda kv: kv[0])
_records = st.one_of(
    st.lists(_record, max_size=5),
    st.tuples(st.lists(_name, max_size=4, unique=True), st.integers(0, 5), st.lists(_cell, min_size=20, max_size=20)).map(
        lambda t: [[[c, t[2][(i * len(t[0]) + j) % 20]] for j, c in enumerate(t[0])] for i in range(t[1])]),
)


def _cv(c, i, kind):
    """a cell spec that tells column c (and row i) apart from every other column: a swap between columns is visible"""
    j = (NAMES + FRESH).index(c) + 1 if c in NAMES + FRESH else 20
    if kind == 'mixed':
        kind = ['int', 'str', 'float', 'dt'][(i + j) % 4]
    if kind == 'raw':
        # ONE value per column, written in another raw type on every row (python int / float, numpy float64 / int64; datetime / Timestamp)
        if j % 3 == 0:
            return [['dt', D0 + 40 + j, 0], ['ts', D0 + 40 + j, 0]][i % 2]
        return [j, float(j), ['np', 'float64', float(j)], ['np', 'int64', j]][(i + j) % 4]
    if kind == 'tz':
        # zone-aware stamps only (datetime and Timestamp of one zone), half a day apart
        return [['dtz', D0 + 40 * j + i // 2, 43200 * (i % 2)], ['tsz', D0 + 40 * j + i // 2, 43200 * (i % 2)]][(i + j) % 2]
    if kind == 'num':
        # numbers only: what a vectorised sort / grouping / take would accept, with values it cannot hold
        return [100 * j + i, j + 0.5, 2 ** 53 + j, -0.0, ['nan', 0], 2 ** 63 + j, float(2 ** 53), 0.0, -(2 ** 63) - j, 1e16][(i + 3 * j) % 10]
    if kind == 'int':
        return 100 * j + i
    if kind == 'str':
        return '%s%i' % (c, i)
    if kind == 'float':
        return j + i / 16.0
    return ['dt', D0 + 40 * j + i, 0]


@st.composite
def _permuted_records(draw):
    """records over one key set, every record written in its own (independent) key order; optionally ragged; cells distinguishable per column"""
    keys = draw(st.lists(_name, min_size=2, max_size=4, unique=True))
    n = draw(st.integers(2, 5))
    ragged = draw(st.sampled_from([False, False, False, True]))
    kind = draw(st.sampled_from(['int', 'str', 'float', 'dt', 'mixed', 'raw', 'num', 'tz']))
    recs = []
    for i in range(n):
        order = list(draw(st.permutations(keys)))
        if ragged:
            order = order[:draw(st.integers(1, len(order)))]
        recs.append([[c, _cv(c, i, kind)] for c in order])
    return recs


_records = st.one_of(_records, _permuted_records())
_sl = st.one_of(st.none(), st.integers(-7, 7))
_step = st.one_of(st.none(), st.sampled_from([-3, -2, -1, 1, 2, 3]))


class Tables(object):
    OPS = {
        # ---- construction
        'new_records': dict(recs=_records, form=st.sampled_from(['list', 'data_kw', 'concat'])),
        'new_columns': dict(cols=st.lists(st.tuples(_name, st.sampled_from(['list', 'list', 'list', 'scalar', 'scalar', 'len1', 'len1', 'tuple', 'tuple', 'range', 'dvalues', 'strn', 'shared']), _vals),
                                          max_size=4, unique_by=lambda c: c[0]),
                            n=st.integers(0, 5), form=st.sampled_from(['dict', 'kw', 'split', 'pairs', 'data_kw', 'kw_explicit_none']), dup=st.integers(0, 7)),
        'new_rows': dict(cols=_names, rows=st.lists(st.lists(_cell, min_size=4, max_size=4), max_size=5),
                         form=st.sampled_from(['headers', 'columns_kw', 'first_row', 'tuples', 'zip', 'tuple_headers']), dup=st.integers(0, 5)),
        'new_empty': dict(form=st.sampled_from(['none', 'cols_kw', 'headers', 'columns_only', 'dict', 'records', 'explicit_none']), cols=_names),
        'new_misfit': dict(cols=st.lists(_name, min_size=2, max_size=2, unique=True), la=st.sampled_from([0, 2, 3, 4]), lb=st.integers(2, 6),
                           form=st.sampled_from(['kw', 'dict'])),
        # ---- in place
        'setitem': dict(t=_t, col=_ci, new=st.booleans(), how=st.sampled_from(['item', 'attr', 'update']),
                        mode=st.sampled_from(['fit', 'fit', 'fit', 'scalar', 'scalar', 'len1', 'len1', 'tuple', 'tuple', 'misfit', 'misfit', 'range', 'dvalues', 'strn']), vals=_vals, k=st.integers(0, 9)),
        'set_misfit': dict(t=_t, col=_ci, new=st.booleans(), how=st.sampled_from(['item', 'attr', 'update', 'update2']), vals=_vals, k=st.integers(0, 9)),
        'delcol': dict(t=_t, col=_ci, how=st.sampled_from(['item', 'attr'])),
        # ---- reading / selecting
        'row': dict(t=_t, i=st.integers(0, 30), neg=st.booleans(), raw=st.sampled_from(['int', 'int', 'int', 'int64', 'int32'])),
        # an index just outside [-len, len): a list of records refuses it (IndexError); a row handed back for it (wrapping round to the other end) is a wrong answer
        'row_outside': dict(t=_t, beyond=st.sampled_from([0, 0, 0, 1, 2, 7]), neg=st.booleans(), idx=st.lists(st.integers(-30, 30), max_size=3),
                            form=st.sampled_from(['int', 'int', 'int', 'int64', 'list', 'list', 'array', 'range'])),
        'slice': dict(t=_t, start=_sl, stop=_sl, step=_step),
        'mask': dict(t=_t, bits=st.integers(0, 2 ** MAXROWS - 1), mode=st.sampled_from(['bits', 'bits', 'bits', 'none', 'all']),
                     form=st.sampled_from(['list', 'list', 'list', 'array', 'array', 'mixed', 'views'])),
        'take': dict(t=_t, idx=st.lists(st.integers(-30, 30), max_size=6), form=st.sampled_from(['list', 'list', 'list', 'array', 'array', 'range', 'range', 'mixed', 'views'])),
        'project': dict(t=_t, cols=st.lists(_ci, min_size=1, max_size=3), form=st.sampled_from(['list', 'tuple', 'and', 'and_extra', 'and_str', 'keys']),
                        allow_empty=st.sampled_from([False, False, False, True]), dup=st.sampled_from([False, False, False, True])),
        'minus': dict(t=_t, cols=st.lists(_ci, min_size=1, max_size=3), form=st.sampled_from(['str', 'list', 'list_extra', 'missing']), dup=st.sampled_from([False, False, False, True])),
        'filter': dict(t=_t, col=_ci, pick=st.integers(0, 30), v=_cell, use_v=st.booleans(), recast=st.sampled_from([0, 0, 0, 1, 2, 3, 4]),
                       form=st.sampled_from(['inc', 'inc', 'exc', 'exc', 'inc_list', 'inc_list', 'exc_list', 'exc_list', 'inc_dict', 'inc_dict', 'inc_list_n', 'inc_list_n', 'exc_list_n', 'exc_list_n', 'inc_tuple',
                                             'inc_re', 'exc_re'])),
        'filter_fn': dict(t=_t, fn=st.sampled_from(sorted(FN)), fn_b=st.sampled_from(sorted(FN)), cols=st.lists(_ci, min_size=1, max_size=2), cols_b=st.lists(_ci, min_size=1, max_size=2),
                          shape=st.sampled_from(SHAPES), k=st.integers(0, 9), col=_ci, pick=st.integers(0, 30),
                          form=st.sampled_from(['inc', 'exc', 'inc_two', 'inc_list', 'exc_two', 'inc_fn_value', 'inc_fn_value', 'exc_fn_value', 'inc_dict_fn'])),
        'get': dict(t=_t, col=_ci, missing=st.booleans(), v=_cell, form=st.sampled_from(['get', 'get_default', 'get_default', 'get_default_kw', 'get_explicit_none'])),
        # ---- derived columns, renaming, per-column transforms
        'derive': dict(t=_t, fn=st.sampled_from(sorted(FN)), args=st.lists(_ci, min_size=1, max_size=3), tgt=_ci, new=st.booleans(),
                       form=st.sampled_from(['getitem', 'getitem', 'call', 'call', 'call', 'call', 'chain', 'chain', 'value', 'value', 'apply', 'apply_defaults', 'factory_pair', 'factory_pair', 'same_fn_two_keys', 'same_fn_twice']),
                       mode=st.sampled_from(['fit', 'fit', 'scalar', 'scalar', 'len1', 'len1', 'misfit', 'misfit', 'range', 'strn']),
                       vals=_vals, k=st.integers(0, 9), fn2=st.sampled_from(sorted(F1)), shape=st.sampled_from(SHAPES)),
        'rename': dict(t=_t, col=_ci, form=st.sampled_from(['kw', 'relabel_kw', 'dict', 'prefix', 'suffix', 'func', 'list', 'swap', 'swap', 'rotate', 'chain'])),
        'do': dict(t=_t, fn=st.sampled_from(sorted(F1)), fn2=st.sampled_from(sorted(F1)), f2=st.sampled_from(sorted(F2)), cols=st.lists(_ci, min_size=1, max_size=3), other=_ci,
                   form=st.sampled_from(['all', 'args', 'list', 'empty_list', 'two_fns', 'two_fns', 'with_other', 'with_other']), shape=st.sampled_from(DO_SHAPES), k=st.integers(0, 9)),
        # ---- concatenation
        'concat': dict(ts=st.lists(_t, min_size=1, max_size=3), form=st.sampled_from(['add', 'add', 'concat_args', 'concat_list', 'sum_start', 'sum0',
                                                                                      'reordered_add', 'reordered_concat_args', 'reordered_concat_list', 'reordered_sum_start']),
                       dup=st.sampled_from([False, False, False, False, True])),
        'add_record': dict(t=_t, rec=_record, rec2=_record, src=_t, i=st.integers(0, 30),
                           form=st.sampled_from(['dict', 'Dict', 'row_of', 'row_of_self', 'concat', 'records', 'records_same', 'records_perm', 'concat_perm', 'sum_perm'])),
        'add_none': dict(t=_t, form=st.sampled_from(['none', 'zero', 'rnone', 'rzero', 'zero_float'])),
        'copy': dict(t=_t, form=st.sampled_from(['copy', 'inc', 'exc', 'ctor', 'copy_module', 'full_slice'])),
        # ---- augmented assignment: the statement  d += x  (d -= cols, d &= cols, d |= {col: values}); the pool gets whatever the statement leaves in the variable
        'iadd_record': dict(t=_t, rec=_record, rec2=_record, src=_t, i=st.integers(0, 30), form=st.sampled_from(['dict', 'dict', 'Dict', 'row_of', 'records', 'records_perm'])),
        'iadd_table': dict(t=_t, t2=_t, same=st.sampled_from([False, False, False, True])),
        'iadd_none': dict(t=_t, form=st.sampled_from(['none', 'zero'])),
        'iop_cols': dict(t=_t, cols=st.lists(_ci, min_size=1, max_size=3), form=st.sampled_from(['isub_str', 'isub_list', 'iand_list', 'iand_extra', 'iand_str'])),
        'ior': dict(t=_t, col=_ci, new=st.booleans(), mode=st.sampled_from(['fit', 'fit', 'scalar', 'scalar', 'len1', 'len1', 'misfit', 'misfit', 'range', 'strn']), vals=_vals, k=st.integers(0, 9), allow_raw=st.just(True)),
        # ---- ANOTHER TABLE handed to the operations that take a table / a mapping of columns (update, |=, |, the constructor next to keyword columns, + / concat / sum): half of the
        #      operand tables have columns but no rows by construction (truth value False without being "nothing"); targets with rows, with columns and no rows, without columns
        'table_arg': dict(t=_t, t2=_t, src=st.sampled_from(['pool', 'pool', 'no_rows', 'no_rows', 'no_rows', 'mask', 'slice', 'self']),
                          form=st.sampled_from(['update', 'update', 'update', 'ior', 'ior', 'ior', 'or', 'ctor_kw', 'ctor_kw', 'add', 'radd', 'concat', 'sum']),
                          tgt=st.sampled_from(['any', 'any', 'rows', 'rows', 'no_rows', 'no_cols']), cols=_names, overlap=st.sampled_from([False, False, True]), vals=_vals, k=st.integers(0, 9)),
        # ---- integer-list selection, deletion of a column that is not the last one, integer-list selection again (on one table)
        'reselect': dict(t=_t, idx=st.lists(st.integers(-30, 30), min_size=1, max_size=5), col=_ci, how=st.sampled_from(['item', 'attr']),
                         idx2=st.lists(st.integers(-30, 30), min_size=1, max_size=5), form=st.sampled_from(['list', 'list', 'array'])),
        # ---- one read, an in-place change of the same table, the same read again (state that outlives an update); the function objects are the same ones both times
        'reread': dict(t=_t, read=st.sampled_from(['take', 'mask', 'project', 'tuple', 'inc', 'exc', 'fn', 'call', 'do', 'slice', 'rename', 'minus', 'self_add', 'add_record', 'apply']),
                       upd=st.sampled_from(['set_existing', 'set_existing', 'set_new', 'attr', 'update', 'delcol', 'delcol', 'delattr', 'cell', 'cell']),
                       idx=st.lists(st.integers(-30, 30), min_size=1, max_size=5), cols=st.lists(_ci, min_size=1, max_size=3), bits=st.integers(0, 2 ** MAXROWS - 1),
                       col=_ci, pick=st.integers(0, 30), fn=st.sampled_from(sorted(FN)), fn1=st.sampled_from(sorted(F1)), vals=_vals, k=st.integers(0, 9)),
        # ---- ONE argument container handed to several calls in a row (first with extra keywords, then on its own): later calls are judged by its original content
        'shared_arg': dict(t=_t, t2=_t, form=st.sampled_from(['ctor_dict', 'inc_dict', 'exc_dict', 'rename_dict', 'records', 'cols_list', 'update_dict', 'values']),
                           cols=st.lists(_ci, min_size=1, max_size=3), names=_names, rec=_record, rec2=_record, vals=_vals, vals2=_vals, k=st.integers(0, 9), col=_ci, pick=st.integers(0, 30),
                           fn1=st.sampled_from(sorted(F1))),
    }
    _CTORS = ('new_records', 'new_columns', 'new_rows', 'new_empty', 'new_misfit')
    PRE = {}
    for _op in OPS:
        if _op not in _CTORS:
            PRE[_op] = lambda m: len(m.pool) > 0
    PRE['row'] = lambda m: any(e['m'].n > 0 for e in m.pool)
    for _op in ('delcol', 'project', 'filter', 'derive', 'iop_cols', 'filter_fn', 'reread', 'row_outside'):
        PRE[_op] = lambda m: any(e['m'].cols for e in m.pool)
    PRE['reselect'] = lambda m: any(len(e['m'].cols) >= 2 for e in m.pool)
    del _op

    def __init__(self):
        self.pool = []          # entries {'d': dictable, 'm': T, 'src': op that produced it, 'gen': derivation depth}
        self.nops = 0
        self.flags = set()
        self.ops_used = []
        self.consumed = False   # some table produced by one rule was consumed by another rule
        self.skipped = 0
        self.fns = {}           # function objects of this history: the same request gets the same OBJECT again

    # ------------------------------------------------------------------ helpers
    def _pick(self, t, pred=None):
        el = [e for e in self.pool if pred is None or pred(e)]
        return el[t % len(el)] if el else None

    def _use(self, op, *entries):
        for e in entries:
            if e['src'] != op:
                self.consumed = True
            if e['gen'] >= 1:
                self.flags.add('chain')
            if e['m'].n == 0:
                self.flags.add('empty')

    def _add(self, op, d, m, operands=(), allow_alias=False):
        from pyg_base import dictable
        check(isinstance(d, dictable), '%s returned %s, not a dictable', op, type(d).__name__)
        if allow_alias:
            for e in self.pool:
                if e['d'] is d:
                    m = e['m']       # the very same table: one model
                    self.flags.add('alias')
                    break
        if m.n == 0:
            self.flags.add('empty')
        gen = 1 + max([e['gen'] for e in operands]) if operands else 0
        self.pool.append(dict(d=d, m=m, src=op, gen=gen))
        if len(self.pool) > MAXPOOL:
            self.pool.pop(0)

    def _snap(self, skip=None):
        return [(e, {k: list(v) if isinstance(v, list) else v for k, v in raw(e['d']).items()}) for e in self.pool
                if skip is None or e['d'] is not skip]

    def _unchanged(self, what, snap):
        for e, before in snap:
            after = raw(e['d'])
            ok = set(after) == set(before) and all(isinstance(after[k], list) and same_list(after[k], before[k]) for k in before)
            check(ok, '%s altered a table it was not supposed to touch: was %s, now %s', what, before, after)

    def _pure(self, what, f, *args, **kwargs):
        """a call that returns something new: no live table may change"""
        snap = self._snap()
        res = call(what, f, *args, **kwargs)
        self._unchanged(what, snap)
        return res

    def _begin(self, op):
        self.nops += 1
        if op not in self.ops_used:
            self.ops_used.append(op)

    def _skip(self):
        self.skipped += 1

    @staticmethod
    def _cols_of(e, idx, unique=True):
        cols = e['m'].cols
        out = []
        for i in idx:
            c = cols[i % len(cols)]
            if not unique or c not in out:
                out.append(c)
        return out

    @staticmethod
    def _fresh(e, k=0, avoid=()):
        cand = [c for c in NAMES + FRESH if c not in e['m'].cols and c not in avoid]
        if not cand:
            cand = ['z%i' % j for j in range(40) if 'z%i' % j not in e['m'].cols and 'z%i' % j not in avoid]
        return cand[k % len(cand)]

    @staticmethod
    def _value(mode, vals, n, ncols, k):
        """-> (python value to assign, its cells, fits?) for a table with n rows and ncols columns"""
        cells = [build(v) for v in vals]
        if mode == 'scalar':
            return cells[0], [cells[0]], True
        if mode == 'strn':
            sv = 'abcdefghijklmnopqrstuvwxyz'[:n]       # a string of exactly len(d) characters is ONE cell
            return sv, [sv], True
        if mode == 'range':
            ln = n if ncols > 0 else k % 7
            return range(ln), list(range(ln)), True
        if mode == 'len1':
            return [cells[0]], [cells[0]], True
        if mode == 'misfit' and ncols > 0:
            cands = [x for x in range(0, n + 4) if x != n and x != 1]
            ln = cands[k % len(cands)]
            v = [cells[i % len(cells)] for i in range(ln)]
            return v, list(v), False
        ln = n if ncols > 0 else min(len(cells), k % 7)
        v = [cells[i % len(cells)] for i in range(ln)]
        if mode == 'tuple':
            return tuple(v), list(v), True
        if mode == 'dvalues':
            return dict(enumerate(v)).values(), list(v), True
        return v, list(v), True

    def _value_flags(self, mode, n, ncols, cells=()):
        if mode in ('scalar', 'len1') and n >= 1 and cells and _falsy(cells[0]):
            self.flags.add('falsy_value')               # 0 / 0.0 / '' / None as THE value of a column
        if mode == 'strn' and n >= 2 and ncols > 0:
            self.flags.add('str_len_n_scalar')
        if mode in ('range', 'dvalues'):
            self.flags.add('range_value')
        if mode in ('scalar', 'len1', 'strn') and n != 1 and ncols > 0:
            self.flags.add('broadcast')

    def _verify(self, what, res, m):
        """a result table against a model, without taking it into the pool"""
        from pyg_base import dictable
        check(isinstance(res, dictable), '%s returned %s, not a dictable', what, type(res).__name__)
        store = raw(res)
        ok = set(store) == set(m.cols) and all(isinstance(store[c], list) and same_list(store[c], m.col(c)) for c in m.cols)
        check(ok, '%s = %s, the model says columns %s rows %s', what, store, m.cols, m.rows)

    def _fn(self, key, make):
        """the function object for `key`: built once per history, the same object afterwards"""
        if key in self.fns:
            self.flags.add('fn_object_reused')
        else:
            self.fns[key] = make()
        return self.fns[key]

    def _unfrozen(self, what, x, before):
        check(_freeze(x) == before, '%s altered an argument container of its caller: now %s', what, short(x, 200))

    @staticmethod
    def _assign_model(m, c, cells):
        """the list-of-records meaning of  table[c] = cells  (cells fit)"""
        if not m.cols:
            return T([c], [{c: v} for v in cells])
        if len(cells) != m.n:
            cells = cells * m.n     # one cell, broadcast
        cols = m.cols if c in m.cols else m.cols + [c]
        rows = []
        for r, v in zip(m.rows, cells):
            r = dict(r)
            r[c] = v
            rows.append(r)
        return T(cols, rows)

    def _records_classes(self, recs):
        keysets = set(tuple(sorted(r)) for r in recs)
        orders = set(tuple(r) for r in recs if len(r) >= 2)
        if len(keysets) > 1:
            self.flags.add('ragged_records')
            if len(orders) > len(set(tuple(sorted(o)) for o in orders)):
                self.flags.add('ragged_records_shared_keys_different_order')
        elif len(orders) > 1:
            self.flags.add('records_same_keys_different_order')

    # ------------------------------------------------------------------ construction
    def op_new_records(self, recs, form):
        from pyg_base import dictable
        self._begin('new_records')
        recs = [{c: build(v) for c, v in r} for r in recs]
        m = T.from_records(recs)
        self._records_classes(recs)
        arg = [dict(r) for r in recs]
        if form == 'list':
            d = self._pure('dictable(%s)' % short(arg, 150), dictable, arg)
        elif form == 'data_kw':
            d = self._pure('dictable(data = %s)' % short(arg, 150), lambda: dictable(data=arg))
        else:
            d = self._pure('dictable.concat(%s)' % short(arg, 150), dictable.concat, arg)
            # concat of records: each record is a one-row table (no row when it has no key)
            m = T.concat([T.from_records([r]) for r in recs])
        check(len(arg) == len(recs) and all(type(x) is dict and list(x) == list(r) and all(same(x[c], r[c]) for c in r) for x, r in zip(arg, recs)),
              'construction from records altered the records: %s, were %s', arg, recs)
        self._add('new_records', d, m)

    def op_new_columns(self, cols, n, form, dup=0):
        from pyg_base import dictable
        self._begin('new_columns')
        SEQ = ('list', 'tuple', 'range', 'dvalues', 'shared')
        entries = [[c, kind, vals] for c, kind, vals in cols]
        if dup == 1 and entries:
            # pairs naming one column twice: the later pair replaces the earlier (as in a record)
            form = 'pairs'
            entries.append([entries[0][0], ['list', 'scalar', 'tuple'][n % 3], list(reversed(entries[0][2]))])
            self.flags.add('duplicate_labels')
        kinds = {}
        for c, kind, _ in entries:
            kinds[c] = kind
        has_list = any(kind in SEQ for kind in kinds.values())
        n_eff = (n if has_list else 1) if entries else 0
        args = []
        model = []
        last_list = None
        for j, (c, kind, vals) in enumerate(entries):
            cells = [build(v) for v in vals]
            live = not any(x[0] == c for x in entries[j + 1:])      # not replaced by a later pair
            if kind == 'scalar':
                args.append((c, cells[0]))
                model.append((c, [cells[0]] * n_eff))
            elif kind == 'len1':
                args.append((c, [cells[0]]))
                model.append((c, [cells[0]] * n_eff))
            elif kind == 'strn':
                sv = c[:1] * n                       # a string as long as the lists next to it is still one cell
                args.append((c, sv))
                model.append((c, [sv] * n_eff))
                if has_list and n >= 2 and live:
                    self.flags.add('str_len_n_scalar')
            elif kind == 'range':
                args.append((c, range(n)))
                model.append((c, list(range(n))))
                self.flags.add('range_value')
            elif kind == 'shared' and last_list is not None:
                args.append((c, last_list))          # ONE list object given as two columns
                model.append((c, list(last_list)))
                self.flags.add('shared_column_list')
            else:
                v = [cells[i % len(cells)] for i in range(n)]
                if kind == 'tuple':
                    args.append((c, tuple(v)))
                elif kind == 'dvalues':
                    args.append((c, dict(enumerate(v)).values()))
                    self.flags.add('range_value')
                else:
                    args.append((c, v))
                    last_list = v
                model.append((c, list(v)))
            if kind in ('scalar', 'len1', 'strn') and n_eff != 1 and live:
                self.flags.add('broadcast')
        m = T.from_columns(model)
        if form == 'pairs' and not args:
            form = 'dict'
        if form == 'dict':
            d = self._pure('dictable(%s)' % short(dict(args), 150), dictable, dict(args))
        elif form == 'data_kw':
            d = self._pure('dictable(data = %s)' % short(dict(args), 150), lambda: dictable(data=dict(args)))
        elif form == 'kw':
            d = self._pure('dictable(**%s)' % short(dict(args), 150), lambda: dictable(**dict(args)))
        elif form == 'kw_explicit_none':
            # the constructor's own defaults written out, positionally or by keyword, next to keyword columns
            if n % 2:
                d = self._pure('dictable(None, None, **%s)' % short(dict(args), 150), lambda: dictable(None, None, **dict(args)))
            else:
                d = self._pure('dictable(data = None, columns = None, **%s)' % short(dict(args), 150), lambda: dictable(data=None, columns=None, **dict(args)))
            self.flags.add('explicit_default')
        elif form == 'pairs':
            d = self._pure('dictable(%s)' % short(args, 150), dictable, list(args))
        else:
            h = len(args) // 2
            d = self._pure('dictable(%s, **%s)' % (short(dict(args[:h]), 80), short(dict(args[h:]), 80)), lambda: dictable(dict(args[:h]), **dict(args[h:])))
        self._add('new_columns', d, m)

    def op_new_rows(self, cols, rows, form, dup=0):
        from pyg_base import dictable
        self._begin('new_rows')
        cols = list(cols)
        k = len(cols)
        if dup == 1 and k >= 2:
            cols[-1 if len(rows) % 2 else 1] = cols[0]      # a header naming one column twice: the later cell of a row replaces the earlier (a record has one value per key)
            self.flags.add('duplicate_labels')
            if form == 'zip':
                form = 'tuples'
        rows = [[build(v) for v in r[:k]] for r in rows]
        m = T(cols, [dict(zip(cols, r)) for r in rows])
        if form == 'first_row' and not rows:
            form = 'headers'
        if form == 'zip' and not rows:
            form = 'headers'
        if form == 'tuple_headers':
            d = self._pure('dictable(%s, %s)' % (short(rows, 120), tuple(cols)), dictable, [list(r) for r in rows], tuple(cols))
            return self._add('new_rows', d, m)
        if form == 'headers':
            d = self._pure('dictable(%s, %s)' % (short(rows, 120), cols), dictable, [list(r) for r in rows], list(cols))
        elif form == 'columns_kw':
            d = self._pure('dictable(data = %s, columns = %s)' % (short(rows, 120), cols), lambda: dictable(data=[list(r) for r in rows], columns=list(cols)))
        elif form == 'tuples':
            d = self._pure('dictable(%s, %s)' % (short([tuple(r) for r in rows], 120), cols), dictable, [tuple(r) for r in rows], list(cols))
        elif form == 'zip':
            columns = [[r[j] for r in rows] for j in range(k)]
            d = self._pure('dictable(zip(*%s), %s)' % (short(columns, 120), cols), lambda: dictable(zip(*columns), dict.fromkeys(cols).keys()))
        else:
            data = [list(cols)] + [list(r) for r in rows]
            d = self._pure('dictable(%s)' % short(data, 150), dictable, data)
        self._add('new_rows', d, m)

    def op_new_empty(self, form, cols):
        from pyg_base import dictable
        self._begin('new_empty')
        if form == 'none':
            d, m = self._pure('dictable()', dictable), T([], [])
        elif form == 'explicit_none':
            if len(cols) % 2:
                d, m = self._pure('dictable(None, None)', dictable, None, None), T([], [])
            else:
                d, m = self._pure('dictable(data = None, columns = None)', lambda: dictable(data=None, columns=None)), T([], [])
            self.flags.add('explicit_default')
        elif form == 'dict':
            d, m = self._pure('dictable({})', dictable, {}), T([], [])
        elif form == 'records':
            d, m = self._pure('dictable([])', dictable, []), T([], [])
        elif form == 'cols_kw':
            d, m = self._pure('dictable(**%s)' % {c: [] for c in cols}, lambda: dictable(**{c: [] for c in cols})), T(cols, [])
        elif form == 'headers':
            d, m = self._pure('dictable([], %s)' % cols, dictable, [], list(cols)), T(cols, [])
        else:
            d, m = self._pure('dictable(columns = %s)' % cols, lambda: dictable(columns=list(cols))), T(cols, [])
        self._add('new_empty', d, m)

    def op_new_misfit(self, cols, la, lb, form):
        from pyg_base import dictable
        self._begin('new_misfit')
        if la == lb:
            lb += 1
        data = {cols[0]: [0] * la, cols[1]: [1] * lb}
        what = 'dictable(%s)' % data
        snap = self._snap()
        ok, res = call_or(what, (ValueError,), (lambda: dictable(**data)) if form == 'kw' else (lambda: dictable(data)))
        self._unchanged(what, snap)
        if ok:
            lens = sorted(set(len(v) for v in raw(res).values()))
            check(len(lens) <= 1, '%s returned a table whose columns have lengths %s', what, lens)
        self.flags.add('ctor_misfit')

    # ------------------------------------------------------------------ in place
    def op_setitem(self, t, col, new, how, mode, vals, k, op='setitem'):
        self._begin(op)
        e = self._pick(t)
        if e is None:
            return self._skip()
        self._use(op, e)
        d, m = e['d'], e['m']
        c = self._fresh(e, col) if (new or not m.cols) else m.cols[col % len(m.cols)]
        value, cells, fits = self._value(mode, vals, m.n, len(m.cols), k)
        self._value_flags(mode, m.n, len(m.cols), cells)
        what = {'item': 'd[%r] = %s', 'attr': 'd.%s = %s', 'update': 'd.update({%r: %s})'}[how] % (c, short(value, 100))
        what = '%s on %s' % (what, short(raw(d), 150))
        if how == 'item':
            f = lambda: d.__setitem__(c, value)
        elif how == 'attr':
            f = lambda: setattr(d, c, value)
        else:
            f = lambda: d.update({c: value})
        if fits:
            snap = self._snap(skip=d)
            call(what, f)
            self._unchanged(what, snap)
            newm = self._assign_model(m, c, cells)
            m.cols, m.rows = newm.cols, newm.rows   # in place: aliases share the model
            if len(cells) == 1 and m.n != 1 and mode in ('scalar', 'len1'):
                self.flags.add('broadcast')
            if m.n == 0:
                self.flags.add('empty')
            e['gen'] += 1
        else:
            snap = self._snap()
            must_raise(what, ValueError, f)
            self._unchanged(what + ' (rejected)', snap)
            self.flags.add('misfit')

    def op_set_misfit(self, t, col, new, how, vals, k):
        """an assignment whose length is neither len(d) nor 1 (any length fits a table without columns)"""
        e = self._pick(t)
        if how != 'update2' or e is None or not e['m'].cols:
            return self.op_setitem(t, col, new, 'update' if how == 'update2' else how, 'misfit', vals, k, op='set_misfit')
        # d.update({c1: fitting, c2: misfit}): ValueError; the statement demands a rectangular table afterwards, so the
        # fitting column may or may not have been stored - both outcomes are accepted and the model follows the table
        self._begin('set_misfit')
        self._use('set_misfit', e)
        d, m = e['d'], e['m']
        c1 = self._fresh(e, col) if new else m.cols[col % len(m.cols)]
        c2 = self._fresh(e, col + 1, avoid=[c1])
        v1, cells1, _ = self._value('scalar' if k % 2 else 'fit', vals, m.n, len(m.cols), k)
        v2, _, fits = self._value('misfit', vals, m.n, len(m.cols), k)
        what = 'd.update({%r: %s, %r: %s}) on %s' % (c1, short(v1, 80), c2, short(v2, 80), short(raw(d), 150))
        snap = self._snap(skip=d)
        must_raise(what, ValueError, lambda: d.update({c1: v1, c2: v2}))
        self._unchanged(what, snap)
        store = raw(d)
        applied = self._assign_model(m, c1, cells1)
        lens = sorted(set(len(v) if isinstance(v, list) else -1 for v in store.values()))
        check(len(lens) <= 1, '%s was rejected but left the table non-rectangular: %s', what, store)
        for cand in (m, applied):
            if set(store) == set(cand.cols) and all(same_list(store[c], cand.col(c)) for c in cand.cols):
                m.cols, m.rows = list(cand.cols), [dict(r) for r in cand.rows]
                break
        else:
            check(False, '%s was rejected and left %s: neither the old table nor the old table with %s assigned', what, store, c1)
        self.flags.add('misfit')
        self.flags.add('partial_update')
        e['gen'] += 1

    def op_delcol(self, t, col, how):
        self._begin('delcol')
        e = self._pick(t, lambda e: e['m'].cols)
        if e is None:
            return self._skip()
        self._use('delcol', e)
        self._delcol(e, e['m'].cols[col % len(e['m'].cols)], how)

    def _delcol(self, e, c, how):
        d, m = e['d'], e['m']
        if e.get('sel') == 1 and len(m.cols) >= 2:
            e['sel'] = 2        # an integer-list selection was made on this object before, and columns remain
        what = ('del d[%r]' if how == 'item' else 'del d.%s') % c + ' on %s' % short(raw(d), 150)
        snap = self._snap(skip=d)
        if how == 'item':
            call(what, d.__delitem__, c)
        else:
            call(what, delattr, d, c)
        self._unchanged(what, snap)
        newm = T([x for x in m.cols if x != c], m.rows)
        m.cols, m.rows = newm.cols, newm.rows
        if m.n == 0:
            self.flags.add('empty')
        e['gen'] += 1

    # ------------------------------------------------------------------ reading / selecting
    def op_row(self, t, i, neg, raw='int'):
        self._begin('row')
        e = self._pick(t, lambda e: e['m'].n > 0)
        if e is None:
            return self._skip()
        self._use('row', e)
        d, m = e['d'], e['m']
        i = i % m.n
        if neg:
            i = i - m.n
        item = i
        if raw != 'int':
            import numpy as np
            item = getattr(np, raw)(i)
            self.flags.add('raw_index_types')
        rec = self._pure('d[%r] on %s' % (item, short(_raw(d), 150)), d.__getitem__, item)
        check(isinstance(rec, dict), 'd[%s] returned %s', i, type(rec).__name__)
        exp = m.rows[i]
        check(set(dict.keys(rec)) == set(exp) and all(same(dict.__getitem__(rec, c), exp[c]) for c in exp), 'd[%s] = %s, the model row is %s', i, dict(rec), exp)

    def op_row_outside(self, t, beyond, neg, idx, form):
        """d[i] / d[[.., i, ..]] with i just outside [-len, len): the list of records has no such row, so the call must refuse; every table stays as it was"""
        self._begin('row_outside')
        e = self._pick(t, lambda e: e['m'].cols)
        if e is None:
            return self._skip()
        self._use('row_outside', e)
        d, m = e['d'], e['m']
        n = m.n
        out = -n - 1 - beyond if neg else n + beyond
        if form in ('int', 'int64'):
            item = out
            if form == 'int64':
                import numpy as np
                item = np.int64(out)
        elif form == 'range':
            item = range(max(n - 1, 0), n + 1 + beyond)         # runs over the end
        else:
            inside = [(i % n) if i >= 0 else -((-i - 1) % n) - 1 for i in idx] if n else []
            item = inside[:len(inside) // 2] + [out] + inside[len(inside) // 2:]
            if form == 'array':
                import numpy as np
                item = np.array(item, dtype=int)
        what = 'd[%r] on %s (%i rows)' % (item, short(_raw(d), 150), n)
        snap = self._snap()
        must_raise(what, Exception, d.__getitem__, item)
        self._unchanged(what + ' (refused)', snap)
        self.flags.add('index_outside')
        if n > 0:
            self.flags.add('index_outside_nonempty')     # a wrapped index would have found a row

    def op_slice(self, t, start, stop, step):
        self._begin('slice')
        e = self._pick(t)
        if e is None:
            return self._skip()
        self._use('slice', e)
        d, m = e['d'], e['m']
        s = slice(start, stop, step)
        res = self._pure('d[%s:%s:%s] on %s' % (start, stop, step, short(raw(d), 150)), d.__getitem__, s)
        self._add('slice', res, T(m.cols, m.rows[s]), [e])
        if step is not None and step < 0:
            self.flags.add('neg_step')

    def op_mask(self, t, bits, mode, form):
        self._begin('mask')
        e = self._pick(t)
        if e is None:
            return self._skip()
        self._use('mask', e)
        d, m = e['d'], e['m']
        bits = [bool((bits >> (i % MAXROWS)) & 1) for i in range(m.n)]
        if mode == 'none':
            bits = [False] * m.n
        elif mode == 'all':
            bits = [True] * m.n
        if form == 'array':
            import numpy as np
            item = np.array(bits, dtype=bool)
        elif form == 'mixed':
            import numpy as np
            item = [np.bool_(b) if j % 2 else b for j, b in enumerate(bits)]     # bool and numpy.bool_ in one mask
            if len(item) >= 2:
                self.flags.add('raw_index_types')
        elif form == 'views':
            item = self._views(e, bits, [not b for b in bits][::-1], bool, lambda bb: T(m.cols, [r for r, b in zip(m.rows, bb) if b]))
        else:
            item = list(bits)
        res = self._pure('d[%s] on %s' % (short(item, 100), short(raw(d), 150)), d.__getitem__, item)
        newm = T(m.cols, [r for r, b in zip(m.rows, bits) if b])
        if m.n > 0 and newm.n == 0:
            self.flags.add('mask_to_empty')
        self._add('mask', res, newm, [e])

    def op_take(self, t, idx, form):
        self._begin('take')
        e = self._pick(t)
        if e is None:
            return self._skip()
        self._use('take', e)
        self._take(e, idx, form)

    def _take(self, e, idx, form, op='take'):
        d, m = e['d'], e['m']
        if e.get('sel') == 2:
            self.flags.add('take_delcol_take')
        elif not e.get('sel'):
            e['sel'] = 1
        n = m.n
        if n == 0:
            idx = []
        else:
            idx = [(i % n) if i >= 0 else -((-i - 1) % n) - 1 for i in idx]
        if form == 'range':
            item = range(len(idx) % (n + 1)) if n else range(0)
            idx = list(item)
        elif form == 'array':
            import numpy as np
            item = np.array(idx, dtype=int)
        elif form == 'mixed':
            import numpy as np
            item = [[np.int64, int, np.int32][j % 3](i) for j, i in enumerate(idx)]     # python and numpy integers in one list
            if len(item) >= 2:
                self.flags.add('raw_index_types')
        elif form == 'views':
            item = self._views(e, idx, [-i - 1 for i in idx][::-1], int, lambda ii: T(m.cols, [m.rows[i] for i in ii]))
        else:
            item = list(idx)
        res = self._pure('d[%s] on %s' % (short(item, 100), short(raw(d), 150)), d.__getitem__, item)
        self._add(op, res, T(m.cols, [m.rows[i] for i in idx]), [e])
        if len(set(i % n for i in idx)) < len(idx):
            self.flags.add('repeated_rows')

    def _views(self, e, wanted, other, dtype, model):
        """
        two views of ONE buffer that start at the same address with the same dtype and shape and walk it with different strides: a[:k] and a[::2][:k].
        The buffer interleaves `wanted` and `other`, so a[::2][:k] reads `wanted`; the selection by a[:k] is made (and judged) first, a[::2][:k] is handed back
        """
        import numpy as np
        d = e['d']
        k = len(wanted)
        buf = np.array([x for pair in zip(wanted, other) for x in pair], dtype=dtype)
        first, second = buf[:k], buf[::2][:k]
        what = 'd[a[:%i]] with a = %s on %s' % (k, buf.tolist(), short(raw(d), 150))
        res = self._pure(what, d.__getitem__, first)
        self._verify(what, res, model(buf.tolist()[:k]))
        if k >= 2 and first.tolist() != second.tolist():
            self.flags.add('strided_views_of_one_buffer')
        return second

    def op_project(self, t, cols, form, allow_empty=False, dup=False):
        self._begin('project')
        e = self._pick(t, lambda e: e['m'].cols)
        if e is None:
            return self._skip()
        self._use('project', e)
        d, m = e['d'], e['m']
        cs = self._cols_of(e, cols)
        rd = short(raw(d), 150)
        if form == 'tuple':
            cs = self._cols_of(e, cols, unique=False)
            res = self._pure('d[%s] on %s' % (tuple(cs), rd), d.__getitem__, tuple(cs))
            exp = [tuple(r[c] for c in cs) for r in m.rows]
            check(isinstance(res, list) and len(res) == len(exp) and all(isinstance(x, tuple) and same_list(list(x), list(y)) for x, y in zip(res, exp)),
                  'd[%s] = %s, the model says %s', tuple(cs), res, exp)
            return
        twice = list(cs)
        if dup and form in ('list', 'and', 'and_extra'):
            twice = cs + [cs[0]]                 # a column named twice is selected once
            self.flags.add('duplicate_labels')
        if form == 'list':
            res = self._pure('d[%s] on %s' % (twice, rd), d.__getitem__, list(twice))
        elif form == 'keys':
            res = self._pure('d[dict_keys(%s)] on %s' % (cs, rd), d.__getitem__, dict.fromkeys(cs).keys())
        elif form == 'and_str':
            cs = cs[:1]
            res = self._pure('d & %r on %s' % (cs[0], rd), lambda: d & cs[0])
        elif form == 'and_extra':
            other = [self._fresh(e, 3)] + twice + [self._fresh(e, 5)]
            if allow_empty:
                other, cs = [self._fresh(e, 3)], []
            res = self._pure('d & %s on %s' % (other, rd), lambda: d & other)
        else:
            res = self._pure('d & %s on %s' % (twice, rd), lambda: d & list(twice))
        self._add('project', res, T(cs, m.rows), [e])

    def op_minus(self, t, cols, form, dup=False):
        self._begin('minus')
        e = self._pick(t)
        if e is None:
            return self._skip()
        self._use('minus', e)
        d, m = e['d'], e['m']
        rd = short(raw(d), 150)
        cs = self._cols_of(e, cols) if m.cols else []
        if form == 'missing' or not cs:
            arg = self._fresh(e, 2)
            cs = []
        elif form == 'str':
            cs = cs[:1]
            arg = cs[0]
        elif form == 'list_extra':
            arg = cs + [self._fresh(e, 1)]
        else:
            arg = list(cs)
        if dup and isinstance(arg, list) and cs:
            arg = arg + [cs[0]]                  # removing a column twice removes it once
            self.flags.add('duplicate_labels')
        res = self._pure('d - %r on %s' % (arg, rd), lambda: d - arg)
        self._add('minus', res, T([c for c in m.cols if c not in cs], m.rows), [e])

    def op_filter(self, t, col, pick, v, use_v, form, recast=0):
        self._begin('filter')
        e = self._pick(t, lambda e: e['m'].cols)
        if e is None:
            return self._skip()
        if pick % 2 == 0 and form in ('inc', 'exc', 'inc_dict'):
            e = self._pick(t, lambda e: any(_isnan(y) for c in e['m'].cols for y in e['m'].col(c))) or e
        if form in ('inc_re', 'exc_re'):
            e = self._pick(t, lambda e: any(isinstance(y, str) for c in e['m'].cols for y in e['m'].col(c))) or e
            return self._filter_re(e, col, pick, form)
        self._use('filter', e)
        d, m = e['d'], e['m']
        c = m.cols[col % len(m.cols)]
        column = m.col(c)
        v = build(v)
        nans = [x for x in m.cols if any(_isnan(y) for y in m.col(x))]
        if nans and pick % 2 == 0 and form in ('inc', 'exc', 'inc_dict'):
            # a column holding NaN, filtered by a NaN that is another object than the cells: keeps / drops every NaN row
            c = nans[col % len(nans)]
            column = m.col(c)
            v = float('nan')
            self.flags.add('filter_by_nan')
        elif column and (not use_v or recast == 4):
            if recast == 4:
                nearable = [x for x in m.cols if any(_near(y) is not None for y in m.col(x))]
                if nearable:
                    c = nearable[col % len(nearable)]
                    column = m.col(c)
            v = column[pick % len(column)]
            if recast == 4:
                # a near miss: a number that numpy.isclose takes for a cell of the column and == does not
                for x in [v] + [x for x in column if x is not v]:
                    if _near(x) is not None:
                        v = _near(x)
                        break
            elif recast:
                # the value of a cell of the column, written in another raw type (1 -> 1.0 -> numpy.float64(1.0) -> numpy.int64(1); datetime <-> Timestamp)
                for x in [v] + [x for x in column if x is not v]:
                    alt = _recast(x, recast)
                    if alt is not x:        # this cell has another spelling
                        v = alt
                        break
        rd = short(raw(d), 150)

        hit = _hit
        if form in ('inc', 'exc', 'inc_dict'):
            keep = [_cond(r[c], v) for r in m.rows]
            arg = v
            if _isnan(v):
                self.flags.add('nan_cells')
        elif form in ('inc_list_n', 'exc_list_n'):
            # a list of values exactly as long as the table, holding 0 / 1: still a list of values, not a mask
            values = ([v, 1, 0, column[(pick + 1) % len(column)] if column else 1] * (m.n + 1))[:max(m.n, 1)]
            keep = [hit(r[c], values) for r in m.rows]
            arg = list(values)
            if m.n >= 2:
                self.flags.add('filter_list_len_n')
        else:
            values = [v] + ([column[(pick + 1) % len(column)]] if column else [])
            keep = [hit(r[c], values) for r in m.rows]
            arg = tuple(values) if form == 'inc_tuple' else list(values)
        asked = list(arg) if isinstance(arg, (list, tuple)) else [arg]
        if any(_close_not_equal(x, y) for x in column for y in asked):
            self.flags.add('near_miss_value')           # the condition names a number within a tolerance of a cell that is not equal to it
        if form in ('inc', 'exc', 'inc_dict') and _falsy(arg) and m.n:
            self.flags.add('falsy_value')
        met = [r[c] for r, b in zip(m.rows, keep) if b]
        if any(type(x) is not type(y) and bool(x == y) for x in met for y in met + (list(arg) if isinstance(arg, (list, tuple)) else [arg])):
            self.flags.add('raw_types_same_value')      # one value of the condition is met by cells of different raw types
        if form in ('inc', 'inc_list', 'inc_list_n', 'inc_tuple'):
            res = self._pure('d.inc(%s = %r) on %s' % (c, arg, rd), lambda: d.inc(**{c: arg}))
        elif form == 'inc_dict':
            res = self._pure('d.inc({%r: %r}) on %s' % (c, arg, rd), lambda: d.inc({c: arg}))
        else:
            keep = [not b for b in keep]
            res = self._pure('d.exc(%s = %r) on %s' % (c, arg, rd), lambda: d.exc(**{c: arg}))
        newm = T(m.cols, [r for r, b in zip(m.rows, keep) if b])
        if m.n > 0 and newm.n == 0:
            self.flags.add('mask_to_empty')
        self._add('filter', res, newm, [e])

    def _filter_re(self, e, col, pick, form):
        """inc / exc by a compiled pattern (docstring of inc): keeps / drops the rows whose cell is a string the pattern finds something in; the pattern carries flags"""
        self._use('filter', e)
        d, m = e['d'], e['m']
        rd = short(raw(d), 150)
        strs = [c for c in m.cols if any(isinstance(y, str) and y.isalnum() for y in m.col(c))]
        c = strs[col % len(strs)] if strs else m.cols[col % len(m.cols)]
        if not strs and m.n > 0:
            # no text in any live table: the column is first assigned text (in place, an ordinary fitting assignment), so that the pattern has something to find
            text = [['a', 'ab', 'A', 'A\nb', 'b', 1, 'Ab', None][(i + pick) % 8] for i in range(m.n)]
            what = 'd[%r] = %s on %s' % (c, text, rd)
            snap = self._snap(skip=d)
            call(what, d.__setitem__, c, list(text))
            self._unchanged(what, snap)
            newm = self._assign_model(m, c, text)
            m.cols, m.rows = newm.cols, newm.rows
            e['gen'] += 1
            self.check()
            rd = short(raw(d), 150)
        column = m.col(c)
        lits = [y for y in column if isinstance(y, str) and y.isalnum() and y.isascii()]
        lit = lits[pick % len(lits)] if lits else 'a'
        variants = _re_variants(lit)
        name, pattern, reading, unflagged = variants[(pick // 3) % len(variants)]
        hit = [isinstance(r[c], str) and bool(reading(r[c])) for r in m.rows]
        if pattern.flags & (re.I | re.M | re.S | re.X):
            self.flags.add('regex_with_flags')
            if any(isinstance(r[c], str) and bool(reading(r[c])) != bool(unflagged(r[c])) for r in m.rows):
                self.flags.add('regex_flag_decides')    # the same text compiled without its flags selects other rows
        if form == 'inc_re':
            keep = hit
            res = self._pure('d.inc(%s = %s) on %s' % (c, name, rd), lambda: d.inc(**{c: pattern}))
        else:
            keep = [not b for b in hit]
            res = self._pure('d.exc(%s = %s) on %s' % (c, name, rd), lambda: d.exc(**{c: pattern}))
        newm = T(m.cols, [r for r, b in zip(m.rows, keep) if b])
        if m.n > 0 and newm.n == 0:
            self.flags.add('mask_to_empty')
        self._add('filter', res, newm, [e])

    # ------------------------------------------------------------------ derived columns, renaming, per-column transforms
    def op_derive(self, t, fn, args, tgt, new, form, mode, vals, k, fn2, shape='plain'):
        self._begin('derive')
        e = self._pick(t, lambda e: e['m'].cols)
        if e is None:
            return self._skip()
        self._use('derive', e)
        d, m = e['d'], e['m']
        rd = short(raw(d), 150)
        names = self._cols_of(e, args)
        if form not in ('getitem', 'call', 'apply', 'same_fn_two_keys', 'same_fn_twice'):
            shape = 'plain'
        f, names, ref = self._fn(('derive', shape, tuple(names), fn, m.n, tuple(m.cols), k),
                                 lambda: _shaped(names, FN[fn], shape, m.n, m.cols, k))
        column = [ref(r) for r in m.rows]
        sig = '%s(%s)' % (shape, ', '.join(names))
        if shape != 'plain':
            self.flags.add('fn_shape')
            self.flags.add('fn_shape=' + shape)
        if form in ('getitem', 'apply'):
            if form == 'getitem':
                res = self._pure('d[lambda %s: %s] on %s' % (sig, fn, rd), d.__getitem__, f)
            else:
                res = self._pure('d.apply(lambda %s: %s) on %s' % (sig, fn, rd), d.apply, f)
            check(isinstance(res, list) and same_list(res, column), 'd[lambda %s: %s] = %s, the model says %s', sig, fn, res, column)
            return
        if form == 'apply_defaults':
            # d.apply(f, **defaults): a default whose name is a column loses against the column, another one is used as it is
            absent = self._fresh(e, tgt)
            present = names[-1]
            g = eval('lambda %s, %s: _fn(%s) if %s is _D else "LEAK"' % (', '.join(names), absent, ', '.join(names), absent), {'_fn': FN[fn], '_D': ASDEFAULT})
            defaults = {absent: ASDEFAULT, present: 'LOST'}
            res = self._pure('d.apply(lambda %s, %s: %s, **%s) on %s' % (', '.join(names), absent, fn, defaults, rd), lambda: d.apply(g, **defaults))
            check(isinstance(res, list) and same_list(res, column), 'd.apply(lambda %s, %s: %s, **%s) = %s, the model says %s', ', '.join(names), absent, fn, defaults, res, column)
            self.flags.add('optional_params')
            return
        c = self._fresh(e, tgt) if new else m.cols[tgt % len(m.cols)]
        if form in ('same_fn_two_keys', 'same_fn_twice'):
            # ONE function object for two keys (in one call / in two calls, the second on the result of the first)
            c1 = self._fresh(e, tgt)
            c2 = self._fresh(e, tgt + 1, avoid=[c1])
            rows = [dict(r, **{c1: x, c2: x}) for r, x in zip(m.rows, column)]
            if form == 'same_fn_two_keys':
                res = self._pure('d(%s = f, %s = f) with f = lambda %s: %s on %s' % (c1, c2, sig, fn, rd), lambda: d(**{c1: f, c2: f}))
            else:
                first = self._pure('d(%s = f) with f = lambda %s: %s on %s' % (c1, sig, fn, rd), lambda: d(**{c1: f}))
                self._verify('d(%s = lambda %s: %s) on %s' % (c1, sig, fn, rd), first, self._assign_model(m, c1, column))
                res = self._pure('d(%s = f)(%s = f) with f = lambda %s: %s on %s' % (c1, c2, sig, fn, rd), lambda: first(**{c2: f}))
                again = self._pure('d(%s = f)(%s = f)[f] with f = lambda %s: %s on %s' % (c1, c2, sig, fn, rd), res.__getitem__, f)
                check(isinstance(again, list) and same_list(again, column), 'd(..)[lambda %s: %s] = %s, the model says %s', sig, fn, again, column)
            self._add('derive', res, T(m.cols + [c1, c2], rows), [e])
            self.flags.add('fn_object_reused')
            return
        if form == 'factory_pair':
            # two functions made by one factory: one code object, two closures
            make = _factory(names)
            g1, g2 = make(FN[fn]), make(lambda *a: F1[fn2](a[0]))
            c1 = self._fresh(e, tgt)
            c2 = self._fresh(e, tgt + 1, avoid=[c1])
            second = [F1[fn2](r[names[0]]) for r in m.rows]
            res = self._pure('d(%s = make(%s), %s = make(%s)) of (%s) on %s' % (c1, fn, c2, fn2, ', '.join(names), rd), lambda: d(**{c1: g1, c2: g2}))
            rows = [dict(r, **{c1: x, c2: y}) for r, x, y in zip(m.rows, column, second)]
            self._add('derive', res, T(m.cols + [c1, c2], rows), [e])
            self.flags.add('fn_factory_pair')
            return
        if form == 'call':
            res = self._pure('d(%s = lambda %s: %s) on %s' % (c, sig, fn, rd), lambda: d(**{c: f}))
            self._add('derive', res, self._assign_model(m, c, column), [e])
        elif form == 'chain':
            c1 = self._fresh(e, tgt)
            c2 = self._fresh(e, tgt + 1, avoid=[c1])
            g = _named([c1], F1[fn2])
            second = [F1[fn2](x) for x in column]
            # given in the order (dependent, independent): the call has to work out the order itself
            res = self._pure('d(%s = lambda %s: %s, %s = lambda %s: %s) on %s' % (c2, c1, fn2, c1, ', '.join(names), fn, rd), lambda: d(**{c2: g, c1: f}))
            cols = m.cols + [c1, c2]
            rows = [dict(r, **{c1: x, c2: y}) for r, x, y in zip(m.rows, column, second)]
            self._add('derive', res, T(cols, rows), [e])
            self.flags.add('derive_chain')
        else:
            value, cells, fits = self._value(mode, vals, m.n, len(m.cols), k)
            self._value_flags(mode, m.n, len(m.cols), cells)
            what = 'd(%s = %s) on %s' % (c, short(value, 100), rd)
            if fits:
                res = self._pure(what, lambda: d(**{c: value}))
                self._add('derive', res, self._assign_model(m, c, cells), [e])
                if len(cells) == 1 and m.n != 1 and mode in ('scalar', 'len1'):
                    self.flags.add('broadcast')
            else:
                snap = self._snap()
                must_raise(what, ValueError, lambda: d(**{c: value}))
                self._unchanged(what + ' (rejected)', snap)
                self.flags.add('misfit')

    def op_rename(self, t, col, form):
        self._begin('rename')
        e = self._pick(t)
        if e is None:
            return self._skip()
        self._use('rename', e)
        d, m = e['d'], e['m']
        rd = short(raw(d), 150)
        if form == 'list' and len(m.cols) < 2:
            form = 'kw'
        if form in ('prefix', 'suffix', 'func') and any(len(c) > 6 for c in m.cols):
            form = 'kw'
        if form in ('kw', 'relabel_kw', 'dict') and not m.cols:
            form = 'prefix'
        if form in ('swap', 'rotate', 'chain'):
            # several columns renamed AT ONCE, a new name being the old name of another renamed column: a swap, a rotation of three, a chain a->b, b->fresh
            n = len(m.cols)
            if n < 2:
                form = 'kw' if n else 'prefix'
            else:
                i = col % n
                if form == 'swap' or n == 2 and form == 'rotate':
                    a, b = m.cols[i], m.cols[(i + 1) % n]
                    mapping = {a: b, b: a}
                elif form == 'rotate':
                    a, b, c = m.cols[i], m.cols[(i + 1) % n], m.cols[(i + 2) % n]
                    mapping = {a: b, b: c, c: a}
                else:
                    a, b = m.cols[i], m.cols[(i + 1) % n]
                    mapping = {a: b, b: self._fresh(e, col)}
                if col % 2:
                    mapping = dict(list(mapping.items())[::-1])          # the same renames written in the other order
                how = ['rename(**m)', 'relabel(**m)', 'rename(m)'][col % 3]
                res = self._pure('d.%s with m = %s on %s' % (how, mapping, rd),
                                 (lambda: d.rename(**mapping)) if how == 'rename(**m)' else (lambda: d.relabel(**mapping)) if how == 'relabel(**m)' else (lambda: d.rename(dict(mapping))))
                self.flags.add('rename_onto_the_old_name_of_another_renamed_column')
                cols = [mapping.get(c, c) for c in m.cols]
                rows = [{mapping.get(c, c): v for c, v in r.items()} for r in m.rows]
                return self._add('rename', res, T(cols, rows), [e])
        if form in ('kw', 'relabel_kw', 'dict'):
            old = m.cols[col % len(m.cols)]
            mapping = {old: self._fresh(e, col)}
            if form == 'kw':
                res = self._pure('d.rename(**%s) on %s' % (mapping, rd), lambda: d.rename(**mapping))
            elif form == 'relabel_kw':
                res = self._pure('d.relabel(**%s) on %s' % (mapping, rd), lambda: d.relabel(**mapping))
            else:
                res = self._pure('d.rename(%s) on %s' % (mapping, rd), lambda: d.rename(dict(mapping)))
        elif form == 'prefix':
            mapping = {c: 'p_' + c for c in m.cols}
            res = self._pure("d.relabel('p_') on %s" % rd, lambda: d.relabel('p_'))
        elif form == 'suffix':
            mapping = {c: c + '_s' for c in m.cols}
            res = self._pure("d.rename('_s') on %s" % rd, lambda: d.rename('_s'))
        elif form == 'func':
            mapping = {c: c + 'x' for c in m.cols}
            res = self._pure("d.rename(lambda k: k + 'x') on %s" % rd, lambda: d.rename(lambda key: key + 'x'))
        else:
            # the list form pairs the new names with d.keys() in the table's own column order
            keys = list(dict.keys(d))
            fresh = []
            for j in range(len(keys)):
                fresh.append(self._fresh(e, col + j, avoid=fresh))
            mapping = dict(zip(keys, fresh))
            res = self._pure('d.rename(%s) on %s' % (fresh, rd), lambda: d.rename(list(fresh)))
        cols = [mapping.get(c, c) for c in m.cols]
        rows = [{mapping.get(c, c): v for c, v in r.items()} for r in m.rows]
        self._add('rename', res, T(cols, rows), [e])

    def op_do(self, t, fn, fn2, f2, cols, other, form, shape='plain', k=0):
        self._begin('do')
        e = self._pick(t)
        if e is None:
            return self._skip()
        self._use('do', e)
        d, m = e['d'], e['m']
        rd = short(raw(d), 150)
        f = F1[fn]
        fv = self._fn(('do1', shape, fn, m.n, tuple(m.cols), k), lambda: _shaped_do1(f, shape, m.n, m.cols, k))
        if shape != 'plain':
            self.flags.add('fn_shape')
            self.flags.add('fn_shape=' + shape)
        cs = self._cols_of(e, cols) if m.cols else []
        if form == 'with_other' and len(m.cols) < 2:
            form = 'args'
        if form in ('args', 'list', 'two_fns') and not cs:
            form = 'all'
        rows = [dict(r) for r in m.rows]
        if form == 'all':
            res = self._pure('d.do(%s) on %s' % (fn, rd), d.do, fv)
            rows = [{c: f(v) for c, v in r.items()} for r in rows]
        elif form == 'args':
            res = self._pure('d.do(%s, *%s) on %s' % (fn, cs, rd), d.do, fv, *cs)
            rows = [{c: (f(v) if c in cs else v) for c, v in r.items()} for r in rows]
        elif form == 'list':
            res = self._pure('d.do(%s, %s) on %s' % (fn, cs, rd), d.do, fv, list(cs))
            rows = [{c: (f(v) if c in cs else v) for c, v in r.items()} for r in rows]
        elif form == 'empty_list':
            res = self._pure('d.do(%s, []) on %s' % (fn, rd), d.do, fv, [])
        elif form == 'two_fns':
            c = cs[0]
            if k % 3:
                for cand in sorted(F1):
                    if any(not same(F1[cand](f(r[c])), f(F1[cand](r[c]))) for r in rows):
                        fn2 = cand          # a second function that does not commute with the first on this column
                        break
            g = F1[fn2]
            res = self._pure('d.do([%s, %s], %r) on %s' % (fn, fn2, c, rd), d.do, [fv, lambda value: g(value)], c)
            if any(not same(g(f(r[c])), f(g(r[c]))) for r in rows):
                self.flags.add('do_fns_order_matters')      # the functions do not commute on this column: the order of the list is visible
            rows = [{x: (g(f(v)) if x == c else v) for x, v in r.items()} for r in rows]
        else:
            o = m.cols[other % len(m.cols)]
            cs = [c for c in cs if c != o]
            if not cs:
                cs = [c for c in m.cols if c != o][:1]
            h = F2[f2]
            hf = _shaped_do(h, o, shape, m.n, m.cols, k)
            res = self._pure('d.do(lambda %s(value, %s): %s, *%s) on %s' % (shape, o, f2, cs, rd), d.do, hf, *cs)
            rows = [{c: (h(v, r[o]) if c in cs else v) for c, v in r.items()} for r in rows]
        self._add('do', res, T(m.cols, rows), [e])

    # ------------------------------------------------------------------ concatenation
    def op_concat(self, ts, form, dup=False):
        from pyg_base import dictable
        self._begin('concat')
        es = [self._pick(t) for t in ts]
        if not es or es[0] is None:
            return self._skip()
        if dup and len(es) >= 2:
            es[-1] = es[0]          # the same table OBJECT at both ends
        elif dup:
            es = [es[0], es[0]]
        reorder = form.startswith('reordered_')
        if reorder:
            form = form[len('reordered_'):]
        if sum(e['m'].n for e in es) + (es[0]['m'].n if reorder else 0) > MAXROWS:
            return self._skip()
        self._use('concat', *es)
        ds = [e['d'] for e in es]
        cols = list(dict.keys(ds[0]))
        if reorder and len(cols) >= 2:
            # the same table once more with its columns in another order (a projection keeps the order it is given)
            shift = 1 + ts[0] % (len(cols) - 1)
            order = cols[shift:] + cols[:shift]
            d2 = self._pure('d[%s] on %s' % (order, short(raw(ds[0]), 150)), ds[0].__getitem__, list(order))
            check(type(d2) is type(ds[0]), 'd[%s] returned %s', order, type(d2).__name__)
            ds = [ds[0], d2] + ds[1:]
            es = [es[0], es[0]] + es[1:]
        what = '%s of %s' % (form, short([raw(d) for d in ds], 250))
        if form == 'add':
            def f():
                res = ds[0]
                for x in ds[1:]:
                    res = res + x
                return res
            if len(ds) == 1:
                f = lambda: ds[0] + ds[0]
                es = [es[0], es[0]]
            res = self._pure(what, f)
        elif form == 'concat_args':
            res = self._pure(what, dictable.concat, *ds)
        elif form == 'concat_list':
            res = self._pure(what, dictable.concat, list(ds))
        elif form == 'sum_start':
            res = self._pure(what, lambda: sum(list(ds), dictable()))
        else:
            res = self._pure(what, lambda: sum(list(ds)))
        if len(es) >= 2:
            for e_ in es:
                self._falsy_table(e_['m'])
        if len(set(tuple(sorted(e['m'].cols)) for e in es)) > 1:
            self.flags.add('concat_diffcols')
        if len(set(id(x) for x in ds)) < len(ds) and len(ds[0]) > 0:
            self.flags.add('same_object_twice')
        orders = set(tuple(dict.keys(x)) for x in ds)
        if len(orders) > len(set(tuple(sorted(o)) for o in orders)):
            self.flags.add('concat_same_cols_different_order')
        self._add('concat', res, T.concat([e['m'] for e in es]), es, allow_alias=(len(es) == 1))

    def op_add_record(self, t, rec, rec2, src, i, form):
        from pyg_base import dictable, Dict
        self._begin('add_record')
        e = self._pick(t)
        if e is None:
            return self._skip()
        if e['m'].n + 2 > MAXROWS:
            return self._skip()
        d, m = e['d'], e['m']
        rd = short(raw(d), 150)
        operands = [e]
        r = {c: build(v) for c, v in rec}
        if form == 'row_of_self':
            form = 'row_of' if m.n > 0 else 'dict'
            if m.n > 0:
                s = e
                operands.append(s)
                r = dict(m.rows[i % m.n])
                self.flags.add('same_object_twice')
        elif form == 'row_of':
            s = self._pick(src, lambda e: e['m'].n > 0)
            if s is None:
                form = 'dict'
            else:
                operands.append(s)
                r = dict(s['m'].rows[i % s['m'].n])
        self._use('add_record', *operands)
        rm = T.from_records([r])       # a record without keys is the empty table
        if form == 'dict':
            res = self._pure('d + %s on %s' % (r, rd), lambda: d + dict(r))
        elif form == 'Dict':
            res = self._pure('d + Dict(%s) on %s' % (r, rd), lambda: d + Dict(r))
        elif form == 'row_of':
            sd, si = operands[1]['d'], i % operands[1]['m'].n
            res = self._pure('d + d2[%i] on %s and %s' % (si, rd, short(raw(sd), 120)), lambda: d + sd[si])
        elif form == 'concat':
            res = self._pure('dictable.concat(d, %s) on %s' % (r, rd), lambda: dictable.concat(d, dict(r)))
        elif form == 'records':
            r2 = {c: build(v) for c, v in rec2}
            rm = T.from_records([r, r2])
            self._records_classes([r, r2])
            res = self._pure('d + %s on %s' % ([r, r2], rd), lambda: d + [dict(r), dict(r2)])
        elif form == 'records_same':
            # ONE record object twice in the list
            rm = T.from_records([r, r])
            one = dict(r)
            res = self._pure('d + [r, r] with r = %s on %s' % (r, rd), lambda: d + [one, one])
            if r:
                self.flags.add('same_object_twice')
        else:
            # two records over the same keys, the second written in another key order, cells distinguishable per column
            keys = list(r)
            for c in NAMES:
                if len(keys) >= 2:
                    break
                if c not in keys:
                    keys.append(c)
            kind = ['int', 'str', 'float', 'dt', 'mixed'][i % 5]
            r = {c: build(_cv(c, 0, kind)) for c in keys}
            shift = 1 + (i // 5) % (len(keys) - 1)
            keys2 = keys[shift:] + keys[:shift]
            r2 = {c: build(_cv(c, 1, kind)) for c in keys2}
            self._records_classes([r, r2])
            if form == 'records_perm':
                rm = T.from_records([r, r2])
                res = self._pure('d + %s on %s' % ([r, r2], rd), lambda: d + [dict(r), dict(r2)])
            elif form == 'concat_perm':
                rm = T.concat([T.from_records([r]), T.from_records([r2])])
                res = self._pure('dictable.concat(d, %s, %s) on %s' % (r, r2, rd), lambda: dictable.concat(d, dict(r), dict(r2)))
            else:
                rm = T.concat([T.from_records([r]), T.from_records([r2])])
                res = self._pure('sum([d, dictable(%s), %s], dictable()) on %s' % (r, r2, rd), lambda: sum([d, dictable(dict(r)), dict(r2)], dictable()))
        if sorted(rm.cols) != sorted(m.cols):
            self.flags.add('concat_diffcols')
        self._add('add_record', res, T.concat([m, rm]), operands)

    # ------------------------------------------------------------------ augmented assignment
    def _augmented(self, op, e, what, f, newm, operands):
        """
        x = d; x <op>= y.  Without an in-place method python evaluates x = x <op> y: a new table, and the old object as well as every other
        live table stay as they were (the old object is kept in the pool so that the invariant keeps looking at it).  Should the
        statement hand back the very same object, that object now holds the result and every OTHER live table stays as it was.
        """
        d, m = e['d'], e['m']
        snap = self._snap()
        res = call(what, f)
        if res is d:
            self._unchanged(what, [(x, before) for x, before in snap if x['d'] is not d])
            m.cols, m.rows = list(newm.cols), [dict(r) for r in newm.rows]      # aliases share the model
            e['gen'] += 1
            self.flags.add('augmented_same_object')
            if m.n == 0:
                self.flags.add('empty')
        else:
            self._unchanged(what, snap)
            if e in self.pool:
                self.pool.remove(e)
                self.pool.append(e)       # the old object is not the one that gets evicted
            self._add(op, res, newm, operands)
            self.flags.add('augmented_new_object')

    def op_iadd_record(self, t, rec, rec2, src, i, form):
        from pyg_base import Dict
        self._begin('iadd_record')
        e = self._pick(t)
        if e is None or e['m'].n + 2 > MAXROWS:
            return self._skip()
        d, m = e['d'], e['m']
        rd = short(raw(d), 150)
        operands = [e]
        r = {c: build(v) for c, v in rec}
        if form == 'row_of':
            s = self._pick(src, lambda e: e['m'].n > 0)
            if s is None:
                form = 'dict'
            else:
                operands.append(s)
                r = dict(s['m'].rows[i % s['m'].n])
        self._use('iadd_record', *operands)
        if form in ('dict', 'row_of'):
            x, rm = dict(r), T.from_records([r])
        elif form == 'Dict':
            x, rm = Dict(r), T.from_records([r])
        else:
            if form == 'records':
                r2 = {c: build(v) for c, v in rec2}
            else:
                keys = list(r)
                for c in NAMES:
                    if len(keys) >= 2:
                        break
                    if c not in keys:
                        keys.append(c)
                kind = ['int', 'str', 'float', 'dt', 'mixed'][i % 5]
                r = {c: build(_cv(c, 0, kind)) for c in keys}
                shift = 1 + (i // 5) % (len(keys) - 1)
                r2 = {c: build(_cv(c, 1, kind)) for c in keys[shift:] + keys[:shift]}
            self._records_classes([r, r2])
            x, rm = [dict(r), dict(r2)], T.from_records([r, r2])
        if sorted(rm.cols) != sorted(m.cols):
            self.flags.add('concat_diffcols')
        self.flags.add('iadd')
        self._augmented('iadd_record', e, 'd += %s on %s' % (short(x, 120), rd), lambda: operator.iadd(d, x), T.concat([m, rm]), operands)

    def op_iadd_table(self, t, t2, same=False):
        self._begin('iadd_table')
        e, o = self._pick(t), self._pick(t2)
        if same:
            o = e
        if e is not None and o is e and e['m'].n > 0:
            self.flags.add('same_object_twice')
        if e is None or e['m'].n + o['m'].n > MAXROWS:
            return self._skip()
        self._use('iadd_table', e, o)
        self._falsy_table(o['m'])
        d, m, x = e['d'], e['m'], o['d']
        if sorted(o['m'].cols) != sorted(m.cols):
            self.flags.add('concat_diffcols')
        self.flags.add('iadd')
        self._augmented('iadd_table', e, 'd += %s on %s' % (short(raw(x), 120), short(raw(d), 150)), lambda: operator.iadd(d, x), T.concat([m, o['m']]), [e, o])

    def op_iadd_none(self, t, form):
        self._begin('iadd_none')
        e = self._pick(t)
        if e is None:
            return self._skip()
        self._use('iadd_none', e)
        d, m = e['d'], e['m']
        x = None if form == 'none' else 0
        self._augmented('iadd_none', e, 'd += %r on %s' % (x, short(raw(d), 150)), lambda: operator.iadd(d, x), m.copy(), [e])

    def op_iop_cols(self, t, cols, form):
        self._begin('iop_cols')
        e = self._pick(t, lambda e: e['m'].cols)
        if e is None:
            return self._skip()
        self._use('iop_cols', e)
        d, m = e['d'], e['m']
        rd = short(raw(d), 150)
        cs = self._cols_of(e, cols)
        if form in ('isub_str', 'iand_str'):
            cs = cs[:1]
            arg = cs[0]
        elif form == 'iand_extra':
            arg = [self._fresh(e, 3)] + cs
        else:
            arg = list(cs)
        if form.startswith('isub'):
            self._augmented('iop_cols', e, 'd -= %r on %s' % (arg, rd), lambda: operator.isub(d, arg), T([c for c in m.cols if c not in cs], m.rows), [e])
        else:
            self._augmented('iop_cols', e, 'd &= %r on %s' % (arg, rd), lambda: operator.iand(d, arg), T(cs, m.rows), [e])

    def op_ior(self, t, col, new, mode, vals, k, allow_raw=False):
        """d |= {col: values}: column assignment.  Only a list of fitting length is generated unless allow_raw (see the finding in ASSUMPTIONS)"""
        self._begin('ior')
        e = self._pick(t)
        if e is None:
            return self._skip()
        self._use('ior', e)
        d, m = e['d'], e['m']
        if not allow_raw:
            mode = 'fit'
        c = self._fresh(e, col) if (new or not m.cols) else m.cols[col % len(m.cols)]
        value, cells, fits = self._value(mode, vals, m.n, len(m.cols), k)
        self._value_flags(mode, m.n, len(m.cols), cells)
        what = 'd |= {%r: %s} on %s' % (c, short(value, 100), short(raw(d), 150))
        if fits:
            self._augmented('ior', e, what, lambda: operator.ior(d, {c: value}), self._assign_model(m, c, cells), [e])
        else:
            snap = self._snap()
            must_raise(what, ValueError, lambda: operator.ior(d, {c: value}))
            self._unchanged(what + ' (rejected)', snap)
            self.flags.add('misfit')

    def _falsy_table(self, xm):
        """an operand table that has columns but no rows: bool() of it is False although it is not nothing"""
        if xm.cols and xm.n == 0:
            self.flags.add('falsy_table_operand')
            return True
        return False

    def op_table_arg(self, t, t2, src, form, tgt, cols, overlap, vals, k):
        """
        another TABLE as the argument of d.update(x), d |= x (column assignment, one column of x after the other, each with the usual length rule), d | x and dictable(x, col = value)
        (construction from the columns of both, length-1 broadcast), d + x, x + d, concat, sum (rows appended).  The operand is a live table, the target itself, or - by construction - a table
        with columns and no rows: built empty, or what an all-False mask / an empty slice of a live table hands back.
        """
        from pyg_base import dictable
        self._begin('table_arg')
        pred = {'rows': lambda e: e['m'].n > 0, 'no_rows': lambda e: e['m'].cols and e['m'].n == 0, 'no_cols': lambda e: not e['m'].cols}.get(tgt)
        e = self._pick(t, pred) if pred else self._pick(t)
        if e is None and tgt in ('no_rows', 'no_cols') and self.pool:
            # no such target among the live tables: a new one joins them
            tcols = [] if tgt == 'no_cols' else [NAMES[(k + j) % len(NAMES)] for j in range(1 + k % 2)]
            what = 'dictable([], %s)' % tcols if tcols else 'dictable()'
            self._add('table_arg', self._pure(what, (lambda: dictable([], list(tcols))) if tcols else dictable), T(tcols, []))
            self.check()
            e = self.pool[-1]
        e = e or self._pick(t)
        if e is None:
            return self._skip()
        d, m = e['d'], e['m']
        operands = [e]
        # ---- the operand table x with its model xm
        o = None
        if src in ('mask', 'slice'):
            o = self._pick(t2, lambda e: e['m'].cols)
            if o is None:
                src = 'no_rows'
        if src == 'self':
            x, xm = d, m
        elif src == 'pool':
            o = self._pick(t2)
            x, xm = o['d'], o['m']
            operands.append(o)
        elif src == 'no_rows':
            names = list(cols)
            if overlap and m.cols:
                names[k % len(names)] = m.cols[k % len(m.cols)]         # one of the operand's columns is a column of the target
                names = list(dict.fromkeys(names))
            xm = T(names, [])
            if k % 2:
                what = 'dictable([], %s)' % names
                x = self._pure(what, dictable, [], list(names))
            else:
                what = 'dictable(**%s)' % {c: [] for c in names}
                x = self._pure(what, lambda: dictable(**{c: [] for c in names}))
            self._verify(what, x, xm)
        else:
            od, om = o['d'], o['m']
            operands.append(o)
            xm = T(om.cols, [])
            if src == 'mask' and om.n > 0:
                what = 'd[%s] on %s' % ([False] * om.n, short(raw(od), 150))
                x = self._pure(what, od.__getitem__, [False] * om.n)
            else:
                what = 'd[%i:%i] on %s' % (om.n, om.n, short(raw(od), 150))
                x = self._pure(what, od.__getitem__, slice(om.n, om.n))
            self._verify(what, x, xm)
        self._use('table_arg', *operands)
        same = x is d
        if same:
            xm = m
            if m.n > 0:
                self.flags.add('same_object_twice')
        falsy = self._falsy_table(xm)
        xcols = [c for c in dict.keys(x)]           # the order in which the operand presents its columns
        xcells = {c: list(xm.col(c)) for c in xm.cols}
        xbefore = {c: list(v) for c, v in raw(x).items()}
        rd, rx = short(raw(d), 150), short(raw(x), 120)
        tkind = 'rows' if m.n > 0 else ('no_rows' if m.cols else 'no_columns')

        def x_unchanged(what):
            after = raw(x)
            check(set(after) == set(xbefore) and all(isinstance(after[c], list) and same_list(after[c], xbefore[c]) for c in xbefore),
                  '%s altered its operand table: was %s, now %s', what, xbefore, after)

        self.flags.add('table_operand')
        if form in ('update', 'ior'):
            # column assignment, one column after the other: a column fits when the table has no columns yet, or it is as long as the table, or it holds one cell
            what = ('d.update(x)' if form == 'update' else 'd |= x') + ' with x = %s on %s' % (rx, rd)
            fits = same or not xm.cols or not m.cols or xm.n == m.n or xm.n == 1
            self.flags.add('update_with_table')
            if fits:
                newm = m.copy()
                for c in xcols:
                    newm = self._assign_model(newm, c, list(xcells[c]))
                added = [c for c in xm.cols if c not in m.cols]
                if xm.n == 1 and m.cols and m.n != 1 and not same:
                    self.flags.add('broadcast')
                if form == 'update':
                    snap = self._snap(skip=d)
                    call(what, d.update, x)
                    self._unchanged(what, snap)
                    m.cols, m.rows = list(newm.cols), [dict(r) for r in newm.rows]
                    e['gen'] += 1
                    if m.n == 0:
                        self.flags.add('empty')
                else:
                    self._augmented('table_arg', e, what, lambda: operator.ior(d, x), newm, operands)
                if not same:
                    x_unchanged(what)
                if falsy:
                    self.flags.add('falsy_table_update')
                    if added:
                        self.flags.add('falsy_table_update_adds_columns_to_' + tkind)
            else:
                snap = self._snap()
                must_raise(what, ValueError, (lambda: d.update(x)) if form == 'update' else (lambda: operator.ior(d, x)))
                self._unchanged(what + ' (rejected)', snap)
                x_unchanged(what + ' (rejected)')
                self.flags.add('misfit')
                if falsy:
                    self.flags.add('falsy_table_update')
                    self.flags.add('falsy_table_update_rejected')
            return
        if falsy:
            self.flags.add('falsy_table_operand_of_a_new_table')
        if form in ('or', 'ctor_kw'):
            # construction from columns: cells of one length, columns holding one cell are broadcast; two different lengths (neither 1) may raise ValueError (see ASSUMPTIONS)
            if form == 'or':
                what = 'd | x with x = %s on %s' % (rx, rd)
                columns = [(c, list(m.col(c))) for c in m.cols if c not in xm.cols] + [(c, xcells[c]) for c in xm.cols]
                f = lambda: d | x
            else:
                c = self._fresh(dict(m=xm), k)
                mode = ['scalar', 'len1', 'fit'][k % 3]
                cells = [build(v) for v in vals]
                if mode == 'fit':
                    cells = [cells[i % len(cells)] for i in range(xm.n if xm.cols else 1 + k % 4)]
                    value = list(cells)
                else:
                    cells = cells[:1]
                    value = cells[0] if mode == 'scalar' else list(cells)
                what = 'dictable(x, %s = %s) with x = %s' % (c, short(value, 80), rx)
                columns = [(x_, xcells[x_]) for x_ in xm.cols] + [(c, cells)]
                f = lambda: dictable(x, **{c: value})
            lengths = sorted(set(len(v) for _, v in columns))
            many = [ln for ln in lengths if ln != 1]
            if len(many) > 1:
                snap = self._snap()
                ok, res = call_or(what, (ValueError,), f)
                self._unchanged(what, snap)
                x_unchanged(what)
                if ok:
                    check(isinstance(res, dictable), '%s returned %s, not a dictable', what, type(res).__name__)
                    lens = sorted(set(len(v) if isinstance(v, list) else -1 for v in raw(res).values()))
                    check(len(lens) <= 1, '%s returned a table whose columns have lengths %s', what, lens)
                self.flags.add('ctor_misfit')
                return
            n = many[0] if many else (1 if columns else 0)
            newm = T.from_columns([(c_, v if len(v) == n else v * n) for c_, v in columns])
            if len(lengths) > 1:
                # a one-row side broadcast over the rows of the other: what the docstring of | shows; a refusal (ValueError) is accepted as well, a table that differs from the model is not
                self.flags.add('broadcast')
                snap = self._snap()
                ok, res = call_or(what, (ValueError,), f)
                self._unchanged(what, snap)
                x_unchanged(what)
                if not ok:
                    return
            else:
                res = self._pure(what, f)
                x_unchanged(what)
            self._add('table_arg', res, newm, operands)
            return
        # ---- rows appended
        if m.n + xm.n > MAXROWS:
            return self._skip()
        if sorted(xm.cols) != sorted(m.cols):
            self.flags.add('concat_diffcols')
        if form == 'add':
            what, f, parts = 'd + x', (lambda: d + x), [m, xm]
        elif form == 'radd':
            what, f, parts = 'x + d', (lambda: x + d), [xm, m]
        elif form == 'concat':
            what, f, parts = 'dictable.concat(d, x)', (lambda: dictable.concat(d, x)), [m, xm]
        else:
            what, f, parts = 'sum([x, d], dictable())', (lambda: sum([x, d], dictable())), [xm, m]
        what = '%s with x = %s on %s' % (what, rx, rd)
        res = self._pure(what, f)
        x_unchanged(what)
        self._add('table_arg', res, T.concat(parts), operands)

    def op_reselect(self, t, idx, col, how, idx2, form):
        """integer-list selection, deletion of a column that is not the last one, integer-list selection again - all on one table"""
        self._begin('reselect')
        e = self._pick(t, lambda e: len(e['m'].cols) >= 2 and e['m'].n > 0) or self._pick(t, lambda e: len(e['m'].cols) >= 2)
        if e is None:
            return self._skip()
        self._use('reselect', e)
        self._take(e, idx, form, op='reselect')
        self.check()
        keys = list(dict.keys(e['d']))
        self._delcol(e, keys[col % (len(keys) - 1)], how)
        self.check()
        self._take(e, idx2, form, op='reselect')

    def op_add_none(self, t, form):
        self._begin('add_none')
        e = self._pick(t)
        if e is None:
            return self._skip()
        self._use('add_none', e)
        d, m = e['d'], e['m']
        rd = short(raw(d), 150)
        if form == 'none':
            res = self._pure('d + None on %s' % rd, lambda: d + None)
        elif form == 'zero':
            res = self._pure('d + 0 on %s' % rd, lambda: d + 0)
        elif form == 'zero_float':
            res = self._pure('d + 0.0 on %s' % rd, lambda: d + 0.0)
        elif form == 'rnone':
            res = self._pure('None + d on %s' % rd, lambda: None + d)
        else:
            res = self._pure('0 + d on %s' % rd, lambda: 0 + d)
        self._add('add_none', res, m.copy(), [e], allow_alias=True)

    def op_copy(self, t, form):
        from pyg_base import dictable
        self._begin('copy')
        e = self._pick(t)
        if e is None:
            return self._skip()
        self._use('copy', e)
        d, m = e['d'], e['m']
        rd = short(raw(d), 150)
        if form == 'copy':
            res = self._pure('d.copy() on %s' % rd, d.copy)
        elif form == 'inc':
            res = self._pure('d.inc() on %s' % rd, d.inc)
        elif form == 'exc':
            res = self._pure('d.exc() on %s' % rd, d.exc)
        elif form == 'ctor':
            res = self._pure('dictable(d) on %s' % rd, dictable, d)
            self._falsy_table(m)
        elif form == 'full_slice':
            res = self._pure('d[:] on %s' % rd, d.__getitem__, slice(None))
        else:
            res = self._pure('copy.copy(d) on %s' % rd, _copy.copy, d)
        self._add('copy', res, m.copy(), [e])

    # ------------------------------------------------------------------ rows selected by predicates; d.get
    def op_filter_fn(self, t, fn, fn_b, cols, cols_b, shape, k, col, pick, form):
        """inc / exc with predicate functions (judged by truthiness), alone, several at once, and together with a value condition"""
        self._begin('filter_fn')
        e = self._pick(t, lambda e: e['m'].cols)
        if e is None:
            return self._skip()
        self._use('filter_fn', e)
        d, m = e['d'], e['m']
        rd = short(raw(d), 150)
        names = self._cols_of(e, cols)
        f, names, ref = self._fn(('pred', shape, tuple(names), fn, m.n, tuple(m.cols), k), lambda: _shaped(names, FN[fn], shape, m.n, m.cols, k))
        names_b = self._cols_of(e, cols_b)
        g, names_b, ref_b = self._fn(('pred', 'plain', tuple(names_b), fn_b, m.n, tuple(m.cols), k), lambda: _shaped(names_b, FN[fn_b], 'plain'))
        if shape != 'plain':
            self.flags.add('fn_shape')
            self.flags.add('fn_shape=' + shape)
        yes = [bool(ref(r)) for r in m.rows]
        yes_b = [bool(ref_b(r)) for r in m.rows]
        c = m.cols[col % len(m.cols)]
        column = m.col(c)
        v = column[pick % len(column)] if column else 0
        cond = [_cond(r[c], v) for r in m.rows]
        sig = 'lambda %s(%s): %s' % (shape, ', '.join(names), fn)
        sig_b = 'lambda %s: %s' % (', '.join(names_b), fn_b)
        if form in ('inc_fn_value', 'inc_dict_fn') and not any(yes) and not INCLUDE_FN_THEN_VALUE_EMPTY:
            form = 'inc'            # the predicate keeps no row and a value condition follows: KeyError in pyg-base (finding), generated on request only
        if form == 'inc':
            res = self._pure('d.inc(%s) on %s' % (sig, rd), d.inc, f)
            keep = yes
        elif form == 'exc':
            res = self._pure('d.exc(%s) on %s' % (sig, rd), d.exc, f)
            keep = [not a for a in yes]
        elif form == 'inc_two':
            res = self._pure('d.inc(%s, %s) on %s' % (sig, sig_b, rd), d.inc, f, g)
            keep = [a and b for a, b in zip(yes, yes_b)]
        elif form == 'inc_list':
            res = self._pure('d.inc([%s, %s]) on %s' % (sig, sig_b, rd), d.inc, [f, g])
            keep = [a and b for a, b in zip(yes, yes_b)]
        elif form == 'exc_two':
            res = self._pure('d.exc(%s, %s) on %s' % (sig, sig_b, rd), d.exc, f, g)
            keep = [not a and not b for a, b in zip(yes, yes_b)]
        elif form == 'inc_fn_value':
            res = self._pure('d.inc(%s, %s = %r) on %s' % (sig, c, v, rd), lambda: d.inc(f, **{c: v}))
            keep = [a and b for a, b in zip(yes, cond)]
            self.flags.add('fn_then_value')
            if not any(yes):
                self.flags.add('fn_then_value_empty')
        elif form == 'inc_dict_fn':
            res = self._pure('d.inc({%r: %r}, %s) on %s' % (c, v, sig, rd), lambda: d.inc({c: v}, f))
            keep = [a and b for a, b in zip(yes, cond)]
            self.flags.add('fn_then_value')
            if not any(yes):
                self.flags.add('fn_then_value_empty')
        else:
            res = self._pure('d.exc(%s, %s = %r) on %s' % (sig, c, v, rd), lambda: d.exc(f, **{c: v}))
            keep = [not a and not b for a, b in zip(yes, cond)]
            self.flags.add('fn_then_value')
        newm = T(m.cols, [r for r, b in zip(m.rows, keep) if b])
        if m.n > 0 and newm.n == 0:
            self.flags.add('mask_to_empty')
        self.flags.add('fn_filter')
        self._add('filter_fn', res, newm, [e])

    def op_get(self, t, col, missing, v, form):
        """d.get(column) is the column; d.get(absent, default) is the default once per row (None without a default)"""
        self._begin('get')
        e = self._pick(t)
        if e is None:
            return self._skip()
        self._use('get', e)
        d, m = e['d'], e['m']
        rd = short(raw(d), 150)
        v = build(v)
        if missing or not m.cols:
            c = self._fresh(e, col)
            exp = [v if form != 'get' else None] * m.n
        else:
            c = m.cols[col % len(m.cols)]
            exp = m.col(c)
        if form == 'get_explicit_none':
            # the default of the parameter written out
            v = None
            if missing or not m.cols:
                exp = [None] * m.n
            res = self._pure('d.get(%r, None) on %s' % (c, rd), d.get, c, None) if col % 2 else self._pure('d.get(%r, default = None) on %s' % (c, rd), lambda: d.get(c, default=None))
            self.flags.add('explicit_default')
        elif form == 'get':
            res = self._pure('d.get(%r) on %s' % (c, rd), d.get, c)
        elif form == 'get_default':
            res = self._pure('d.get(%r, %r) on %s' % (c, v, rd), d.get, c, v)
        else:
            res = self._pure('d.get(%r, default = %r) on %s' % (c, v, rd), lambda: d.get(c, default=v))
        check(isinstance(res, list) and same_list(res, exp), 'd.get(%r%s) = %s on %s, the model says %s', c, '' if form == 'get' else ', %r' % (v,), res, rd, exp)
        if form != 'get' and (missing or not m.cols) and m.n > 0:
            self.flags.add('optional_params')
            if _falsy(v):
                self.flags.add('falsy_value')

    # ------------------------------------------------------------------ read, change in place, read again
    def _read(self, e, read, a, force=None):
        """one reading / deriving call on the table of e, judged by its model; -> the columns the call named"""
        d, m = e['d'], e['m']
        rd = short(raw(d), 150)
        n = m.n
        cs = list(force) if force and all(c in m.cols for c in force) else self._cols_of(e, a['cols'])
        c = cs[0]
        if read == 'take':
            idx = [(i % n) if i >= 0 else -((-i - 1) % n) - 1 for i in a['idx']] if n else []
            res = self._pure('d[%s] on %s' % (idx, rd), d.__getitem__, list(idx))
            self._verify('d[%s] on %s' % (idx, rd), res, T(m.cols, [m.rows[i] for i in idx]))
            return []
        if read == 'mask':
            bits = [bool((a['bits'] >> (i % MAXROWS)) & 1) for i in range(n)]
            res = self._pure('d[%s] on %s' % (bits, rd), d.__getitem__, list(bits))
            self._verify('d[%s] on %s' % (bits, rd), res, T(m.cols, [r for r, b in zip(m.rows, bits) if b]))
            return []
        if read == 'slice':
            sl = slice(None, None, -1) if a['k'] % 2 else slice(1, None, 2)
            res = self._pure('d[%s] on %s' % (sl, rd), d.__getitem__, sl)
            self._verify('d[%s] on %s' % (sl, rd), res, T(m.cols, m.rows[sl]))
            return []
        if read == 'project':
            res = self._pure('d[%s] on %s' % (cs, rd), d.__getitem__, list(cs))
            self._verify('d[%s] on %s' % (cs, rd), res, T(cs, m.rows))
            return cs
        if read == 'tuple':
            res = self._pure('d[%s] on %s' % (tuple(cs), rd), d.__getitem__, tuple(cs))
            exp = [tuple(r[x] for x in cs) for r in m.rows]
            check(isinstance(res, list) and len(res) == len(exp) and all(isinstance(x, tuple) and same_list(list(x), list(y)) for x, y in zip(res, exp)),
                  'd[%s] = %s on %s, the model says %s', tuple(cs), res, rd, exp)
            return cs
        if read in ('inc', 'exc'):
            column = m.col(c)
            v = column[a['pick'] % n] if n else 0
            keep = [_cond(r[c], v) == (read == 'inc') for r in m.rows]
            res = self._pure('d.%s(%s = %r) on %s' % (read, c, v, rd), lambda: getattr(d, read)(**{c: v}))
            self._verify('d.%s(%s = %r) on %s' % (read, c, v, rd), res, T(m.cols, [r for r, b in zip(m.rows, keep) if b]))
            return [c]
        if read in ('fn', 'call', 'apply'):
            names = cs[:2]
            f, names, ref = self._fn(('reread', tuple(names), a['fn']), lambda: _shaped(names, FN[a['fn']], 'plain'))
            column = [ref(r) for r in m.rows]
            if read == 'call':
                tgt = self._fresh(e, a['col'])
                res = self._pure('d(%s = lambda %s: %s) on %s' % (tgt, ', '.join(names), a['fn'], rd), lambda: d(**{tgt: f}))
                self._verify('d(%s = lambda %s: %s) on %s' % (tgt, ', '.join(names), a['fn'], rd), res, self._assign_model(m, tgt, column))
            else:
                res = self._pure('d[lambda %s: %s] on %s' % (', '.join(names), a['fn'], rd), (d.__getitem__ if read == 'fn' else d.apply), f)
                check(isinstance(res, list) and same_list(res, column), 'd[lambda %s: %s] = %s on %s, the model says %s', ', '.join(names), a['fn'], res, rd, column)
            return names
        if read == 'do':
            f1 = F1[a['fn1']]
            fv = self._fn(('reread_do', a['fn1']), lambda: (lambda value: f1(value)))
            res = self._pure('d.do(%s, *%s) on %s' % (a['fn1'], cs, rd), d.do, fv, *cs)
            self._verify('d.do(%s, *%s) on %s' % (a['fn1'], cs, rd), res, T(m.cols, [{x: (f1(v) if x in cs else v) for x, v in r.items()} for r in m.rows]))
            return cs
        if read == 'rename':
            new = self._fresh(e, a['col'])
            res = self._pure('d.rename(%s = %r) on %s' % (c, new, rd), lambda: d.rename(**{c: new}))
            self._verify('d.rename(%s = %r) on %s' % (c, new, rd), res, T([new if x == c else x for x in m.cols], [{(new if x == c else x): v for x, v in r.items()} for r in m.rows]))
            return [c]
        if read == 'minus':
            res = self._pure('d - %r on %s' % (c, rd), lambda: d - c)
            self._verify('d - %r on %s' % (c, rd), res, T([x for x in m.cols if x != c], m.rows))
            return [c]
        if read == 'self_add' and 2 * n <= MAXROWS:
            res = self._pure('d + d on %s' % rd, lambda: d + d)
            self._verify('d + d on %s' % rd, res, T.concat([m, m]))
            if n:
                self.flags.add('same_object_twice')
            return []
        r = {x: m.rows[a['pick'] % n][x] if n else a['k'] for x in cs}
        res = self._pure('d + %s on %s' % (r, rd), lambda: d + dict(r))
        self._verify('d + %s on %s' % (r, rd), res, T.concat([m, T.from_records([r])]))
        return cs

    def op_reread(self, t, read, upd, idx, cols, bits, col, pick, fn, fn1, vals, k):
        """a read, an in-place change of the SAME table, the same read again (whatever the table remembers of the first read must not outlive the change)"""
        self._begin('reread')
        e = self._pick(t, lambda e: e['m'].cols and e['m'].n > 0) or self._pick(t, lambda e: e['m'].cols)
        if e is None:
            return self._skip()
        self._use('reread', e)
        a = dict(idx=idx, cols=cols, bits=bits, col=col, pick=pick, fn=fn, fn1=fn1, k=k)
        used = self._read(e, read, a)
        self.check()
        d, m = e['d'], e['m']
        free = [c for c in m.cols if c not in used]
        if upd in ('delcol', 'delattr') and not (free and len(m.cols) >= 2):
            upd = 'set_existing'
        if upd == 'cell' and m.n == 0:
            upd = 'set_existing'
        if upd in ('delcol', 'delattr'):
            self._delcol(e, free[col % len(free)], 'item' if upd == 'delcol' else 'attr')
        elif upd == 'cell':
            if k % 2 == 0:
                # by construction another live table holds the very column lists (a copy shares them today): keeps the rate of cell_edit_seen_by_tables_sharing_the_list, which every rule added to the machine dilutes
                self.pool.remove(e)
                self.pool.append(e)
                self._add('reread', self._pure('d.copy() on %s' % short(raw(d), 150), d.copy), m.copy(), [e])
                self.check()
            self._cell_edit(e, (used or m.cols)[col % len(used or m.cols)], pick % m.n, build(vals[k % len(vals)]), k)
        else:
            if upd == 'set_new':
                c = self._fresh(e, col)
            else:
                pool = used or m.cols            # change a column the read looked at
                c = pool[col % len(pool)]
            cells = [build(v) for v in vals]
            value = [cells[(i + k) % len(cells)] for i in range(m.n)]
            what = {'attr': 'd.%s = %s', 'update': 'd.update({%r: %s})'}.get(upd, 'd[%r] = %s') % (c, short(value, 100)) + ' on %s' % short(raw(d), 150)
            snap = self._snap(skip=d)
            if upd == 'attr':
                call(what, setattr, d, c, value)
            elif upd == 'update':
                call(what, d.update, {c: value})
            else:
                call(what, d.__setitem__, c, value)
            self._unchanged(what, snap)
            newm = self._assign_model(m, c, list(value))
            m.cols, m.rows = newm.cols, newm.rows
            e['gen'] += 1
        self.check()
        self._read(e, read, a, force=used)
        self.flags.add('read_update_read')

    def _cell_edit(self, e, c, i, v, k):
        """
        the caller takes the column the table hands out (d[c], d.c, d.get(c)) and writes ONE cell into that list.  When the list is the table's own column
        (it is today) the table has changed: row i now holds v in column c - and so has every other column of a live table that is this very list object
        (a copy shares its column lists with the original; one list can be two columns).  Nothing else changes.  Were a copy handed out, nothing changes at all.
        """
        d = e['d']
        how = ['d[%r]', 'd.%s', 'd.get(%r)'][k % 3] % c
        what = '%s[%i] = %r on %s' % (how, i, v, short(raw(d), 150))
        lst = call(how, [lambda: d[c], lambda: getattr(d, c), lambda: d.get(c)][k % 3])
        check(isinstance(lst, list) and len(lst) == e['m'].n, '%s = %s: not the column', how, lst)
        holders = []            # (model, column) of every live column that IS this list
        snap = []
        for x in self.pool:
            store = raw(x['d'])
            for c2, col in store.items():
                if col is lst:
                    if not any(mm is x['m'] and cc == c2 for mm, cc in holders):
                        holders.append((x['m'], c2))
            snap.append((x, {c2: list(col) for c2, col in store.items() if col is not lst}))
        lst[i] = v
        for x, before in snap:
            after = raw(x['d'])
            ok = all(c2 in after and (after[c2] is lst or same_list(after[c2], before[c2])) for c2 in before) and all(c2 in before or after[c2] is lst for c2 in after)
            check(ok, '%s altered a column that is not the list written to: was %s, now %s', what, before, after)
        for mm, c2 in holders:
            mm.rows[i][c2] = v
        if any(mm is e['m'] for mm, _ in holders):
            self.flags.add('cell_edit_through_column')
            e['gen'] += 1
        if len(set(id(mm) for mm, _ in holders)) >= 2:
            self.flags.add('cell_edit_seen_by_tables_sharing_the_list')

    # ------------------------------------------------------------------ one argument container, several calls
    def op_shared_arg(self, t, t2, form, cols, names, rec, rec2, vals, vals2, k, col, pick, fn1):
        """the caller keeps ONE dict / list and hands it to several calls (first next to extra keywords, then alone): no call may write into it, every call is judged by its original content"""
        from pyg_base import dictable
        self._begin('shared_arg')
        e = self._pick(t, lambda e: e['m'].cols) if form in ('inc_dict', 'exc_dict', 'rename_dict', 'cols_list') else self._pick(t)
        if form == 'ctor_dict' or e is None:
            # A = {column: list}; dictable(A, extra = ..) then dictable(A)
            n = 1 + k % 4
            A = {c: [build(_cv(c, i, 'mixed')) for i in range(n)] for c in names}
            extra = {self._fresh(dict(m=T(names, [])), k): build(vals[0]), self._fresh(dict(m=T(names, [])), k + 1, avoid=[self._fresh(dict(m=T(names, [])), k)]): [build(vals2[i % len(vals2)]) for i in range(n)]}
            before = _freeze(A)
            what = 'dictable(A, **%s) with A = %s' % (short(extra, 100), short(A, 150))
            r1 = self._pure(what, lambda: dictable(A, **extra))
            self._unfrozen(what, A, before)
            cells = {x: (y if isinstance(y, list) else [y] * n) for x, y in extra.items()}
            self._verify(what, r1, T.from_columns([(c, list(A[c])) for c in A] + [(x, cells[x]) for x in cells]))
            what = 'dictable(A) after dictable(A, **%s) with A = %s' % (short(extra, 100), short(A, 150))
            r2 = self._pure(what, dictable, A)
            self._unfrozen(what, A, before)
            m2 = T.from_columns([(c, list(A[c])) for c in A])
            self._verify(what, r2, m2)
            self._add('shared_arg', r2, m2)
            self.flags.add('shared_arg_container')
            return
        self._use('shared_arg', e)
        d, m = e['d'], e['m']
        rd = short(raw(d), 150)
        operands = [e]
        if form in ('inc_dict', 'exc_dict'):
            c = m.cols[col % len(m.cols)]
            c2 = m.cols[(col + 1) % len(m.cols)]
            v = m.col(c)[pick % m.n] if m.n else 0
            v2 = m.col(c2)[(pick + k) % m.n] if m.n else 0
            F = {c: v}
            before = _freeze(F)
            extra = {c2: v2} if c2 != c else {}
            one = [_cond(r[c], v) for r in m.rows]
            both = [a and _cond(r[c2], v2) for a, r in zip(one, m.rows)] if extra else one
            meth = form[:3]
            for kw, hold in ((extra, both), ({}, one)):
                what = 'd.%s(F, **%s) with F = %s on %s' % (meth, kw, F, rd)
                res = self._pure(what, lambda: getattr(d, meth)(F, **kw))
                self._unfrozen(what, F, before)
                keep = hold if meth == 'inc' else [not b for b in hold]
                newm = T(m.cols, [r for r, b in zip(m.rows, keep) if b])
                self._verify(what, res, newm)
        elif form == 'rename_dict':
            c = m.cols[col % len(m.cols)]
            c2 = m.cols[(col + 1) % len(m.cols)]
            new = self._fresh(e, k)
            new2 = self._fresh(e, k + 1, avoid=[new])
            M = {c: new}
            before = _freeze(M)
            extra = {c2: new2} if c2 != c else {}
            for kw in (extra, {}):
                mp = dict(M, **kw)
                what = 'd.rename(M, **%s) with M = %s on %s' % (kw, M, rd)
                res = self._pure(what, lambda: d.rename(M, **kw))
                self._unfrozen(what, M, before)
                newm = T([mp.get(x, x) for x in m.cols], [{mp.get(x, x): y for x, y in r.items()} for r in m.rows])
                self._verify(what, res, newm)
        elif form == 'records':
            if m.n + 2 > MAXROWS:
                return self._skip()
            R = [{c: build(v) for c, v in rec}, {c: build(v) for c, v in rec2}]
            before = _freeze(R)
            rm = T.from_records(R)
            what = 'd + R with R = %s on %s' % (short(R, 120), rd)
            res = self._pure(what, lambda: d + R)
            self._unfrozen(what, R, before)
            newm = T.concat([m, rm])
            self._verify(what, res, newm)
            o = self._pick(t2)
            if o['m'].n + 2 <= MAXROWS:
                what = 'd2 + R after d + R with R = %s on %s' % (short(R, 120), short(raw(o['d']), 150))
                res2 = self._pure(what, lambda: o['d'] + R)
                self._unfrozen(what, R, before)
                self._verify(what, res2, T.concat([o['m'], rm]))
            what = 'dictable(R) after d + R with R = %s' % short(R, 120)
            res3 = self._pure(what, dictable, R)
            self._unfrozen(what, R, before)
            self._verify(what, res3, rm)
        elif form == 'cols_list':
            L = self._cols_of(e, cols)
            before = _freeze(L)
            f1 = F1[fn1]
            calls = [('d[L]', lambda: d[L], T(L, m.rows)),
                     ('d - L', lambda: d - L, T([c for c in m.cols if c not in L], m.rows)),
                     ('d & L', lambda: d & L, T(L, m.rows)),
                     ('d.do(%s, L)' % fn1, lambda: d.do(lambda value: f1(value), L), T(m.cols, [{x: (f1(y) if x in L else y) for x, y in r.items()} for r in m.rows])),
                     ('d[L] again', lambda: d[L], T(L, m.rows))]
            for j in range(len(calls)):
                name, f, newm = calls[(j + k) % len(calls)]
                what = '%s with L = %s on %s' % (name, L, rd)
                res = self._pure(what, f)
                self._unfrozen(what, L, before)
                self._verify(what, res, newm)
        else:
            # in place: the table takes the caller's list; later changes of the table never write into it
            c = self._fresh(e, col) if (k % 2 or not m.cols) else m.cols[col % len(m.cols)]
            n = m.n if m.cols else 1 + k % 4
            V = [build(vals[i % len(vals)]) for i in range(n)]
            W = [build(vals2[(i + 1) % len(vals2)]) for i in range(n)]
            if k % 3 == 0 and m.cols:
                V = V[:1] or [build(vals[0])]       # the caller's list holds ONE cell (broadcast over the rows): it must still hold one cell afterwards
                self.flags.add('broadcast')
            original = list(V)
            c2 = self._fresh(e, col + 1, avoid=[c])
            if form == 'update_dict':
                U = {c: V}
                before = _freeze(U)
                steps = [('d.update(U)', lambda: d.update(U), c, V), ('d.update(U) again', lambda: d.update(U), c, V), ('d[%r] = %s' % (c, short(W, 80)), lambda: d.__setitem__(c, W), c, W)]
            else:
                U = V
                before = _freeze(U)
                steps = [('d[%r] = V' % c, lambda: d.__setitem__(c, V), c, V), ('d[%r] = V' % c2, lambda: d.__setitem__(c2, V), c2, V), ('d[%r] = %s' % (c, short(W, 80)), lambda: d.__setitem__(c, W), c, W)]
                self.flags.add('shared_column_list')
            for name, f, tgt, cells in steps:
                what = '%s with V = %s on %s' % (name, short(original, 100), short(raw(d), 150))
                snap = self._snap(skip=d)
                call(what, f)
                self._unchanged(what, snap)
                self._unfrozen(what, U, before)
                newm = self._assign_model(m, tgt, list(cells))
                m.cols, m.rows = newm.cols, newm.rows
                self.check()
            e['gen'] += 1
            what = 'dictable(%s = V) after the table that held V was changed, V = %s' % (c, short(original, 100))
            res = self._pure(what, lambda: dictable({c: V}))
            self._unfrozen(what, U, before)
            self._verify(what, res, T.from_columns([(c, original)]))
        self.flags.add('shared_arg_container')

    # ------------------------------------------------------------------ invariant
    def check(self):
        self._table_classes()
        for j, e in enumerate(self.pool):
            d, m = e['d'], e['m']
            who = 'table %i (from %s)' % (j, e['src'])
            store = raw(d)
            check(all(isinstance(k, str) for k in store), '%s: column names %s are not all strings', who, list(store))
            check(all(isinstance(v, list) for v in store.values()), '%s: column store %s holds a non-list', who, store)
            lens = sorted(set(len(v) for v in store.values()))
            check(len(lens) <= 1, '%s is not rectangular: column store %s', who, store)
            n = lens[0] if lens else 0
            check(set(store) == set(m.cols), '%s has columns %s, the model has %s (store %s; model rows %s)', who, sorted(store), sorted(m.cols), store, m.rows)
            check(n == m.n, '%s has %s rows, the model has %s (store %s; model rows %s)', who, n, m.n, store, m.rows)
            for c in m.cols:
                check(same_list(store[c], m.col(c)), '%s: column %s is %s, the model says %s', who, c, store[c], m.col(c))
                # a cell the table computed itself (a NaN out of a user function) is another object than the one the model computed: from here on the model
                # holds the table's object, so that conditions that go by identity (python membership of a NaN in a list of values) are judged on the same objects
                for r, x in zip(m.rows, store[c]):
                    if r[c] is not x:
                        r[c] = x
            # public views
            ln = call('len(d) of %s' % who, len, d)
            check(ln == n, '%s: len() = %s but the columns have %s cells: %s', who, ln, n, store)
            shape = call('d.shape of %s' % who, lambda: d.shape)
            check(tuple(shape) == (n, len(m.cols)), '%s: shape = %s, the model says %s', who, shape, (n, len(m.cols)))
            keys = call('d.keys() of %s' % who, d.keys)
            check(sorted(keys) == sorted(m.cols), '%s: keys() = %s, the model says %s', who, list(keys), m.cols)
            columns = call('d.columns of %s' % who, lambda: d.columns)
            check(sorted(columns) == sorted(m.cols), '%s: columns = %s, the model says %s', who, list(columns), m.cols)
            asdict = call('dict(d) of %s' % who, dict, d)
            check(set(asdict) == set(m.cols) and all(same_list(asdict[c], m.col(c)) for c in m.cols), '%s: dict(d) = %s, the model says %s', who, asdict, m.rows)
            for c in m.cols:
                got = call('d[%r] of %s' % (c, who), d.__getitem__, c)
                check(isinstance(got, list) and same_list(got, m.col(c)), '%s: d[%r] = %s, the model says %s', who, c, got, m.col(c))
            rows = call('list(d) of %s' % who, list, d)
            check(len(rows) == m.n, '%s: iteration yields %s rows, the model has %s: %s', who, len(rows), m.n, rows)
            for i, (r, x) in enumerate(zip(rows, m.rows)):
                check(isinstance(r, dict) and set(dict.keys(r)) == set(x) and all(same(dict.__getitem__(r, c), x[c]) for c in x),
                      '%s: iteration row %s is %s, the model says %s', who, i, r, x)
            for i in range(n):
                for idx in (i, i - n):
                    r = call('d[%i] of %s' % (idx, who), d.__getitem__, idx)
                    check(isinstance(r, dict) and set(dict.keys(r)) == set(m.cols), '%s: d[%s] = %s, columns are %s', who, idx, r, m.cols)
                    for c in m.cols:
                        check(same(dict.__getitem__(r, c), store[c][idx]), '%s: d[%s][%r] = %s but d[%r][%s] = %s', who, idx, c, dict.__getitem__(r, c), c, idx, store[c][idx])

    def _table_classes(self):
        for e in self.pool:
            m = e['m']
            for c in m.cols:
                col = m.col(c)
                if any(_isnan(v) for v in col):
                    self.flags.add('nan_cells')
                if any(isinstance(v, _datetime.datetime) and v.tzinfo is not None for v in col):
                    self.flags.add('zone_aware_cells')
                    if e['gen'] >= 1 and e['src'] not in self._CTORS:
                        self.flags.add('zone_aware_cells_in_a_result')      # a table some operation made out of another holds them
                if len(col) >= 2 and all(_isnumber(v) for v in col):
                    ints = [v for v in col if _isint(v)]
                    floats = [v for v in col if not _isint(v)]
                    if ints and floats:
                        self.flags.add('numeric_only_column')       # numbers only, ints next to floats: what a vectorised path would turn into one float array
                        if any(abs(int(v)) > 2 ** 53 for v in ints):
                            self.flags.add('big_int_next_to_float')

    # ------------------------------------------------------------------ classification
    def info(self):
        key = self.flags & {'empty', 'broadcast', 'concat_diffcols', 'misfit'}
        nt = self.nops >= 3 and self.consumed and bool(key)
        cls = sorted(self.flags)
        cls.append('ops>=3' if self.nops >= 3 else 'ops<3')
        cls.append('distinct_ops>=8' if len(self.ops_used) >= 8 else 'distinct_ops<8')
        if self.consumed:
            cls.append('consumed')
        if self.skipped:
            cls.append('skipped_op')
        cls.extend('op=' + o for o in self.ops_used)
        return dict(nt=nt, cls=cls)


SUBS = [
    MachineSub('history', Tables, quick=(1600, 25), thorough=(4000, 50),
               rule='histories of <= 25 (thorough 50) public table operations over a pool of <= 3 live tables, each paired with a list-of-records model: '
                    'construction (records incl. ragged, {col: list}, keyword columns with scalar / length-1 broadcast, pairs, rows + headers, header row, zip, '
                    'six empty forms, misfit lengths), d[c] = / d.c = / update (fit, scalar, length 1, tuple, misfit -> ValueError), del d[c] / del d.c, d[i], d[-i], '
                    'slices, boolean masks (list / array, all False, all True), integer lists (negative, repeated, range, array), d[[cols]], d[c1, c2], d & cols, d - cols, '
                    'inc / exc by value, d[lambda], d(c = lambda) incl. dependent pairs, d(c = value), rename / relabel (kw, dict, prefix, suffix, function, list; several columns at once where a new name is the old name of another renamed column: swap, rotation of three, chain), '
                    'do (all, *cols, [cols], [], [f, g], function of another column), + / concat / sum of tables (also of one table and itself with its columns reordered), + record(s) '
                    '(records over one key set each written in its own key order, cells distinguishable per column; also ragged), + None / 0, copy / inc() / exc() / dictable(d) / d[:], the statements d += record(s) / table / None, d -= cols, d &= cols, d |= {col: fitting list} '
                    '(old object kept alive and re-inspected), integer-list selection / deletion of a non-last column / selection again on one table; '
                    'another TABLE as the argument of update / |= (column assignment column by column: fits, one-row broadcast, misfit -> ValueError and nothing changed), of | and dictable(x, col = value) (construction from the columns of both), '
                    'of + / concat / sum in both orders - the operand a live table, the target itself, or by construction a table with columns and no rows (built empty, an all-False mask or an empty slice of a live table: its truth value is False), '
                    'on targets with rows, with columns and no rows, and without columns; '
                    'a read (take, mask, projection, inc / exc, d[f], d(c = f), apply, do, slice, rename, d - c, d + d, d + record), an in-place change of the same table, the same read again with the same function objects; '
                    'one argument container (data dict, inc / exc / rename dict, list of records, list of column names, update dict, value list incl. a length-1 list) handed to several calls, first next to extra keywords, '
                    'judged by its original content and required to stay as it was; cells in several raw types for one value (python / numpy float64 / int64, datetime / Timestamp), conditions written in another raw type than the cells, '
                    'row indices / integer lists / masks of numpy and mixed element types; the same table or record object twice in one concatenation, d += d, one list object as two columns; numbers-only columns with ints beyond 2**53 next to floats, '
                    'NaN, -0.0; inc / exc by a NaN that is another object than the cells; headers / pairs / selections naming a column twice; user functions of the shapes f(a, **kw), f(a, *rest), f(p0, *rest), keyword-only, defaults that are columns, '
                    'container defaults as long as the table, f(**kw), f(*a, **kw), two functions out of one factory, one function object for two keys / two calls; inc / exc by predicates (one, several, with a value condition); '
                    'd.get(c, default), d.apply(f, **defaults); strings exactly as long as the table as one cell, range / dict_values as column values, value lists exactly as long as the table holding 0 / 1; do([f, g]) with f, g that do not commute. '
                    'Classes 21-29: zone-aware datetime / Timestamp cells of one zone (+05:30) carried through every operation with instant and offset intact; d[i] / d[[.., i, ..]] / d[array] / d[range] with i just outside [-len, len) '
                    'must be refused and change nothing; inc / exc by compiled patterns carrying re.I / re.X / re.M / re.S (and flag-less controls) judged by plain string operations; functools.partial with a keyword / a bound first argument as user function; '
                    'masks and integer arrays that are strided views of one buffer (a[:k] then a[::2][:k]); the defaults of dictable(data, columns) and get(default) written out; inc / exc by numbers within numpy.isclose of a cell without being equal; '
                    'a cell written through the column list the table hands out (d[c][i] = v) between two identical reads, followed into every live column that is that list object; 0 / 0.0 / \'\' / None as broadcast value, get default and filter value. '
                    'oracle after every step for every live table: rectangular column store, len, shape, keys, columns, dict(d), d[c], iteration, d[i][c] == d[c][i] '
                    '(also negative i) against the model; all live tables unchanged by every non-in-place call; misfit assignment raises ValueError and changes nothing. '
                    'non-trivial = >= 3 operations, a table produced by one rule consumed by another, and an empty table / broadcast / concatenation with differing columns / '
                    'misfit assignment occurs; distinct = distinct history',
               floor=0.5,
               class_floors={'rename_onto_the_old_name_of_another_renamed_column': 0.06, 'empty': 0.3, 'broadcast': 0.1, 'concat_diffcols': 0.15, 'misfit': 0.15, 'chain': 0.4, 'mask_to_empty': 0.05,
                             'records_same_keys_different_order': 0.1, 'concat_same_cols_different_order': 0.03,
                             'iadd': 0.15, 'take_delcol_take': 0.1,
                             # classes 11-20 of the brief (floors: about a third of the rate seen over seeds 1-3)
                             'read_update_read': 0.08, 'fn_object_reused': 0.05, 'shared_arg_container': 0.075, 'raw_types_same_value': 0.012, 'raw_index_types': 0.05,
                             'same_object_twice': 0.08, 'shared_column_list': 0.015, 'numeric_only_column': 0.08, 'big_int_next_to_float': 0.025, 'nan_cells': 0.15,
                             'duplicate_labels': 0.065, 'fn_shape': 0.13, 'fn_shape=kw': 0.03, 'fn_shape=rest': 0.03, 'fn_shape=p0_rest': 0.012, 'fn_shape=kwonly': 0.03,
                             'fn_shape=default_col': 0.028, 'fn_shape=default_absent': 0.028, 'fn_shape=allkw': 0.015, 'fn_shape=allargs': 0.02, 'fn_shape=other_name': 0.015,
                             'fn_factory_pair': 0.014, 'fn_filter': 0.08, 'fn_then_value': 0.025, 'optional_params': 0.04,
                             'filter_by_nan': 0.003, 'str_len_n_scalar': 0.022, 'range_value': 0.065, 'filter_list_len_n': 0.011, 'do_fns_order_matters': 0.007,
                             # classes 21-29 of the brief (floors: about a third of the rate seen over seeds 1-3)
                             'zone_aware_cells': 0.09, 'zone_aware_cells_in_a_result': 0.065, 'index_outside': 0.085, 'index_outside_nonempty': 0.065,
                             'regex_with_flags': 0.013, 'regex_flag_decides': 0.005, 'fn_shape=partial_kw': 0.024, 'fn_shape=partial_pos': 0.018,
                             'strided_views_of_one_buffer': 0.018, 'explicit_default': 0.088, 'near_miss_value': 0.005,
                             'cell_edit_through_column': 0.021, 'cell_edit_seen_by_tables_sharing_the_list': 0.003, 'falsy_value': 0.04,
                             # round 7: another table as the argument (floors: about a third of the rate seen over seeds 1-3)
                             'table_operand': 0.08, 'update_with_table': 0.045, 'falsy_table_operand': 0.11, 'falsy_table_operand_of_a_new_table': 0.04, 'falsy_table_update': 0.035,
                             'falsy_table_update_rejected': 0.015, 'falsy_table_update_adds_columns_to_no_rows': 0.006, 'falsy_table_update_adds_columns_to_no_columns': 0.01}),
]
