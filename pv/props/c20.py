# -*- coding: utf-8 -*-
"""
C20 - perdictable evaluates a function once per row of the keyed join of its inputs.

Oracle: key-set algebra written from the statement (plain dicts / sets / loops) plus a call counter inside f.
  K  = intersection of the key sets of the table inputs without a default
       (if there is no such input: union of the key sets of the table inputs with a default)
  row(k) = for every input: the scalar itself | the table's value at k | its default where it lacks k
  perdictable(f, on, defaults)(**inputs)  -> all scalars: f(...) itself
                                           -> otherwise one row per k in K, ascending by key, value f(**row(k)), f called once per row
  join(inputs, on, defaults = ...)         -> one row per k in K, ascending by key, holding row(k)
  data / expiry                            -> k in P with a past expiry keeps the supplied value and is absent from the call log,
                                              every other k of K is in the call log exactly once
"""
import json
from collections import Counter

from hypothesis import strategies as st

from pv.core import Sub, Violation, call, check, short
from pv.codec import build, Env, D0, token

ASSUMPTIONS = [
    'key cells: per key column one of five universes - ints, strings, datetimes, ints and strings mixed, or (None, NaN, 1, "a", 2.5, "b"); NaN keys of different tables are different objects and count as the same key '
    '(key matching as in C02); no int/float twins such as 1 and 1.0; keys are unique within each table (DESIGN G)',
    'every table input carries every column of `on` (1 or 2 key columns); tables keyed by a subset of `on` (cross join) are not claimed',
    'the value column of a table input is named after the input, or "data", or is the only non-key column (the three selections documented in join); an extra column ("junk"; or "data" next to a column named after the input, which then wins) only accompanies the first two',
    'input names (a, c, y, z), key names (k, j, m) and "junk"/"val_*" never collide with each other, with data/expiry, or with dictable attributes',
    'scalars, table values and defaults are None, ints, finite floats or strings (a callable default is a formula, lists/tuples would be spread over rows by dictable)',
    'defaults are passed explicitly (defaults = {...}); a function whose own keyword defaults act as join defaults is not used; if_none / output_is_input / include_inputs / col keep their default values',
    'f has one positional parameter per input and none called data or expiry',
    'for an empty key set only "None or a table without rows" is asserted (DESIGN section 3 rule 2)',
    'expiry sub-check: at least one table input has no default, so the key set is an intersection and is not widened by the (outer-joined) data / expiry tables',
    'expiry sub-check: expiries are assigned to previously computed keys only (quantifier); a key with a past expiry but no supplied value (pyg-base returns None for it without calling f) is not generated',
    'expiry sub-check: previously computed keys that are no longer in the join (stale) are supplied only when the join is non-empty: with an empty join perdictable hands back the supplied data table as it is',
    'expiries are datetime.datetime in 1970-2000 (past) or 2999-3000 (future), never today-relative; datetime.date expiries are not claimed (dt(0) is a datetime and cannot be compared with a date)',
    'order of key cells of different types, None and NaN is judged with pyg_base.cmp (verified by C07); cells of one type with native <',
]

NAMES = ['a', 'y', 'c', 'z']
KEYCOLS = ['k', 'j', 'm']
PAST = [['dt', 730120, 0], ['dt', 730119, 82800], ['dt', 719163, 0]]          # 2000-01-01, 1999-12-31 23:00, 1970-01-01
FUTURE = [['dt', 1095363, 0], ['dt', 1095163, 43200]]                          # 3000-01-01, 2999-06-15 12:00
_PAST_LIMIT = 730120 + 366

_val = st.one_of(st.none(), st.integers(0, 5), st.sampled_from([0.5, 2.0]), st.sampled_from(['u', 'uv', '']))
_old = st.one_of(st.sampled_from(['old', 'old2']), st.none(), st.integers(0, 5))


def _universe(kind, n):
    if kind == 'int':
        return list(range(n))
    if kind == 'str':
        return ['a', 'b', 'c', 'd', 'e', 'f'][:n]
    if kind == 'dt':
        return [['dt', D0 + i, 0] for i in range(n)]
    if kind == 'wide':
        return [None, ['nan', 0], 1, 'a', 2.5, 'b'][:n]
    ints = list(range(1, 1 + (n + 1) // 2))
    return ints + ['a', 'b', 'c'][:n - len(ints)]


def _kid(key):
    return json.dumps(key)


def _dedupe(keys):
    seen, out = set(), []
    for k in keys:
        if _kid(k) not in seen:
            seen.add(_kid(k))
            out.append(k)
    return out


# ----------------------------------------------------------------------------- the model (spec level: keys are identified by their spec)

def model_keys(spec):
    """ordered list of key specs of the expected result (order = first appearance, NOT sorted), or None when all inputs are scalars"""
    defaults = dict((n, v) for n, v in spec['defaults'])
    tables = [i for i in spec['inputs'] if i['kind'] == 'table']
    if not tables:
        return None
    nodef = [t for t in tables if t['name'] not in defaults]
    if nodef:
        keys = list(nodef[0]['keys'])
        for t in nodef[1:]:
            have = set(_kid(k) for k in t['keys'])
            keys = [k for k in keys if _kid(k) in have]
        return keys
    return _dedupe([k for t in tables for k in t['keys']])


def model_row(spec, key, built):
    """{input name: value} at `key`; built = {name: ('scalar', v) | ('table', {kid: v})}; returns (row, default_used)"""
    defaults = dict((n, v) for n, v in spec['defaults'])
    row, used = {}, False
    for i in spec['inputs']:
        kind, v = built[i['name']]
        if kind == 'scalar':
            row[i['name']] = v
        elif _kid(key) in v:
            row[i['name']] = v[_kid(key)]
        else:
            if i['name'] not in defaults:
                raise RuntimeError('model error: key %s missing from %s which has no default' % (key, i['name']))
            row[i['name']] = built['default:' + i['name']]
            used = True
    return row, used


# ----------------------------------------------------------------------------- generator

@st.composite
def _case(draw, tier, want):
    big = tier != 'quick'
    if want == 'join':
        draw(st.booleans())      # de-synchronises the join cases from the perdictable cases, which share seed and generator
    nk = draw(st.sampled_from([1, 2]))
    on = list(draw(st.permutations(KEYCOLS)))[:nk]
    usize = (3 if nk == 2 else 5) if not big else (4 if nk == 2 else 6)
    unis = [_universe(draw(st.sampled_from(['int', 'str', 'dt', 'mixed', 'wide'])), usize) for _ in range(nk)]
    allkeys = [[a] for a in unis[0]] if nk == 1 else [[a, b] for a in unis[0] for b in unis[1]]
    keyst = st.sampled_from(allkeys)
    def some(sizes):
        sz = min(draw(st.sampled_from(sizes)), len(allkeys) - 1)
        return draw(st.lists(keyst, unique_by=_kid, min_size=sz, max_size=sz))
    base = some([2, 3, 1, 4] if not big else [2, 4, 1, 6])
    n = draw(st.sampled_from([2, 3, 1, 4, 2, 3]))
    names = list(draw(st.permutations(NAMES)))[:n]
    inputs = []
    for name in names:
        if draw(st.sampled_from([0, 0, 0, 1])) == 1:
            inputs.append(dict(name=name, kind='scalar', value=draw(_val)))
            continue
        own = some([1, 0, 2, 3] if not big else [1, 0, 3, 5])
        use = draw(st.sampled_from([1, 2, 3, 0, 1, 2]))      # 0: own keys only, 1: base then own, 2: own then base, 3: base only
        keys = _dedupe({0: own, 1: base + own, 2: own + base, 3: base}[use])
        valcol = draw(st.sampled_from(['self', 'data', 'other']))
        inputs.append(dict(name=name, kind='table', keys=keys, vals=[draw(_val) for _ in keys], valcol=valcol,
                           extra=draw(st.sampled_from([None, 'junk', 'data'] if valcol == 'self' else [None, 'junk'] if valcol == 'data' else [None])),
                           rev=draw(st.booleans())))
    defaults = []
    for name in names:
        if draw(st.sampled_from([0, 0, 0, 1])) == 1:
            defaults.append([name, draw(_val)])
    spec = dict(on=on, on_form=draw(st.sampled_from(['list', 'str'])) if nk == 1 else 'list', inputs=inputs, defaults=defaults,
                defaults_form=draw(st.sampled_from(['dict', 'none'])) if not defaults else 'dict')
    if want != 'expiry':
        return spec
    # ---- expiry: needs a table input without default (see ASSUMPTIONS)
    dnames = set(d[0] for d in defaults)
    if not any(i['kind'] == 'table' and i['name'] not in dnames for i in inputs):
        first = inputs[0]
        if first['kind'] == 'scalar':
            keys = _dedupe(base + some([1, 2]))
            inputs[0] = first = dict(name=first['name'], kind='table', keys=keys, vals=[draw(_val) for _ in keys], valcol='self', extra=None, rev=False)
        spec['defaults'] = [d for d in defaults if d[0] != first['name']]
    K = model_keys(spec)
    prev = []
    kinds = ['no', 'absent', 'none', 'past', 'past', 'future']
    for k in K:
        kind = draw(st.sampled_from(kinds))
        if kind == 'no':
            continue
        prev.append(dict(key=k, value=draw(_old), kind=kind,
                         when=draw(st.sampled_from(PAST)) if kind == 'past' else draw(st.sampled_from(FUTURE)) if kind == 'future' else None))
    if K and draw(st.sampled_from([0, 0, 0, 1])) == 1:
        have = set(_kid(k) for k in K)
        for k in draw(st.lists(keyst, unique_by=_kid, max_size=2)):
            if _kid(k) not in have:
                kind = draw(st.sampled_from(kinds[1:]))
                prev.append(dict(key=k, value=draw(_old), kind=kind, stale=True,
                                 when=draw(st.sampled_from(PAST)) if kind == 'past' else draw(st.sampled_from(FUTURE)) if kind == 'future' else None))
    if len(prev) > 1 and draw(st.booleans()):
        prev = list(draw(st.permutations(prev)))
    spec['prev'] = prev
    spec['expcol'] = draw(st.sampled_from(['expiry', 'data']))
    spec['exp_rev'] = draw(st.booleans())               # expiry table lists its rows in the reverse order of the data table
    spec['empty_as'] = draw(st.sampled_from(['omit', 'table']))   # how an empty data / expiry table is passed
    return spec


# ----------------------------------------------------------------------------- builder

def _build(spec):
    from pyg_base import dictable
    env = Env()
    on = spec['on']
    inputs, built = {}, {}
    for i in spec['inputs']:
        name = i['name']
        if i['kind'] == 'scalar':
            v = build(i['value'], env)
            inputs[name] = v
            built[name] = ('scalar', v)
            continue
        vals = [build(v, env) for v in i['vals']]
        cols = {}
        kenv = Env()     # every table has its own NaN key object: keys of different tables are equal, never identical
        for c, col in enumerate(on):
            cols[col] = [build(k[c], kenv) for k in i['keys']]
        vc = name if i['valcol'] == 'self' else 'data' if i['valcol'] == 'data' else 'val_' + name
        cols[vc] = vals
        if i['extra']:
            cols[i['extra']] = [100 + r for r in range(len(vals))]
        order = list(cols)
        if i['rev']:
            order.reverse()
        inputs[name] = dictable({c: cols[c] for c in order})
        if len(inputs[name]) != len(vals) or sorted(inputs[name].keys()) != sorted(order):
            raise RuntimeError('builder: table %s was not built as specified' % name)
        built[name] = ('table', dict((_kid(k), v) for k, v in zip(i['keys'], vals)))
    defaults = {}
    for n, v in spec['defaults']:
        defaults[n] = build(v, env)
        built['default:' + n] = defaults[n]
    return env, inputs, built, defaults


def _mkf(names, log):
    def _rec(**kw):
        log.append(kw)
        return ('f',) + tuple(kw[n] for n in names)
    return eval('lambda %s: _rec(%s)' % (', '.join(names), ', '.join('%s = %s' % (n, n) for n in names)), {'_rec': _rec})


def _cellcmp(a, b):
    """-1/0/1 order of two key cells: native within a type, pyg_base.cmp across types and for None / NaN"""
    if type(a) is type(b) and a is not None and a == a and b == b:
        return -1 if a < b else 1 if a > b else 0
    from pyg_base import cmp
    return call('cmp(%r, %r)' % (a, b), cmp, a, b)


def _check_keys(what, res, on, Kbuilt):
    """res has exactly the keys K (nothing missing, nothing extra, none twice) in strictly ascending order; returns kid-token -> row index"""
    n = len(res)
    for c in on:
        check(c in res.keys(), '%s: key column %s missing from the result columns %s', what, c, list(res.keys()))
    got = [tuple(res[c][r] for c in on) for r in range(n)]
    gtok = [tuple(token(x) for x in g) for g in got]
    exp = dict((tuple(token(x) for x in kb), kb) for kb in Kbuilt)
    missing = [exp[t] for t in exp if t not in set(gtok)]
    extra = [g for g, t in zip(got, gtok) if t not in exp]
    check(not missing and not extra and len(gtok) == len(set(gtok)) == len(exp),
          '%s: expected one row for each of the keys %s but the result has keys %s (missing %s, unexpected %s)', what, sorted(exp.values(), key=repr), got, missing, extra)
    for r in range(n - 1):
        o = 0
        for a, b in zip(got[r], got[r + 1]):
            o = _cellcmp(a, b)
            if o:
                break
        check(o < 0, '%s: rows are not sorted ascending by %s: key %s precedes %s', what, on, got[r], got[r + 1])
    return dict((t, r) for r, t in enumerate(gtok))


def _argtok(row, names):
    return tuple(token(row[n]) for n in names)


def _check_calls(what, exp_calls, calls, names):
    """the call log of f is, as a multiset of argument tuples, exactly the rows that are to be computed: each once, nothing else"""
    got_calls = Counter(_argtok(c, names) for c in calls)
    if got_calls != exp_calls:
        raise Violation('%s: f must be called exactly once for each row to be computed and for no other; argument tuples (%s) never/too rarely called: %s; called but not expected / called too often: %s; call log: %s'
                        % (what, ', '.join(names), short(sorted((exp_calls - got_calls).elements(), key=repr), 200), short(sorted((got_calls - exp_calls).elements(), key=repr), 200), short(calls, 300)))


def _same(a, b):
    return a is b or token(a) == token(b)


def _what(fn, spec, inputs, defaults, more=''):
    return '%s(on = %r, defaults = %s)(%s%s)' % (fn, _on_arg(spec), short(defaults, 80), ', '.join('%s = %s' % (n, short(dict(v) if hasattr(v, 'keys') else v, 120)) for n, v in inputs.items()), more)


def _on_arg(spec):
    return spec['on'][0] if spec['on_form'] == 'str' else list(spec['on'])


def _classes(spec, K, rows_used):
    tables = [i for i in spec['inputs'] if i['kind'] == 'table']
    cls = ['tables=%i' % len(tables), 'inputs=%i' % len(spec['inputs']), 'nkeys=%i' % len(spec['on'])]
    if len(spec['on']) == 2 and spec['on'] != sorted(spec['on']):
        cls.append('on_not_alphabetical')
    if len(tables) < len(spec['inputs']) and tables:
        cls.append('scalar_broadcast')
    if any(not t['keys'] for t in tables):
        cls.append('empty_table')
    if any(c is None or isinstance(c, list) and c[0] == 'nan' for t in tables for k in t['keys'] for c in k):
        cls.append('none_or_nan_key')
    if any(isinstance(c, list) and c[0] == 'nan' for t in tables for k in t['keys'] for c in k):
        cls.append('nan_key')
    if spec['defaults']:
        cls.append('has_defaults')
    nt = False
    if K is None:
        cls.append('all_scalars')
    else:
        union = _dedupe([k for t in tables for k in t['keys']])
        if not K:
            cls.append('empty_result')
        if len(tables) >= 2:
            sets = [set(_kid(k) for k in t['keys']) for t in tables]
            if all(not (sets[a] & sets[b]) for a in range(len(sets)) for b in range(a)):
                cls.append('disjoint_tables')
            if K and len(K) < len(union):
                cls.append('partial_overlap')
                nt = True
            if K and len(K) == len(union):
                cls.append('total_overlap')
        if rows_used:
            cls.append('default_extends_keys')
            nt = True
        for t in tables:
            cls.append('valcol=' + t['valcol'] + ('+' + t['extra'] if t['extra'] else ''))
        if len(K) >= 3:
            cls.append('rows>=3')
    return nt, cls


# ----------------------------------------------------------------------------- perdictable without data / expiry

def run_perd(spec):
    from pyg_base import perdictable, dictable
    env, inputs, built, defaults = _build(spec)
    names = [i['name'] for i in spec['inputs']]
    log = []
    f = _mkf(names, log)
    dflt = None if spec['defaults_form'] == 'none' else dict(defaults)
    what = _what('perdictable', spec, inputs, defaults)
    p = call('perdictable(f, on, defaults)', lambda: perdictable(f, on=_on_arg(spec), defaults=dflt))
    res = call(what, lambda: p(**inputs))
    K = model_keys(spec)
    used_any = False
    if K is None:
        exp = ('f',) + tuple(inputs[n] for n in names)
        check(isinstance(res, tuple) and len(res) == len(exp) and all(_same(a, b) for a, b in zip(res, exp)),
              '%s: all inputs are scalars, expected f(...) = %s itself, got %s', what, exp, res)
        check(len(log) == 1, '%s: all inputs are scalars but f was called %s times', what, len(log))
    elif not K:
        check(res is None or (isinstance(res, dictable) and len(res) == 0), '%s: no key is present in every table input, expected no rows, got %s', what,
              dict(res) if isinstance(res, dictable) else res)
        check(len(log) == 0, '%s: there are no rows but f was called with %s', what, log)
    else:
        check(isinstance(res, dictable), '%s: expected a table, got %s', what, res)
        Kb = [tuple(build(c, env) for c in k) for k in K]
        where = _check_keys(what, res, spec['on'], Kb)
        check(sorted(res.keys()) == sorted(spec['on'] + ['data']), '%s: result columns are %s, expected the key columns and data', what, list(res.keys()))
        calls = list(log)
        exp_calls = Counter()
        for k, kb in zip(K, Kb):
            row, used = model_row(spec, k, built)
            used_any = used_any or used
            exp = ('f',) + tuple(row[n] for n in names)
            got = res['data'][where[tuple(token(x) for x in kb)]]
            check(isinstance(got, tuple) and len(got) == len(exp) and all(_same(a, b) for a, b in zip(got, exp)),
                  '%s: the row of key %s holds %s, expected f applied to that key\'s values = %s', what, kb, got, exp)
            exp_calls[_argtok(row, names)] += 1
        _check_calls(what, exp_calls, calls, names)
    nt, cls = _classes(spec, K, used_any)
    return dict(nt=nt, cls=cls)


# ----------------------------------------------------------------------------- join(inputs, on, defaults)

def run_join(spec):
    from pyg_base import dictable
    from pyg_base._perdictable import join
    env, inputs, built, defaults = _build(spec)
    names = [i['name'] for i in spec['inputs']]
    dflt = None if spec['defaults_form'] == 'none' else dict(defaults)
    what = _what('join', spec, inputs, defaults)
    res = call(what, lambda: join(dict(inputs), on=_on_arg(spec), defaults=dflt))
    K = model_keys(spec)
    used_any = False
    check(isinstance(res, dictable), '%s: expected a table, got %s', what, res)
    if K is None:
        check(len(res) == 1 and all(n in res.keys() and _same(res[n][0], inputs[n]) for n in names),
              '%s: all inputs are scalars, expected the single row %s, got %s', what, inputs, dict(res))
    elif not K:
        check(len(res) == 0, '%s: no key is present in every table input, expected no rows, got %s', what, dict(res))
    else:
        Kb = [tuple(build(c, env) for c in k) for k in K]
        where = _check_keys(what, res, spec['on'], Kb)
        check(sorted(res.keys()) == sorted(spec['on'] + names), '%s: result columns are %s, expected the key columns and one column per input', what, list(res.keys()))
        for k, kb in zip(K, Kb):
            row, used = model_row(spec, k, built)
            used_any = used_any or used
            r = where[tuple(token(x) for x in kb)]
            for n in names:
                check(_same(res[n][r], row[n]), '%s: at key %s column %s is %s, expected %s', what, kb, n, res[n][r], row[n])
    nt, cls = _classes(spec, K, used_any)
    return dict(nt=nt, cls=cls)


# ----------------------------------------------------------------------------- data / expiry

def run_expiry(spec):
    from pyg_base import perdictable, dictable
    env, inputs, built, defaults = _build(spec)
    names = [i['name'] for i in spec['inputs']]
    on = spec['on']
    K = model_keys(spec)
    if K is None:
        raise RuntimeError('expiry case without a table input')
    prev = spec['prev']
    have = set(_kid(k) for k in K)
    for p_ in prev:
        if (_kid(p_['key']) in have) == bool(p_.get('stale')):
            raise RuntimeError('expiry case: stale flag does not agree with the model key set')
        if p_['kind'] == 'past' and not p_['when'][1] < _PAST_LIMIT or p_['kind'] == 'future' and not p_['when'][1] > _PAST_LIMIT + 300000:
            raise RuntimeError('expiry case: date does not agree with its kind')
    if not K and any(p_.get('stale') for p_ in prev):
        raise RuntimeError('expiry case: stale keys with an empty join are outside the domain')
    olds = [build(p_['value'], env) for p_ in prev]
    args = dict(inputs)
    more = ''
    if prev or spec['empty_as'] == 'table':
        kenv = Env()
        cols = dict((c, [build(p_['key'][i], kenv) for p_ in prev]) for i, c in enumerate(on))
        cols['data'] = list(olds)
        args['data'] = dictable(cols)
        more += ', data = %s' % short(cols, 200)
    erows = [p_ for p_ in prev if p_['kind'] != 'absent']
    if spec['exp_rev']:
        erows = erows[::-1]
    if erows or spec['empty_as'] == 'table':
        kenv = Env()
        cols = dict((c, [build(p_['key'][i], kenv) for p_ in erows]) for i, c in enumerate(on))
        cols[spec['expcol']] = [None if p_['kind'] == 'none' else build(p_['when'], env) for p_ in erows]
        args['expiry'] = dictable(cols)
        more += ', expiry = %s' % short(cols, 200)
    for tname in ('data', 'expiry'):
        if tname in args and sorted(args[tname].keys()) != sorted(on + [tname if tname == 'data' else spec['expcol']]):
            raise RuntimeError('builder: %s table was not built as specified: %s' % (tname, dict(args[tname])))
    log = []
    f = _mkf(names, log)
    dflt = None if spec['defaults_form'] == 'none' else dict(defaults)
    what = _what('perdictable', spec, inputs, defaults, more)
    p = call('perdictable(f, on, defaults)', lambda: perdictable(f, on=_on_arg(spec), defaults=dflt))
    res = call(what, lambda: p(**args))
    used_any = False
    kinds = set()
    if not K:
        check(res is None or (isinstance(res, dictable) and len(res) == 0), '%s: no key is present in every table input, expected no rows, got %s', what,
              dict(res) if isinstance(res, dictable) else res)
        check(len(log) == 0, '%s: there are no rows but f was called with %s', what, log)
    else:
        check(isinstance(res, dictable), '%s: expected a table, got %s', what, res)
        Kb = [tuple(build(c, env) for c in k) for k in K]
        where = _check_keys(what, res, on, Kb)
        check(sorted(res.keys()) == sorted(on + ['data']), '%s: result columns are %s, expected the key columns and data', what, list(res.keys()))
        byk = dict((_kid(p_['key']), (p_, o)) for p_, o in zip(prev, olds))
        calls = list(log)
        exp_calls = Counter()
        for k, kb in zip(K, Kb):
            row, used = model_row(spec, k, built)
            used_any = used_any or used
            got = res['data'][where[tuple(token(x) for x in kb)]]
            p_, old = byk.get(_kid(k), (None, None))
            kind = 'not_computed_before' if p_ is None else p_['kind']
            kinds.add(kind)
            if kind == 'past':
                check(_same(got, old), '%s: key %s was computed before (%s) with an expiry in the past, it must keep that value but holds %s', what, kb, old, got)
            else:
                exp_calls[_argtok(row, names)] += 1
                exp = ('f',) + tuple(row[n] for n in names)
                check(isinstance(got, tuple) and len(got) == len(exp) and all(_same(a, b) for a, b in zip(got, exp)),
                      '%s: key %s (previous value: %s) must be recomputed: expected %s, the row holds %s', what, kb, kind, exp, got)
        _check_calls(what, exp_calls, calls, names)
    nt, cls = _classes(spec, K, used_any)
    pk = set(k for k in kinds if k != 'not_computed_before')
    cls = [c for c in cls if not c.startswith('valcol=') and not c.startswith('inputs=')]
    cls.append('expiry_kinds=%i' % len(pk))
    for k in sorted(kinds):
        cls.append('kind=' + k)
    if len(pk) >= 3:
        cls.append('expiry_kinds>=3')
        nt = True
    if any(p_.get('stale') for p_ in prev):
        cls.append('stale_previous_keys')
    if 'data' not in args:
        cls.append('no_data_passed')
    if 'expiry' not in args:
        cls.append('no_expiry_passed')
    cls.append('expcol=' + spec['expcol'])
    return dict(nt=nt, cls=cls)


_RULE = ('1-4 inputs named from (a, y, c, z) in any order, each a scalar or a table with unique keys over 1-2 key columns (names from k, j, m in any order, '
         'cells from an int / string / datetime / int+string / None+NaN+int+float+string universe of 3-6 values so that overlapping, disjoint and empty key sets all occur), value column named after '
         'the input / "data" / sole other column, rows in arbitrary order; any subset of inputs with a default. ')

SUBS = [
    Sub('perdictable', lambda tier: _case(tier, 'perd'), run_perd, quick=3000, thorough=12000,
        rule=_RULE + 'Oracle: key-set algebra (intersection of the tables without default, else union of those with default), rows ascending by key, value = f(row) with f '
             'a recording closure, f called exactly once per row, all scalars -> f(...) itself, empty key set -> None or no rows. '
             'non-trivial = >= 2 tables with non-empty non-total overlap, or a default that fills a missing key',
        floor=0.15, class_floors={'partial_overlap': 0.1, 'default_extends_keys': 0.03, 'all_scalars': 0.02, 'empty_result': 0.03, 'on_not_alphabetical': 0.1,
                                  'disjoint_tables': 0.015, 'empty_table': 0.03, 'scalar_broadcast': 0.15, 'rows>=3': 0.2, 'nan_key': 0.03}),
    Sub('join', lambda tier: _case(tier, 'join'), run_join, quick=3000, thorough=12000,
        rule=_RULE + 'join(inputs, on, defaults = ...) against the same key-set model: exact key set, ascending order, one column per input holding the table value / default / '
             'broadcast scalar. non-trivial as for perdictable',
        floor=0.15, class_floors={'partial_overlap': 0.1, 'default_extends_keys': 0.03, 'empty_result': 0.03, 'on_not_alphabetical': 0.1, 'scalar_broadcast': 0.15,
                                  'rows>=3': 0.2}),
    Sub('expiry', lambda tier: _case(tier, 'expiry'), run_expiry, quick=3000, thorough=12000,
        rule=_RULE + 'At least one table without default. A data table over a subset P of the joined keys (plus, sometimes, stale keys) and an expiry table giving each key of P '
             'one of absent / None / a past datetime (1970-2000) / a future datetime (2999-3000). Oracle: past keys keep the supplied value and are absent from the call log, '
             'all other keys hold f(row) and f was called exactly once for each. non-trivial = as above, or >= 3 distinct expiry kinds among the keys of P',
        floor=0.2, class_floors={'expiry_kinds>=3': 0.05, 'stale_previous_keys': 0.02, 'default_extends_keys': 0.03, 'kind=past': 0.2, 'kind=future': 0.1, 'kind=none': 0.1, 'kind=absent': 0.1, 'kind=not_computed_before': 0.2}),
]
