# -*- coding: utf-8 -*-
"""
C20 - perdictable evaluates a function once per row of the keyed join of its inputs.

Oracle: key-set algebra written from the statement (plain dicts / sets / loops) plus a call counter inside f.
  K  = intersection of the key sets of the table inputs without a default
       (if there is no such input: union of the key sets of the table inputs with a default)
  row(k) = for every input: the scalar itself | the table's value at k | its default where it lacks k
  perdictable(f, on, defaults)(**inputs)  -> all scalars: f(...) itself
                                           -> otherwise one row per k in K, ascending by key, value f(**row(k)), f called once per row
  join(inputs, on, defaults = ...)         -> one row per k in K, ascending by key, holding row(k)
  data / expiry                            -> k in P with a past expiry keeps the supplied value and is absent from the call log,
                                              every other k of K is in the call log exactly once
Every evaluation may be repeated on the same objects after every cell of the first result was overwritten: the statement holds for
each evaluation, so the second one is judged by the same model (this is how aliasing of result and operands / state kept between
calls becomes visible without asserting more than the statement).
"""
import json
from collections import Counter

from hypothesis import strategies as st

from pv.core import Sub, Violation, call, check, short
from pv.codec import build, Env, D0, token

ASSUMPTIONS = [
    'key cells: per key column one of five universes - ints, strings (incl. ""), datetimes, ints and strings mixed, or (None, NaN, 1, "a", 2.5, "b"); NaN keys of different tables are different objects and count as the same key '
    '(key matching as in C02); no int/float twins such as 1 and 1.0; keys are unique within each table (DESIGN G: for duplicate keys "one row per key" has no single reading and join logs a warning)',
    'large cases: int keys 0..250 (two key columns: id // 16, id % 16), tables of 64 / 65 / 100 / 128 / 200 rows next to tables of the same length or an eighth of it, values cycling through 1-3 scalars',
    'every table input carries every column of `on` (1 or 2 key columns); tables keyed by a subset of `on` (cross join) are not claimed',
    'the value column of a table input is named after the input, or "data", or is the only non-key column (the three selections documented in join); an extra column (junk / <input>_x / <first key>_x; or "data" next to a column '
    'named after the input, which then wins) only accompanies the first two',
    'names: plain scheme inputs (a, y, c, z) keys (k, j, m); nested scheme inputs (a, aa, ka, data_a) keys (k, kk, k_a) - substrings / prefixes / suffixes of one another and of "data", never equal to each other, to data / expiry, or to a dictable attribute',
    'table values and defaults are None, ints, finite floats or strings (a callable default is a formula, lists/tuples would be spread over rows by dictable); a non-table input is one of these or a list/tuple of 0-4 ints, which is one value handed whole to every row; defaults may also name an input that is not supplied (no effect)',
    'defaults: an explicit dict (possibly {}) is the complete list of defaults whatever defaults f has in its signature; with defaults = None the keyword defaults of f\'s signature are the defaults '
    '(perdictable docstring / argspec_defaults; join() itself has no f, there None means no defaults); every parameter of f is always supplied; if_none / output_is_input / include_inputs / col / renames keep their default values',
    'f has one parameter per input (those with a signature default last) and none called data or expiry; it returns a tuple of its arguments, its first argument, None, 0, "", False or a fresh []',
    'for an empty key set only "None or a table without rows" is asserted (DESIGN section 3 rule 2)',
    'expiry sub-check: at least one table input has no default, so the key set is an intersection and is not widened by the (outer-joined) data / expiry tables',
    'expiry sub-check: expiries are assigned to previously computed keys only (quantifier); a key with a past expiry but no supplied value (pyg-base returns None for it without calling f) is not generated',
    'expiry sub-check: previously computed keys that are no longer in the join (stale) are supplied only when the join is non-empty: with an empty join perdictable hands back the supplied data table as it is',
    'expiries are datetime.datetime in year 1-2000 (past) or 2999-9999 (future), never today-relative (so "exactly today" cannot be generated); datetime.date expiries are not claimed (dt(0) is a datetime and cannot be compared with a date)',
    'order of key cells of different types, None and NaN is judged with pyg_base.cmp (verified by C07); cells of one type with native <',
    'operands unchanged is not asserted (the statement is silent); a repeated evaluation on the same objects must satisfy the statement again',
]

NAMES = {'plain': ['a', 'y', 'c', 'z'], 'nested': ['a', 'aa', 'ka', 'data_a']}
KEYCOLS = {'plain': ['k', 'j', 'm'], 'nested': ['k', 'kk', 'k_a']}
ABSENT = {'plain': 'zz', 'nested': 'a_k'}
PAST = [['dt', 730120, 0], ['dt', 730119, 82800], ['dt', 719163, 0], ['dt', 1, 0]]             # 2000-01-01, 1999-12-31 23:00, 1970-01-01, 0001-01-01
FUTURE = [['dt', 1095363, 0], ['dt', 1095163, 43200], ['dt', 3652059, 86399]]                   # 3000-01-01, 2999-06-15 12:00, 9999-12-31 23:59:59
_PAST_LIMIT = 730120 + 366
FRETS = ['tuple', 'first', 'none', 'tuple', 'zero', 'empty_str', 'false', 'empty_list']
LARGE_N = [64, 200, 100, 65, 128]
LARGE_MOD = 251

_val = st.one_of(st.none(), st.integers(0, 5), st.sampled_from([0.5, 2.0]), st.sampled_from(['u', 'uv', '']))
# a non-table input may itself be a sequence (a vector of weights, say): it is one value, handed whole to every row - also when its length is the number of rows
_seqval = st.tuples(st.sampled_from(['list', 'tuple']), st.lists(st.integers(0, 5), max_size=4)).map(list)
_scalar_input = st.one_of(_val, _val, _val, _seqval)
_old = st.one_of(st.sampled_from(['old', 'old2']), st.none(), st.sampled_from([0, '', 0.0, False]), st.integers(1, 5))


def _universe(kind, n):
    if kind == 'int':
        return list(range(n))
    if kind == 'str':
        return ['', 'a', 'b', 'c', 'd', 'e'][:n]
    if kind == 'dt':
        return [['dt', D0 + i, 0] for i in range(n)]
    if kind == 'wide':
        return [None, ['nan', 0], 1, 'a', 2.5, 'b'][:n]
    ints = list(range(1, 1 + (n + 1) // 2))
    return ints + ['a', 'b', 'c'][:n - len(ints)]


def _kid(key):
    return json.dumps(key)


def _dedupe(keys):
    seen, out = set(), []
    for k in keys:
        if _kid(k) not in seen:
            seen.add(_kid(k))
            out.append(k)
    return out


def _is_falsy_spec(v):
    return v is None or (isinstance(v, (bool, int, float, str)) and not v)


# ----------------------------------------------------------------------------- the model (spec level: keys are identified by their spec)

def model_defaults(spec):
    """the [name, value] pairs that act as defaults: the explicit dict when one is passed, the signature defaults of f when defaults = None"""
    return spec['defaults'] if spec['defaults_form'] == 'dict' else spec.get('sigdefs', [])


def model_keys(spec, defaults=None):
    """ordered list of key specs of the expected result (order = first appearance, NOT sorted), or None when all inputs are scalars"""
    defaults = dict((n, v) for n, v in (model_defaults(spec) if defaults is None else defaults))
    tables = [i for i in spec['inputs'] if i['kind'] == 'table']
    if not tables:
        return None
    nodef = [t for t in tables if t['name'] not in defaults]
    if nodef:
        keys = list(nodef[0]['keys'])
        for t in nodef[1:]:
            have = set(_kid(k) for k in t['keys'])
            keys = [k for k in keys if _kid(k) in have]
        return keys
    return _dedupe([k for t in tables for k in t['keys']])


def model_row(spec, key, built):
    """{input name: value} at `key`; built = {name: ('scalar', v) | ('table', {kid: v})}; returns (row, names of the inputs whose default was used)"""
    defaults = dict((n, v) for n, v in model_defaults(spec))
    row, used = {}, []
    kid = _kid(key)
    for i in spec['inputs']:
        kind, v = built[i['name']]
        if kind == 'scalar':
            row[i['name']] = v
        elif kid in v:
            row[i['name']] = v[kid]
        else:
            if i['name'] not in defaults:
                raise RuntimeError('model error: key %s missing from %s which has no default' % (key, i['name']))
            row[i['name']] = built['default:' + i['name']]
            used.append(i['name'])
    return row, used


# ----------------------------------------------------------------------------- generator

def _large_key(i, nk):
    return [i] if nk == 1 else [i // 16, i % 16]


@st.composite
def _case(draw, tier, want):
    big = tier != 'quick'
    if want == 'join':
        draw(st.booleans())      # de-synchronises the join cases from the perdictable cases, which share seed and generator
    large = draw(st.sampled_from([0, 0, 0, 0, 1, 0, 0, 0, 0, 0])) == 1
    scheme = draw(st.sampled_from(['plain', 'nested']))
    nk = draw(st.sampled_from([1, 2]))
    on = list(draw(st.permutations(KEYCOLS[scheme])))[:nk]
    n = draw(st.sampled_from([2, 3, 1, 4, 2, 3]))
    names = list(draw(st.permutations(NAMES[scheme])))[:n]

    def valcol_extra():
        valcol = draw(st.sampled_from(['self', 'data', 'other']))
        if valcol == 'other':
            return valcol, None
        opts = [None, 'junk'] if scheme == 'plain' else [None, 'name_x', 'key_x']
        return valcol, draw(st.sampled_from(opts + (['data'] if valcol == 'self' else [])))

    inputs = []
    if not large:
        usize = (3 if nk == 2 else 5) if not big else (4 if nk == 2 else 6)
        unis = [_universe(draw(st.sampled_from(['int', 'str', 'dt', 'mixed', 'wide'])), usize) for _ in range(nk)]
        allkeys = [[a] for a in unis[0]] if nk == 1 else [[a, b] for a in unis[0] for b in unis[1]]
        rank = dict((_kid(k), r) for r, k in enumerate(allkeys))
        keyst = st.sampled_from(allkeys)

        def some(sizes):
            sz = min(draw(st.sampled_from(sizes)), len(allkeys) - 1)
            return draw(st.lists(keyst, unique_by=_kid, min_size=sz, max_size=sz))
        base = some([3, 4, 2, 1] if not big else [3, 5, 2, 1, 6])

        def table_keys():
            own = some([1, 0, 2, 3] if not big else [1, 0, 3, 5])
            # 0: own keys only, 1: base then own, 2: own then base, 3: base only, 4: the keys of base, same first and last, middle reversed (else: reversed)
            # 5: base reversed, 6: same length, same first and last key as base, other keys in between
            use = draw(st.sampled_from([1, 2, 3, 0, 4, 6, 1, 2, 5, 4, 6]))
            if use == 4:
                keys = [base[0]] + base[1:-1][::-1] + [base[-1]] if len(base) >= 4 else base[::-1]
            elif use == 5:
                keys = base[::-1]
            elif use == 6:
                others = [k for k in allkeys if _kid(k) not in set(_kid(b) for b in base)]
                if len(base) >= 3 and others:
                    mid = (others * len(base))[:len(base) - 2]
                    keys = _dedupe([base[0]] + mid + [base[-1]])
                else:
                    keys = base[::-1]
            else:
                keys = _dedupe({0: own, 1: base + own, 2: own + base, 3: base}[use])
            order = draw(st.sampled_from(['asis', 'asis', 'sorted', 'ends'])) if use < 4 else 'asis'
            if order == 'sorted':
                keys = sorted(keys, key=lambda k: rank[_kid(k)])
            elif order == 'ends' and len(keys) >= 3:
                lo, hi = min(keys, key=lambda k: rank[_kid(k)]), max(keys, key=lambda k: rank[_kid(k)])
                keys = [lo] + [k for k in keys if k is not lo and k is not hi] + [hi]
            return keys, [draw(_val) for _ in keys]

        def stale_keys(K):
            have = set(_kid(k) for k in K)
            return [k for k in draw(st.lists(keyst, unique_by=_kid, max_size=2)) if _kid(k) not in have]
    else:
        first = {}

        def table_keys():
            if not first:
                ln = draw(st.sampled_from(LARGE_N))
            else:
                how = draw(st.sampled_from(['eighth', 'same', 'mirror', 'other']))
                ln = first['n'] if how in ('same', 'mirror') else first['n'] // 8 if how == 'eighth' else draw(st.sampled_from(LARGE_N))
            mul = draw(st.sampled_from([7, 1, 250, 100]))
            off = draw(st.integers(0, LARGE_MOD - 1))
            ids = [(off + i * mul) % LARGE_MOD for i in range(ln)]
            if first and how == 'mirror':
                ids = first['ids'][::-1]       # the key set of the first table in the opposite order
            if not first:
                first.update(n=ln, ids=ids)
            pat = draw(st.lists(_val, min_size=1, max_size=3))
            return [_large_key(i, nk) for i in ids], [pat[i % len(pat)] for i in range(len(ids))]

        def stale_keys(K):
            have = set(_kid(k) for k in K)
            return [k for k in [_large_key(i, nk) for i in draw(st.lists(st.integers(0, LARGE_MOD - 1), unique=True, max_size=2))] if _kid(k) not in have]

    for name in names:
        if draw(st.sampled_from([0, 0, 0, 1])) == 1:
            inputs.append(dict(name=name, kind='scalar', value=draw(_scalar_input)))
            continue
        keys, vals = table_keys()
        valcol, extra = valcol_extra()
        inputs.append(dict(name=name, kind='table', keys=keys, vals=vals, valcol=valcol, extra=extra, rev=draw(st.booleans())))
    defaults = []
    for name in (names if draw(st.booleans()) else names[::-1]):
        if draw(st.sampled_from([0, 0, 0, 1])) == 1:
            defaults.append([name, draw(_val)])
    absent = draw(st.sampled_from([0, 0, 0, 1, 2, 0]))
    if absent:
        d = [ABSENT[scheme], draw(_val)]
        defaults = [d] + defaults if absent == 1 else defaults + [d]
    # signature defaults of f (not for join(), which has no f): they count only when defaults = None is passed
    sigdefs = []
    if want != 'join':
        for name in names:
            if draw(st.sampled_from([0, 0, 1])) == 1:
                sigdefs.append([name, draw(_val)])
        if sigdefs and draw(st.sampled_from([0, 1, 0])) == 1:
            defaults = []
    form = 'dict' if defaults else draw(st.sampled_from(['none', 'dict']))
    spec = dict(on=on, on_form=draw(st.sampled_from(['list', 'str'])) if nk == 1 else 'list', scheme=scheme, size='large' if large else 'small',
                inputs=inputs, defaults=defaults, sigdefs=sigdefs, defaults_form=form,
                positional=draw(st.booleans()), fret=draw(st.sampled_from(FRETS)), again=draw(st.booleans()))
    # half of the sequence-valued non-table inputs are exactly as long as the result: still ONE value for every row, not a column
    K = model_keys(spec)
    for i in inputs:
        if i['kind'] == 'scalar' and isinstance(i['value'], list) and i['value'][0] in ('list', 'tuple') and K and 2 <= len(K) <= 8 and draw(st.booleans()):
            i['value'] = [i['value'][0], [(3 * r + 1) % 7 for r in range(len(K))]]
    if want != 'expiry':
        return spec
    # ---- expiry: needs a table input without default (see ASSUMPTIONS)
    dnames = set(d[0] for d in model_defaults(spec))
    if not any(i['kind'] == 'table' and i['name'] not in dnames for i in inputs):
        head = inputs[0]
        if head['kind'] == 'scalar':
            keys, vals = table_keys()
            if not keys:
                keys, vals = table_keys()
            inputs[0] = head = dict(name=head['name'], kind='table', keys=keys, vals=vals, valcol='self', extra=None, rev=False)
        spec['defaults'] = [d for d in defaults if d[0] != head['name']]
        spec['sigdefs'] = [d for d in sigdefs if d[0] != head['name']]
    K = model_keys(spec)
    kinds = ['no', 'absent', 'none', 'past', 'past', 'future']
    prev = []

    def entry(k, kind, old, **kw):
        return dict(key=k, value=old, kind=kind, when=draw(st.sampled_from(PAST)) if kind == 'past' else draw(st.sampled_from(FUTURE)) if kind == 'future' else None, **kw)
    if not large:
        for k in K:
            kind = draw(st.sampled_from(kinds))
            if kind != 'no':
                prev.append(entry(k, kind, draw(_old)))
    else:
        kpat = draw(st.lists(st.sampled_from(kinds), min_size=1, max_size=5))
        opat = draw(st.lists(_old, min_size=1, max_size=3))
        for r, k in enumerate(K):
            if kpat[r % len(kpat)] != 'no':
                prev.append(entry(k, kpat[r % len(kpat)], opat[r % len(opat)]))
    if K and draw(st.sampled_from([0, 0, 0, 1])) == 1:
        for k in stale_keys(K):
            prev.append(entry(k, draw(st.sampled_from(kinds[1:])), draw(_old), stale=True))
    if len(prev) > 1 and draw(st.booleans()):
        prev = list(draw(st.permutations(prev))) if len(prev) <= 8 else prev[::-1]
    spec['prev'] = prev
    spec['expcol'] = draw(st.sampled_from(['expiry', 'data']))
    spec['exp_rev'] = draw(st.booleans())               # expiry table lists its rows in the reverse order of the data table
    spec['empty_as'] = draw(st.sampled_from(['omit', 'table']))   # how an empty data / expiry table is passed
    spec['prev_first'] = draw(st.booleans())            # data / expiry are the first keyword arguments instead of the last
    return spec


# ----------------------------------------------------------------------------- builder

def _norm(spec):
    """replay files written before the generalisation pass lack the newer fields: fill in the values they implied"""
    spec = dict(spec)
    for k, v in (('sigdefs', []), ('scheme', 'plain'), ('size', 'small'), ('positional', False), ('fret', 'tuple'), ('again', False), ('prev_first', False)):
        spec.setdefault(k, v)
    spec['inputs'] = [dict(i, extra='junk' if i.get('extra') is True else (i.get('extra') or None)) if i['kind'] == 'table' else i for i in spec['inputs']]
    return spec


def _extra_name(i, on):
    return {'junk': 'junk', 'data': 'data', 'name_x': i['name'] + '_x', 'key_x': on[0] + '_x'}[i['extra']]


def _build(spec):
    from pyg_base import dictable
    env = Env()
    on = spec['on']
    inputs, built = {}, {}
    for i in spec['inputs']:
        name = i['name']
        if i['kind'] == 'scalar':
            v = build(i['value'], env)
            inputs[name] = v
            built[name] = ('scalar', v)
            continue
        vals = [build(v, env) for v in i['vals']]
        cols = {}
        kenv = Env()     # every table has its own NaN key object: keys of different tables are equal, never identical
        for c, col in enumerate(on):
            cols[col] = [build(k[c], kenv) for k in i['keys']]
        built['keys:' + name] = list(zip(*[cols[col] for col in on])) if i['keys'] else []
        vc = name if i['valcol'] == 'self' else 'data' if i['valcol'] == 'data' else 'val_' + name
        cols[vc] = vals
        if i['extra']:
            cols[_extra_name(i, on)] = [100 + r for r in range(len(vals))]
        order = list(cols)
        if i['rev']:
            order.reverse()
        if len(set(order)) != len(on) + 1 + bool(i['extra']):
            raise RuntimeError('builder: column names of table %s collide: %s' % (name, order))
        inputs[name] = dictable({c: cols[c] for c in order})
        if len(inputs[name]) != len(vals) or sorted(inputs[name].keys()) != sorted(order):
            raise RuntimeError('builder: table %s was not built as specified' % name)
        built[name] = ('table', dict((_kid(k), v) for k, v in zip(i['keys'], vals)))
    defaults = {}
    for n, v in spec['defaults']:
        defaults[n] = build(v, env)
    sig = dict((n, build(v, env)) for n, v in spec['sigdefs'])
    built['sigdefs'] = sig
    for n, v in (defaults if spec['defaults_form'] == 'dict' else sig).items():
        built['default:' + n] = v
    return env, inputs, built, defaults


def _fvalue(fret, names, kw):
    if fret == 'tuple':
        return ('f',) + tuple(kw[n] for n in names)
    if fret == 'first':
        return kw[names[0]]
    return {'none': None, 'zero': 0, 'empty_str': '', 'false': False, 'empty_list': []}[fret]


def _mkf(names, log, fret, sig=None):
    """f(<names without signature default>, <names with one> = value): records its keyword arguments"""
    sig = sig or {}

    def _rec(**kw):
        log.append(kw)
        return _fvalue(fret, names, kw)
    env = {'_rec': _rec}
    params = [n for n in names if n not in sig]
    for n in names:
        if n in sig:
            env['_sig_' + n] = sig[n]
            params.append('%s = _sig_%s' % (n, n))
    return eval('lambda %s: _rec(%s)' % (', '.join(params), ', '.join('%s = %s' % (n, n) for n in names)), env)


def _cellcmp(a, b):
    """-1/0/1 order of two key cells: native within a type, pyg_base.cmp across types and for None / NaN"""
    if type(a) is type(b) and a is not None and a == a and b == b:
        return -1 if a < b else 1 if a > b else 0
    from pyg_base import cmp
    return call('cmp(%r, %r)' % (a, b), cmp, a, b)


def _keycmp(x, y):
    for a, b in zip(x, y):
        o = _cellcmp(a, b)
        if o:
            return o
    return 0


def _check_keys(what, res, on, Kbuilt):
    """res has exactly the keys K (nothing missing, nothing extra, none twice) in strictly ascending order; returns kid-token -> row index"""
    n = len(res)
    for c in on:
        check(c in res.keys(), '%s: key column %s missing from the result columns %s', what, c, list(res.keys()))
    got = [tuple(res[c][r] for c in on) for r in range(n)]
    gtok = [tuple(token(x) for x in g) for g in got]
    gset = set(gtok)
    exp = dict((tuple(token(x) for x in kb), kb) for kb in Kbuilt)
    missing = [exp[t] for t in exp if t not in gset]
    extra = [g for g, t in zip(got, gtok) if t not in exp]
    check(not missing and not extra and len(gtok) == len(gset) == len(exp),
          '%s: expected one row for each of the %s keys %s but the result has the %s keys %s (missing %s, unexpected %s)', what, len(exp), sorted(exp.values(), key=repr), len(got), got, missing, extra)
    for r in range(n - 1):
        check(_keycmp(got[r], got[r + 1]) < 0, '%s: rows are not sorted ascending by %s: key %s precedes %s', what, on, got[r], got[r + 1])
    return dict((t, r) for r, t in enumerate(gtok))


def _argtok(row, names):
    return tuple(token(row[n]) for n in names)


def _check_calls(what, exp_calls, calls, names):
    """the call log of f is, as a multiset of argument tuples, exactly the rows that are to be computed: each once, nothing else"""
    got_calls = Counter(_argtok(c, names) for c in calls)
    if got_calls != exp_calls:
        raise Violation('%s: f must be called exactly once for each row to be computed and for no other (%i calls expected, %i made); argument tuples (%s) never/too rarely called: %s; called but not expected / called too often: %s; call log: %s'
                        % (what, sum(exp_calls.values()), len(calls), ', '.join(names), short(sorted((exp_calls - got_calls).elements(), key=repr), 200),
                           short(sorted((got_calls - exp_calls).elements(), key=repr), 200), short(calls, 300)))


def _same(a, b):
    return a is b or token(a) == token(b)


def _what(fn, spec, inputs, defaults, more=''):
    sig = ', f has the signature defaults %s' % dict((n, v) for n, v in spec['sigdefs']) if spec['sigdefs'] and fn != 'join' else ''
    return '%s(on = %r, defaults = %s%s)(%s%s)' % (fn, _on_arg(spec), short(defaults, 80) if spec['defaults_form'] == 'dict' else None, sig, ', '.join('%s = %s' % (n, short(dict(v) if hasattr(v, 'keys') else v, 120)) for n, v in inputs.items()), more)


def _on_arg(spec):
    return spec['on'][0] if spec['on_form'] == 'str' else list(spec['on'])


def _scribble(res):
    """overwrites every cell of a returned table in place (the lists the table holds), so that anything aliasing them shows in the second evaluation"""
    from pyg_base import dictable
    if isinstance(res, dictable):
        for c in list(res.keys()):
            col = dict.__getitem__(res, c)
            if isinstance(col, list):
                for r in range(len(col)):
                    col[r] = ('#', c, r)


def _classes(spec, K, built, used_names):
    tables = [i for i in spec['inputs'] if i['kind'] == 'table']
    ni = len(spec['inputs'])
    cls = ['tables=%i' % len(tables), 'inputs=%i' % ni, 'nkeys=%i' % len(spec['on']), 'names_' + spec['scheme'], 'f_returns=' + spec['fret']]
    if spec['fret'] not in ('tuple', 'first'):
        cls.append('f_returns_falsy')
    if spec['again']:
        cls.append('second_call')
    if spec['positional']:
        cls.append('positional')
    if len(spec['on']) == 2 and spec['on'] != sorted(spec['on']):
        cls.append('on_not_alphabetical')
    if len(tables) < ni and tables:
        cls.append('scalar_broadcast')
    if any(i['kind'] == 'scalar' and _is_falsy_spec(i['value']) for i in spec['inputs']):
        cls.append('falsy_scalar')
    seqs = [i['value'] for i in spec['inputs'] if i['kind'] == 'scalar' and isinstance(i['value'], list) and i['value'][0] in ('list', 'tuple')]
    if seqs:
        cls.append('sequence_valued_scalar')
        if any(len(v[1]) == len(K or []) for v in seqs) and len(K or []) >= 2:
            cls.append('sequence_valued_scalar_as_long_as_the_result')
    if any(not t['keys'] for t in tables):
        cls.append('empty_table')
    if any(i['kind'] == 'table' and not i['keys'] for i in spec['inputs'][1:-1]):
        cls.append('empty_table_in_the_middle')
    dn = [d[0] for d in model_defaults(spec)]
    sn = [d[0] for d in spec['sigdefs']]
    if sn:
        cls.append('f_has_signature_defaults')
        if spec['defaults_form'] == 'none':
            cls.append('signature_defaults_are_the_defaults')
        else:
            cls.append('sigdefs+explicit_' + ('empty' if not spec['defaults'] else 'overlapping' if set(sn) & set(dn) else 'other_params'))
            if any(t['name'] in sn and t['name'] not in dn for t in tables):
                cls.append('signature_default_not_in_explicit_defaults')
                both = model_keys(spec, list(spec['defaults']) + [d for d in spec['sigdefs'] if d[0] not in dn])
                if both is not None and K is not None and sorted(_kid(k) for k in both) != sorted(_kid(k) for k in K):
                    cls.append('ignored_signature_default_would_change_the_keys')
    if any(not t['keys'] and t['name'] in dn for t in tables):
        cls.append('empty_table_with_default')
    if any(len(t['keys']) == 1 for t in tables):
        cls.append('one_row_table')
    if any(c is None or isinstance(c, list) and c[0] == 'nan' for t in tables for k in t['keys'][:8] for c in k):
        cls.append('none_or_nan_key')
    if any(isinstance(c, list) and c[0] == 'nan' for t in tables for k in t['keys'][:8] for c in k):
        cls.append('nan_key')
    if any(_is_falsy_spec(c) for t in tables for k in t['keys'][:8] for c in k):
        cls.append('falsy_key')
    if len(spec['on']) == 2 and any(len(set(_kid(k[0]) for k in t['keys'])) < len(t['keys']) for t in tables):
        cls.append('ties_in_first_key_column')
    if dn:
        cls.append('has_defaults')
    innames = [i['name'] for i in spec['inputs']]
    if any(d not in innames for d in dn):
        cls.append('default_for_absent_input')
    if any(i['kind'] == 'scalar' and i['name'] in dn for i in spec['inputs']):
        cls.append('default_on_scalar')
    known = [d for d in dn if d in innames]
    if len(known) >= 2 and known != [n for n in innames if n in known]:
        cls.append('defaults_in_other_order_than_inputs')
    # fast-path fingerprints between pairs of tables and within a table
    for a in range(len(tables)):
        ka = [_kid(k) for k in tables[a]['keys']]
        for b in range(a):
            kb = [_kid(k) for k in tables[b]['keys']]
            if len(ka) >= 2 and ka != kb and set(ka) == set(kb):
                cls.append('same_keyset_other_order')
                if ka[0] == kb[0] and ka[-1] == kb[-1]:
                    cls.append('same_keyset_same_ends_other_order')
            if len(ka) >= 3 and len(ka) == len(kb) and ka[0] == kb[0] and ka[-1] == kb[-1] and set(ka) != set(kb):
                cls.append('same_length_same_ends_other_keys')
    for t in tables:
        kb = built['keys:' + t['name']]
        if len(kb) >= 3:
            if all(_keycmp(kb[r], kb[r + 1]) < 0 for r in range(len(kb) - 1)):
                cls.append('table_presorted')
            elif all(_keycmp(kb[0], k) < 0 for k in kb[1:]) and all(_keycmp(k, kb[-1]) < 0 for k in kb[:-1]):
                cls.append('table_ends_in_order_middle_not')
            else:
                cls.append('table_unsorted')
    cls = sorted(set(cls))
    if spec['size'] == 'large':
        cls.append('large')
        lens = [len(t['keys']) for t in tables]
        for ln in set(lens):
            if ln in LARGE_N:
                cls.append('rows=%i' % ln)
        if len(lens) >= 2 and min(lens) >= 1 and max(lens) >= 8 * min(lens):
            cls.append('one_table_8x_longer')
        if K is not None and len(K) >= 64:
            cls.append('large_result>=64')
    nt = False
    if K is None:
        cls.append('all_scalars')
    else:
        union = _dedupe([k for t in tables for k in t['keys']])
        if not K:
            cls.append('empty_result')
        if len(K) == 1:
            cls.append('one_row_result')
        if len(tables) >= 2:
            sets = [set(_kid(k) for k in t['keys']) for t in tables]
            if all(not (sets[a] & sets[b]) for a in range(len(sets)) for b in range(a)):
                cls.append('disjoint_tables')
            if K and len(K) < len(union):
                cls.append('partial_overlap')
                nt = True
            if K and len(K) == len(union):
                cls.append('total_overlap')
        if used_names:
            cls.append('default_extends_keys')
            nt = True
            dv = dict((n, v) for n, v in model_defaults(spec))
            if spec['defaults_form'] == 'none':
                cls.append('signature_default_fills_row')
            if any(_is_falsy_spec(dv[n]) for n in used_names):
                cls.append('falsy_default_fills_row')
        for t in set(t['valcol'] + ('+' + t['extra'] if t['extra'] else '') for t in tables):
            cls.append('valcol=' + t)
        if len(K) >= 3:
            cls.append('rows>=3')
    return nt, cls


def _rows(spec, K, built, names):
    """model rows of the keys K: list of (row dict, argument token), set of inputs whose default was used, whether two rows have equal arguments"""
    rows, used = [], set()
    for k in K:
        row, u = model_row(spec, k, built)
        used.update(u)
        rows.append(row)
    toks = [_argtok(r, names) for r in rows]
    return rows, toks, used, len(set(toks)) < len(toks)


# ----------------------------------------------------------------------------- perdictable without data / expiry

def run_perd(spec):
    spec = _norm(spec)
    from pyg_base import perdictable, dictable
    env, inputs, built, defaults = _build(spec)
    names = [i['name'] for i in spec['inputs']]
    log = []
    fret = spec['fret']
    f = _mkf(names, log, fret, built['sigdefs'])
    dflt = None if spec['defaults_form'] == 'none' else dict(defaults)
    what0 = _what('perdictable', spec, inputs, defaults)
    if spec['positional']:
        p = call('perdictable(f, on, None, defaults)', lambda: perdictable(f, _on_arg(spec), None, dflt))
    else:
        p = call('perdictable(f, on = on, defaults = defaults)', lambda: perdictable(f, on=_on_arg(spec), defaults=dflt))
    K = model_keys(spec)
    used, dup = set(), False
    if K:
        Kb = [tuple(build(c, env) for c in k) for k in K]
        rows, toks, used, dup = _rows(spec, K, built, names)

    def once(what):
        del log[:]
        res = call(what, lambda: p(**inputs))
        if K is None:
            exp = _fvalue(fret, names, inputs)
            check(type(res) is type(exp) and _same(res, exp), '%s: all inputs are scalars, expected f(...) = %s itself, got %s', what, exp, res)
            check(len(log) == 1, '%s: all inputs are scalars but f was called %s times', what, len(log))
        elif not K:
            check(res is None or (isinstance(res, dictable) and len(res) == 0), '%s: no key is present in every table input, expected no rows, got %s', what,
                  dict(res) if isinstance(res, dictable) else res)
            check(len(log) == 0, '%s: there are no rows but f was called with %s', what, log)
        else:
            check(isinstance(res, dictable), '%s: expected a table, got %s', what, res)
            where = _check_keys(what, res, spec['on'], Kb)
            check(sorted(res.keys()) == sorted(spec['on'] + ['data']), '%s: result columns are %s, expected the key columns and data', what, list(res.keys()))
            for kb, row in zip(Kb, rows):
                exp = _fvalue(fret, names, row)
                got = res['data'][where[tuple(token(x) for x in kb)]]
                check(type(got) is type(exp) and _same(got, exp), '%s: the row of key %s holds %s, expected f applied to that key\'s values = %s', what, kb, got, exp)
            _check_calls(what, Counter(toks), list(log), names)
        return res
    res = once(what0)
    if spec['again']:
        _scribble(res)
        once(what0 + ' [second evaluation on the same objects, after every cell of the first result was overwritten]')
    nt, cls = _classes(spec, K, built, used)
    if dup:
        cls.append('rows_with_equal_args')
    return dict(nt=nt, cls=cls)


# ----------------------------------------------------------------------------- join(inputs, on, defaults)

def run_join(spec):
    spec = _norm(spec)
    from pyg_base import dictable
    from pyg_base import join
    env, inputs, built, defaults = _build(spec)
    names = [i['name'] for i in spec['inputs']]
    dflt = None if spec['defaults_form'] == 'none' else dict(defaults)
    what0 = _what('join', spec, inputs, defaults)
    K = model_keys(spec)
    used = set()
    if K:
        Kb = [tuple(build(c, env) for c in k) for k in K]
        rows, toks, used, dup = _rows(spec, K, built, names)

    def once(what):
        if spec['positional']:
            res = call(what, lambda: join(dict(inputs), _on_arg(spec), None, None if dflt is None else dict(dflt)))
        else:
            res = call(what, lambda: join(dict(inputs), on=_on_arg(spec), defaults=None if dflt is None else dict(dflt)))
        check(isinstance(res, dictable), '%s: expected a table, got %s', what, res)
        if K is None:
            check(len(res) == 1 and all(n in res.keys() and _same(res[n][0], inputs[n]) for n in names),
                  '%s: all inputs are scalars, expected the single row %s, got %s', what, inputs, dict(res))
        elif not K:
            check(len(res) == 0, '%s: no key is present in every table input, expected no rows, got %s', what, dict(res))
        else:
            where = _check_keys(what, res, spec['on'], Kb)
            check(sorted(res.keys()) == sorted(spec['on'] + names), '%s: result columns are %s, expected the key columns and one column per input', what, list(res.keys()))
            for kb, row in zip(Kb, rows):
                r = where[tuple(token(x) for x in kb)]
                for n in names:
                    check(_same(res[n][r], row[n]), '%s: at key %s column %s is %s, expected %s', what, kb, n, res[n][r], row[n])
        return res
    res = once(what0)
    if spec['again']:
        _scribble(res)
        once(what0 + ' [second evaluation on the same objects, after every cell of the first result was overwritten]')
    nt, cls = _classes(spec, K, built, used)
    return dict(nt=nt, cls=[c for c in cls if not c.startswith('f_returns')])


# ----------------------------------------------------------------------------- data / expiry

def run_expiry(spec):
    spec = _norm(spec)
    from pyg_base import perdictable, dictable
    env, inputs, built, defaults = _build(spec)
    names = [i['name'] for i in spec['inputs']]
    on = spec['on']
    fret = spec['fret']
    K = model_keys(spec)
    if K is None:
        raise RuntimeError('expiry case without a table input')
    prev = spec['prev']
    have = set(_kid(k) for k in K)
    for p_ in prev:
        if (_kid(p_['key']) in have) == bool(p_.get('stale')):
            raise RuntimeError('expiry case: stale flag does not agree with the model key set')
        if p_['kind'] == 'past' and not p_['when'][1] < _PAST_LIMIT or p_['kind'] == 'future' and not p_['when'][1] > _PAST_LIMIT + 300000:
            raise RuntimeError('expiry case: date does not agree with its kind')
    if not K and any(p_.get('stale') for p_ in prev):
        raise RuntimeError('expiry case: stale keys with an empty join are outside the domain')
    olds = [build(p_['value'], env) for p_ in prev]
    extra = {}
    more = ''
    if prev or spec['empty_as'] == 'table':
        kenv = Env()
        cols = dict((c, [build(p_['key'][i], kenv) for p_ in prev]) for i, c in enumerate(on))
        cols['data'] = list(olds)
        extra['data'] = dictable(cols)
        more += ', data = %s' % short(cols, 200)
    erows = [p_ for p_ in prev if p_['kind'] != 'absent']
    if spec['exp_rev']:
        erows = erows[::-1]
    if erows or spec['empty_as'] == 'table':
        kenv = Env()
        cols = dict((c, [build(p_['key'][i], kenv) for p_ in erows]) for i, c in enumerate(on))
        cols[spec['expcol']] = [None if p_['kind'] == 'none' else build(p_['when'], env) for p_ in erows]
        extra['expiry'] = dictable(cols)
        more += ', expiry = %s' % short(cols, 200)
    for tname in ('data', 'expiry'):
        if tname in extra and sorted(extra[tname].keys()) != sorted(on + [tname if tname == 'data' else spec['expcol']]):
            raise RuntimeError('builder: %s table was not built as specified: %s' % (tname, dict(extra[tname])))
    args = dict(extra)
    args.update(inputs)
    if not spec['prev_first']:
        args = dict(inputs)
        args.update(extra)
    log = []
    f = _mkf(names, log, fret, built['sigdefs'])
    dflt = None if spec['defaults_form'] == 'none' else dict(defaults)
    what0 = _what('perdictable', spec, inputs, defaults, more)
    if spec['positional']:
        p = call('perdictable(f, on, None, defaults)', lambda: perdictable(f, _on_arg(spec), None, dflt))
    else:
        p = call('perdictable(f, on = on, defaults = defaults)', lambda: perdictable(f, on=_on_arg(spec), defaults=dflt))
    used = set()
    kinds = Counter()
    plan = []     # per key of K: (built key, row, kind, old value)
    if K:
        Kb = [tuple(build(c, env) for c in k) for k in K]
        rows, toks, used, dup = _rows(spec, K, built, names)
        byk = dict((_kid(p_['key']), (p_, o)) for p_, o in zip(prev, olds))
        for k, kb, row, tok in zip(K, Kb, rows, toks):
            p_, old = byk.get(_kid(k), (None, None))
            kind = 'not_computed_before' if p_ is None else p_['kind']
            kinds[kind] += 1
            plan.append((kb, row, tok, kind, old))

    def once(what):
        del log[:]
        res = call(what, lambda: p(**args))
        if not K:
            check(res is None or (isinstance(res, dictable) and len(res) == 0), '%s: no key is present in every table input, expected no rows, got %s', what,
                  dict(res) if isinstance(res, dictable) else res)
            check(len(log) == 0, '%s: there are no rows but f was called with %s', what, log)
            return res
        check(isinstance(res, dictable), '%s: expected a table, got %s', what, res)
        where = _check_keys(what, res, on, Kb)
        check(sorted(res.keys()) == sorted(on + ['data']), '%s: result columns are %s, expected the key columns and data', what, list(res.keys()))
        exp_calls = Counter()
        for kb, row, tok, kind, old in plan:
            got = res['data'][where[tuple(token(x) for x in kb)]]
            if kind == 'past':
                check(type(got) is type(old) and _same(got, old), '%s: key %s was computed before (%s) with an expiry in the past, it must keep that value but holds %s', what, kb, old, got)
            else:
                exp_calls[tok] += 1
                exp = _fvalue(fret, names, row)
                check(type(got) is type(exp) and _same(got, exp), '%s: key %s (previous value: %s) must be recomputed: expected %s, the row holds %s', what, kb, kind, exp, got)
        _check_calls(what, exp_calls, list(log), names)
        return res
    res = once(what0)
    if spec['again']:
        if res is not extra.get('data'):
            _scribble(res)
        once(what0 + ' [second evaluation on the same objects, after every cell of the first result was overwritten]')
    nt, cls = _classes(spec, K, built, used)
    pk = set(k for k in kinds if k != 'not_computed_before')
    cls = [c for c in cls if not c.startswith('valcol=') and not c.startswith('inputs=') and not c.startswith('table_') and not c.startswith('same_')]
    cls.append('expiry_kinds=%i' % len(pk))
    for k in sorted(kinds):
        cls.append('kind=' + k)
    if len(pk) >= 3:
        cls.append('expiry_kinds>=3')
        nt = True
    for kb, row, tok, kind, old in plan:
        if kind != 'not_computed_before' and (old is None or not old):
            cls.append('old=%s/%s' % ('none' if old is None else 'falsy', kind))
    if plan:
        if plan and all(kind == 'past' for kb, row, tok, kind, old in plan):
            cls.append('all_rows_past')
        srt = sorted(range(len(plan)), key=lambda r: _SortKey(plan[r][0]))
        if plan[srt[0]][3] == 'past':
            cls.append('first_row_past')
        if plan[srt[-1]][3] == 'past':
            cls.append('last_row_past')
        if all(kind != 'not_computed_before' for kb, row, tok, kind, old in plan):
            cls.append('every_row_computed_before')
        if kinds.get('past') and fret not in ('tuple', 'first'):
            cls.append('f_returns_falsy_and_past_rows')
    if any(p_['when'] is not None and p_['when'][1] in (1, 3652059) and not p_.get('stale') for p_ in prev):
        cls.append('extreme_date')
    if any(p_.get('stale') for p_ in prev):
        cls.append('stale_previous_keys')
    if 'data' not in args:
        cls.append('no_data_passed')
    if 'expiry' not in args:
        cls.append('no_expiry_passed')
    if spec['prev_first'] and extra:
        cls.append('data_expiry_first_kwargs')
    cls.append('expcol=' + spec['expcol'])
    return dict(nt=nt, cls=sorted(set(cls)))


class _SortKey(object):
    def __init__(self, k):
        self.k = k

    def __lt__(self, other):
        return _keycmp(self.k, other.k) < 0


_RULE = ('1-4 inputs (plain names a, y, c, z or nested names a, aa, ka, data_a) in any order, each a scalar or a table with unique keys over 1-2 key columns (k, j, m or k, kk, k_a in any order; '
         'cells from an int / string / datetime / int+string / None+NaN+int+float+string universe of 3-6 values so that overlapping, disjoint and empty key sets all occur; tables also as re-orderings of one '
         'another, with equal ends and other middles, pre-sorted), ~8% large cases (int keys 0..250, 64/65/100/128/200 rows, one table up to 8x longer, cyclic values), value column named after '
         'the input / "data" / sole other column plus look-alike extra columns, rows in arbitrary order; any subset of inputs with a default (also for absent inputs, any order, falsy values), f with signature defaults on any subset of its parameters combined with defaults = None (they are the defaults) or an explicit dict naming other / overlapping / no parameters (only the dict counts); on / defaults by keyword or position; '
         'f returns a tuple of its arguments, its first argument, None, 0, "", False or []; half of the cases are evaluated a second time after overwriting the first result. ')

SUBS = [
    Sub('perdictable', lambda tier: _case(tier, 'perd'), run_perd, quick=3000, thorough=12000,
        rule=_RULE + 'Oracle: key-set algebra (intersection of the tables without default, else union of those with default), rows ascending by key, value = f(row) with f '
             'a recording closure, f called exactly once per row (multiset of argument tuples), all scalars -> f(...) itself, empty key set -> None or no rows. '
             'non-trivial = >= 2 tables with non-empty non-total overlap, or a default that fills a missing key',
        floor=0.15, class_floors={'sequence_valued_scalar': 0.05, 'sequence_valued_scalar_as_long_as_the_result': 0.015, 'partial_overlap': 0.1, 'default_extends_keys': 0.03, 'all_scalars': 0.02, 'empty_result': 0.03, 'on_not_alphabetical': 0.1,
                                  'disjoint_tables': 0.01, 'empty_table': 0.03, 'scalar_broadcast': 0.15, 'rows>=3': 0.2, 'nan_key': 0.03,
                                  'large': 0.04, 'large_result>=64': 0.02, 'one_table_8x_longer': 0.008, 'same_keyset_other_order': 0.04,
                                  'same_keyset_same_ends_other_order': 0.005, 'same_length_same_ends_other_keys': 0.005, 'table_presorted': 0.1,
                                  'table_ends_in_order_middle_not': 0.02, 'names_nested': 0.3, 'f_returns_falsy': 0.25, 'f_returns=none': 0.04, 'second_call': 0.2,
                                  'rows_with_equal_args': 0.08, 'falsy_default_fills_row': 0.01, 'default_for_absent_input': 0.1, 'positional': 0.2,
                                  'one_row_table': 0.08, 'inputs=1': 0.08, 'inputs=4': 0.05, 'falsy_key': 0.2, 'ties_in_first_key_column': 0.15,
                                  'defaults_in_other_order_than_inputs': 0.01, 'empty_table_in_the_middle': 0.002,
                                  'signature_default_not_in_explicit_defaults': 0.08, 'ignored_signature_default_would_change_the_keys': 0.03,
                                  'signature_defaults_are_the_defaults': 0.05, 'signature_default_fills_row': 0.01, 'sigdefs+explicit_empty': 0.04,
                                  'sigdefs+explicit_other_params': 0.03, 'sigdefs+explicit_overlapping': 0.02, 'valcol=self+data': 0.05}),
    Sub('join', lambda tier: _case(tier, 'join'), run_join, quick=3000, thorough=12000,
        rule=_RULE + 'join(inputs, on, defaults = ...) against the same key-set model: exact key set, ascending order, one column per input holding the table value / default / '
             'broadcast scalar. non-trivial as for perdictable',
        floor=0.15, class_floors={'sequence_valued_scalar': 0.05, 'sequence_valued_scalar_as_long_as_the_result': 0.015, 'partial_overlap': 0.1, 'default_extends_keys': 0.02, 'empty_result': 0.03, 'on_not_alphabetical': 0.1, 'scalar_broadcast': 0.15,
                                  'valcol=self+data': 0.05, 'rows>=3': 0.2, 'large': 0.04, 'large_result>=64': 0.02, 'one_table_8x_longer': 0.008, 'same_keyset_other_order': 0.04,
                                  'same_keyset_same_ends_other_order': 0.005, 'same_length_same_ends_other_keys': 0.005, 'table_presorted': 0.1, 'names_nested': 0.3,
                                  'second_call': 0.2, 'falsy_default_fills_row': 0.01, 'default_for_absent_input': 0.1, 'positional': 0.2, 'falsy_key': 0.2}),
    Sub('expiry', lambda tier: _case(tier, 'expiry'), run_expiry, quick=3000, thorough=12000,
        rule=_RULE + 'At least one table without default. A data table over a subset P of the joined keys (plus, sometimes, stale keys; values incl. None, 0, "", 0.0, False) and an expiry table giving each key of P '
             'one of absent / None / a past datetime (year 1-2000) / a future datetime (2999-9999); data / expiry as first or last keyword arguments. Oracle: past keys keep the supplied value and are absent from the call log, '
             'all other keys hold f(row) and f was called exactly once for each. non-trivial = as above, or >= 3 distinct expiry kinds among the keys of P',
        floor=0.2, class_floors={'expiry_kinds>=3': 0.05, 'stale_previous_keys': 0.02, 'default_extends_keys': 0.03,
                                 'kind=past': 0.2, 'kind=future': 0.1, 'kind=none': 0.1, 'kind=absent': 0.1, 'kind=not_computed_before': 0.2,
                                 'old=none/past': 0.04, 'old=none/future': 0.02, 'old=none/none': 0.02, 'old=none/absent': 0.02,
                                 'old=falsy/past': 0.04, 'old=falsy/future': 0.02, 'old=falsy/none': 0.02, 'old=falsy/absent': 0.02,
                                 'data_expiry_first_kwargs': 0.1, 'extreme_date': 0.08, 'first_row_past': 0.08, 'last_row_past': 0.08, 'all_rows_past': 0.03,
                                 'f_returns_falsy_and_past_rows': 0.07, 'large': 0.04, 'large_result>=64': 0.02, 'second_call': 0.15, 'names_nested': 0.3,
                                 'signature_default_not_in_explicit_defaults': 0.08, 'ignored_signature_default_would_change_the_keys': 0.03,
                                 'signature_defaults_are_the_defaults': 0.04, 'signature_default_fills_row': 0.005}),
]
for _s in SUBS:
    _s.qshards = 8
